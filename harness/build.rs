fn main() {
    // daemon/src/bmp.rs and main.rs use env!("GIT_HASH"); the real build.rs asks git.
    println!("cargo:rustc-env=GIT_HASH=verif");
    println!("cargo:rustc-check-cfg=cfg(osrg_rustybgp_verif)");
}
