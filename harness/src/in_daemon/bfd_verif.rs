//! in-daemon verification module (bfd_verif): child of the daemon's `bfd` module, sees its private items.
use super::*;

/// One BFD peer task (the daemon's `peer_loop`), fed the way `server_loop` feeds it: decoded
/// control packets through its channel. The harness owns the channel, the event receiver and the
/// state map.
pub(crate) struct PeerRig {
    pub(crate) addr: IpAddr,
    pub(crate) disc: u32,
    pub(crate) tx: Option<mpsc::UnboundedSender<Message>>,
    pub(crate) events: mpsc::UnboundedReceiver<BfdEvent>,
    pub(crate) states: Arc<RwLock<HashMap<IpAddr, PeerStateSnapshot>>>,
    pub(crate) task: tokio::task::JoinHandle<()>,
}

pub(crate) fn config(desired_min_tx_interval_us: u32, required_min_rx_interval_us: u32, detect_multiplier: u8, port: u16) -> BfdPeerConfig {
    BfdPeerConfig { desired_min_tx_interval_us, required_min_rx_interval_us, detect_multiplier, port }
}

/// needs a tokio runtime context; `server` is the socket the task falls back to for sending
pub(crate) fn spawn_peer(addr: IpAddr, config: BfdPeerConfig, disc: u32, server: Arc<UdpSocket>) -> PeerRig {
    let (tx, rx) = mpsc::unbounded_channel::<Message>();
    let (event_tx, events) = mpsc::unbounded_channel();
    let states = Arc::new(RwLock::new(HashMap::<IpAddr, PeerStateSnapshot>::new()));
    states.write().unwrap().insert(addr, PeerStateSnapshot::default());
    let task = tokio::spawn(peer_loop(addr, config, disc, server, rx, event_tx, states.clone()));
    PeerRig { addr, disc, tx: Some(tx), events, states, task }
}

impl PeerRig {
    /// (api session state: 1 up, 2 down, 3 admin-down, 4 init, 0 none yet; packets received; packets sent)
    pub(crate) fn snapshot(&self) -> (i32, u64, u64) {
        let s = self.states.read().unwrap().get(&self.addr).cloned().unwrap_or_default();
        (s.session_state, s.rx_packets, s.tx_packets)
    }

    /// SessionDown notifications since the last call
    pub(crate) fn session_downs(&mut self) -> usize {
        let mut n = 0;
        while let Ok(BfdEvent::SessionDown { .. }) = self.events.try_recv() {
            n += 1;
        }
        n
    }
}
