//! in-daemon verification module: child of `crate::rpki`, reaches the private
//! `RpkiClient::serve_inner` and runs it over an in-memory duplex stream.

use super::*;

pub(crate) struct Client {
    pub(crate) task: tokio::task::JoinHandle<()>,
    pub(crate) state: Arc<RpkiState>,
    pub(crate) cancel: CancellationToken,
    pub(crate) soft_reset: Arc<Notify>,
}

/// Spawn the real RTR client loop on `io` for the cache identified by `addr`.
pub(crate) fn spawn_client(io: tokio::io::DuplexStream, addr: Arc<IpAddr>, tables: TableHandle) -> Client {
    let state = Arc::new(RpkiState::default());
    let cancel = CancellationToken::new();
    let soft_reset = Arc::new(Notify::new());
    let lines = Framed::new(io, rpki::RtrCodec::new());
    let (s, c, n) = (state.clone(), cancel.clone(), soft_reset.clone());
    let task = tokio::spawn(async move {
        let _ = RpkiClient::serve_inner(lines, addr, c, n, s, tables).await;
    });
    Client { task, state, cancel, soft_reset }
}

/// Sum of all receive counters: used by the harness to detect that the client is idle.
pub(crate) fn progress(state: &RpkiState) -> i64 {
    state.received_ipv4.load(Ordering::Relaxed)
        + state.received_ipv6.load(Ordering::Relaxed)
        + state.serial_notify.load(Ordering::Relaxed)
        + state.cache_reset.load(Ordering::Relaxed)
        + state.cache_response.load(Ordering::Relaxed)
        + state.end_of_data.load(Ordering::Relaxed)
        + state.error.load(Ordering::Relaxed)
        + state.serial_query.load(Ordering::Relaxed)
        + state.reset_query.load(Ordering::Relaxed)
}
