//! in-daemon verification module (tm_verif): child of the daemon's `table_manager` module.
//!
//! `sched(point)` is called by the guarded hooks at the places of TableManager where the
//! calling thread holds no shard lock (before a shard-lock acquisition, after the
//! subscriber list was loaded / registered). The harness installs a per-thread callback
//! and runs whatever the generated schedule says should happen "concurrently" there:
//! another complete TableManager call. Every schedule of real threads is equivalent to
//! one of these, because each mutator holds at most one shard lock at a time.
use super::*;
use std::cell::{Cell, RefCell};

type Hook = Box<dyn FnMut(&'static str)>;
thread_local! {
    static HOOK: RefCell<Option<Hook>> = const { RefCell::new(None) };
    static DEPTH: Cell<u32> = const { Cell::new(0) };
}

pub(crate) fn sched(point: &'static str) {
    // a call made from inside the callback is not scheduled again (one level of nesting)
    if DEPTH.with(|d| d.get()) > 0 {
        return;
    }
    let taken = HOOK.with(|h| h.borrow_mut().take());
    if let Some(mut f) = taken {
        DEPTH.with(|d| d.set(1));
        f(point);
        DEPTH.with(|d| d.set(0));
        HOOK.with(|h| {
            let mut h = h.borrow_mut();
            if h.is_none() {
                *h = Some(f);
            }
        });
    }
}

pub(crate) fn set_hook(f: Option<Hook>) {
    HOOK.with(|h| *h.borrow_mut() = f);
    DEPTH.with(|d| d.set(0));
}

/// Adj-RIB-In as held by the RIB: (peer, family, prefix, path id) -> (next hop, attributes), pre- and post-policy
pub(crate) type RibView = std::collections::BTreeMap<String, (Option<bgp::Nexthop>, Arc<Vec<packet::Attribute>>)>;

pub(crate) fn rib_views(tm: &TableManager) -> (RibView, RibView) {
    let mut pre = RibView::new();
    let mut post = RibView::new();
    for shard in &tm.shards {
        let t = shard.lock().unwrap();
        for f in t.rtable.families().collect::<Vec<_>>() {
            for r in t.rtable.iter_reach(f) {
                pre.insert(format!("{}|{:?}|{:?}", r.source.remote_addr, f, r.net), (r.nexthop, r.attr));
            }
            for r in t.rtable.iter_reach_post(f) {
                post.insert(format!("{}|{:?}|{:?}", r.source.remote_addr, f, r.net), (r.nexthop, r.attr));
            }
        }
    }
    (pre, post)
}

pub(crate) fn shard_of(tm: &TableManager, n: &packet::Nlri) -> usize {
    tm.dealer(n)
}

pub(crate) fn nexthop_invalid(tm: &TableManager) -> Vec<IpAddr> {
    tm.nexthop_invalid.load().iter().copied().collect()
}
