//! in-daemon verification module (event_verif): child of the daemon's `event` module, sees its private items.
//!
//! `Neighbor` wraps a real `PeerSession` built with the daemon's cfg(test) constructor (no
//! socket): the session's own `on_established`, `handle_prefix_update` and
//! `do_route_refresh` run; the harness replaces only the select loop (it decides when a
//! queued change is delivered) and the socket write (it decides when pending updates are
//! flushed).
use super::export::*;
use super::*;

pub(crate) struct NeighborParams {
    pub(crate) remote_addr: IpAddr,
    pub(crate) role: table::PeerRole,
    pub(crate) local_asn: u32,
    pub(crate) local_addr: IpAddr,
    pub(crate) confederation_id: u32,
    pub(crate) cluster_id: Option<Ipv4Addr>,
    pub(crate) families: Vec<Family>,
    /// add-path send-max per family (1 = no add-path)
    pub(crate) effective_max: usize,
    pub(crate) export_policy: Option<Arc<table::PolicyAssignment>>,
}

pub(crate) struct Neighbor {
    pub(crate) p: NeighborParams,
    /// a real PeerSession (cfg(test) constructor, no socket): its own on_established,
    /// handle_prefix_update and do_route_refresh run; only the select loop that picks the
    /// next event and the socket write are replaced by the harness's schedule
    s: PeerSession,
    pub(crate) delivered: u64,
}

impl Neighbor {
    /// needs a tokio runtime context (the session holds timer futures)
    pub(crate) async fn establish(tables: &TableHandle, p: NeighborParams) -> Neighbor {
        let fsm = crate::fsm::PeerFsm::new(1, p.local_asn, Vec::new(), 90, 0, FnvHashMap::default());
        let context = Arc::new(std::sync::Mutex::new(PeerContext {
            conn_arbiter: Arc::new(std::sync::Mutex::new(ConnArbiter::new(fsm))),
            active_connect_cancel_tx: None,
            active_connect_join_handle: None,
            gr_state: crate::gr::GrState::new(),
            gr_restart_timer: None,
            llgr_family_timers: FnvHashMap::default(),
            rtc_state: crate::rtc::RtcState::new(),
            rtc_eor_timer: None,
        }));
        let mut s = PeerSession::new_for_test(p.remote_addr, context, tables.clone());
        s.export_ctx = PeerExportContext { role: p.role, local_asn: p.local_asn, local_addr: p.local_addr, link_addr: None, confederation_id: p.confederation_id };
        s.cluster_id = p.cluster_id;
        for f in &p.families {
            s.codec.set_family(*f, bgp::FamilyState { addpath_rx: false, addpath_tx: p.effective_max > 1 });
            if p.effective_max > 1 {
                s.effective_max.insert(*f, p.effective_max);
            }
        }
        s.state.export_policy.store(p.export_policy.clone());
        s.state.remote_asn.store(65100, Ordering::Relaxed);
        s.state.remote_id.store(0x0909_0909, Ordering::Relaxed);
        s.state.remote_cap.store(Some(Arc::new(Vec::new())));
        let local = SocketAddr::new(p.local_addr, 179);
        let remote = SocketAddr::new(p.remote_addr, 40000);
        s.on_established(local, remote).await;
        Neighbor { p, s, delivered: 0 }
    }

    /// the session's select loop takes up to `n` queued table events (same dispatch as run_select)
    pub(crate) async fn deliver(&mut self, n: usize) -> usize {
        let mut done = 0;
        while done < n {
            let Some(rx) = self.s.peer_event_rx.as_mut() else { break };
            // (unconstrained: tokio's cooperative budget would otherwise report an empty queue after 128 receives in one poll)
            let Some(ev) = tokio::task::unconstrained(rx.next()).now_or_never() else { break };
            done += 1;
            match ev {
                Some(ToPeerEvent::NlriChange(update)) => {
                    let is_rtc = update.family == Family::RTC;
                    self.s.handle_prefix_update(update);
                    if is_rtc {
                        for family in self.s.rtc_vpn_refresh_families() {
                            self.s.do_route_refresh(family).await;
                        }
                    }
                    self.delivered += 1;
                }
                Some(ToPeerEvent::SoftResetOut) => {
                    for family in self.s.pending.keys().cloned().collect::<Vec<_>>() {
                        self.s.do_route_refresh(family).await;
                    }
                }
                Some(ToPeerEvent::RouteRefreshFamilies(families)) => {
                    for family in families {
                        self.s.do_route_refresh(family).await;
                    }
                }
                None => {
                    self.s.peer_event_rx = None;
                }
            }
        }
        done
    }

    pub(crate) async fn route_refresh(&mut self, family: Family) {
        self.s.do_route_refresh(family).await;
    }

    /// the socket is writable: everything pending becomes messages
    pub(crate) fn flush(&mut self) -> Vec<bgp::Message> {
        let mut out = Vec::new();
        let fams = self.p.families.clone();
        for f in fams {
            if let Some(p) = self.s.pending.get_mut(&f) {
                out.extend(p.drain_messages(f));
            }
        }
        out
    }

    pub(crate) fn set_policy(&mut self, p: Option<Arc<table::PolicyAssignment>>) {
        self.s.state.export_policy.store(p.clone());
        self.p.export_policy = p;
    }

    /// session ends: the daemon unregisters the peer from every shard
    pub(crate) fn close(&mut self, tables: &TableHandle) {
        self.s.peer_event_rx = None;
        tables.unregister_peer(self.p.remote_addr, &[], &[]);
    }
}

/// one (source path set, receiver) evaluation of the export pipeline, captured instead of queued
pub(crate) struct Captured {
    pub(crate) reach: Vec<(packet::Nlri, u32, Option<bgp::Nexthop>, Arc<Vec<packet::Attribute>>)>,
    pub(crate) unreach: Vec<(packet::Nlri, u32)>,
}

impl NlriSink for Captured {
    fn reach(&mut self, _dest_id: u32, nlri: packet::Nlri, path_id: u32, nexthop: Option<bgp::Nexthop>, attr: Arc<Vec<packet::Attribute>>, _source: &Arc<table::Source>) {
        self.reach.push((nlri, path_id, nexthop, attr));
    }
    fn unreach(&mut self, _dest_id: u32, nlri: packet::Nlri, path_id: u32) {
        self.unreach.push((nlri, path_id));
    }
}

pub(crate) fn export_once(update: &table::NlriChange, p: &NeighborParams) -> Captured {
    let ctx = PeerExportContext { role: p.role, local_asn: p.local_asn, local_addr: p.local_addr, link_addr: None, confederation_id: p.confederation_id };
    let mut em = ExportMap::new(p.families.iter().copied().filter(|_| p.effective_max > 1));
    let mut sink = Captured { reach: Vec::new(), unreach: Vec::new() };
    process_nlri_change(update, p.effective_max, p.remote_addr, &mut em, &mut sink, &ctx, p.export_policy.as_deref(), p.cluster_id, None, None, None);
    sink
}

pub(crate) fn as_loop(attr: &Arc<Vec<bgp::Attribute>>, local_asn: u32, confederation_id: u32) -> bool {
    is_as_loop(attr, local_asn, confederation_id)
}

// ---------------------------------------------------------------------------
// Graceful-restart helper rig (C10)
// ---------------------------------------------------------------------------

/// What a session negotiated, as the harness generated it.
#[derive(Clone)]
pub(crate) struct SessionGr {
    pub(crate) families: Vec<Family>,
    pub(crate) gr: Option<(Vec<Family>, Duration, bool)>,
    pub(crate) llgr: Option<Vec<(Family, Duration)>>,
}

/// The daemon's per-peer context with its real GR state machine and timer slots, driven
/// through the daemon's own disconnect handling. The tail of `PeerSession::run` (what to
/// drop, what to mark stale, which negotiated parameters survive the disconnect reason)
/// is repeated here statement by statement; `PeerSession::process_effects`,
/// `apply_disconnect`, `gr_restart_timer_expired`, `llgr_timer_expired` and
/// `spawn_llgr_timers` are the daemon's.
pub(crate) struct GrRig {
    context: Arc<std::sync::Mutex<PeerContext>>,
    pub(crate) addr: IpAddr,
    /// a session object of the peer (cfg(test) constructor, no socket): its process_effects runs
    session: std::cell::RefCell<PeerSession>,
    global: GlobalHandle,
}

impl GrRig {
    pub(crate) fn new(addr: IpAddr, tables: &TableHandle) -> Self {
        let fsm = crate::fsm::PeerFsm::new(1, 65000, Vec::new(), 90, 0, FnvHashMap::default());
        let conn_arbiter = Arc::new(std::sync::Mutex::new(ConnArbiter::new(fsm)));
        let context = Arc::new(std::sync::Mutex::new(PeerContext {
            conn_arbiter,
            active_connect_cancel_tx: None,
            active_connect_join_handle: None,
            gr_state: crate::gr::GrState::new(),
            gr_restart_timer: None,
            llgr_family_timers: FnvHashMap::default(),
            rtc_state: crate::rtc::RtcState::new(),
            rtc_eor_timer: None,
        }));
        let session = PeerSession::new_for_test(addr, context.clone(), tables.clone());
        let (tx, _rx) = mpsc::unbounded_channel();
        let (bfd_tx, _bfd_rx) = mpsc::unbounded_channel();
        let global: GlobalHandle = Arc::new(tokio::sync::RwLock::new(Global::new(tx, bfd_tx)));
        GrRig { context, addr, session: std::cell::RefCell::new(session), global }
    }

    /// end of a connection: `established` = on_established() had run (sources exist)
    pub(crate) async fn session_down(&self, tables: &TableHandle, established: bool, s: &SessionGr, reason: Option<crate::fsm::SessionDownReason>) {
        let negotiated_gr = if established { s.gr.clone().map(|(families, restart_time, n)| NegotiatedGr { families, restart_time, notification_enabled: n }) } else { None };
        let negotiated_llgr = if established { s.llgr.clone().map(|families| NegotiatedLlgr { families }) } else { None };
        let mut disconnect = DisconnectInfo { role: crate::fsm::Role::Passive, remote_addr: self.addr, export_map: ExportMap::default(), negotiated_gr: None, negotiated_llgr: None };
        // (the tail of PeerSession::session_loop)
        let (kept_gr, kept_llgr) = helper_mode_on_disconnect(&reason, negotiated_gr, negotiated_llgr, false);
        if established {
            let drop_families = families_to_drop_on_disconnect(s.families.iter(), kept_gr.as_ref(), kept_llgr.as_ref());
            let stale_families = stale_families_on_disconnect(kept_gr.as_ref(), kept_llgr.as_ref());
            tables.unregister_peer(self.addr, &drop_families, &stale_families);
        }
        disconnect.negotiated_gr = kept_gr;
        disconnect.negotiated_llgr = kept_llgr;
        let _ = apply_disconnect(&self.context, self.addr, tables, disconnect).await;
    }

    /// the daemon's GlobalEffect::GrSessionEstablished handling (the speaker is not restarting: helper side)
    #[allow(clippy::await_holding_refcell_ref)]
    pub(crate) async fn session_established(&self, gr_families: Vec<Family>) {
        let negotiated_gr = if gr_families.is_empty() { None } else { Some(NegotiatedGr { families: gr_families, restart_time: Duration::from_secs(120), notification_enabled: false }) };
        self.session.borrow_mut().process_effects(vec![GlobalEffect::GrSessionEstablished { negotiated_gr }], &self.global).await;
    }

    /// the daemon's GlobalEffect::GrEorReceived handling
    #[allow(clippy::await_holding_refcell_ref)]
    pub(crate) async fn eor(&self, family: Family) {
        self.session.borrow_mut().process_effects(vec![GlobalEffect::GrEorReceived { family }], &self.global).await;
    }

    /// (restart timer armed, families with an armed LLGR timer, GrState::is_peer_restarting)
    pub(crate) fn timers(&self) -> (bool, Vec<Family>, bool) {
        let ctx = self.context.lock().unwrap();
        let gr = ctx.gr_restart_timer.as_ref().is_some_and(|t| !t.is_closed());
        let llgr = ctx.llgr_family_timers.iter().filter(|(_, t)| !t.is_closed()).map(|(f, _)| *f).collect();
        (gr, llgr, ctx.gr_state.is_peer_restarting())
    }
}

/// (family, prefix, path id, stale, carries NO_LLGR) of every path the RIB holds from `addr`
pub(crate) fn adj_in(tables: &TableHandle, addr: IpAddr, families: &[Family]) -> Vec<(Family, String, bool)> {
    let mut out = Vec::new();
    for f in families {
        for d in tables.collect_paths(table::TableQuery::AdjIn(addr), *f, Vec::new(), true) {
            for p in &d.paths {
                out.push((*f, format!("{:?}", d.net), p.stale));
            }
        }
    }
    out
}

// ---------------------------------------------------------------------------
// Session admission rig (C16): the daemon's Global + accept_connection + PeerSession::run
// over real loopback TCP connections from chosen 127.x.y.z source addresses
// ---------------------------------------------------------------------------

#[derive(Clone, Debug)]
pub(crate) struct NeighborCfg {
    pub(crate) addr: IpAddr,
    pub(crate) remote_asn: u32,
    pub(crate) local_asn: u32,
    pub(crate) rs_client: bool,
    pub(crate) rr_client: bool,
    pub(crate) cluster_id: Option<Ipv4Addr>,
    pub(crate) admin_down: bool,
    pub(crate) holdtime: u64,
    pub(crate) families: Vec<(Family, u8)>,
    pub(crate) prefix_limit: Option<u32>,
    /// graceful restart as configured for the neighbour: (restart time, N-bit, families)
    pub(crate) gr: Option<(u16, bool, Vec<Family>)>,
    /// long-lived graceful restart as configured: (family, stale time)
    pub(crate) llgr: Option<Vec<(Family, u32)>>,
}

#[derive(Clone, Debug)]
pub(crate) struct GroupCfg {
    pub(crate) name: String,
    pub(crate) prefixes: Vec<(IpAddr, u8)>,
    pub(crate) as_number: u32,
    pub(crate) local_asn: u32,
    pub(crate) rs_client: bool,
    pub(crate) rr_client: bool,
    pub(crate) cluster_id: Option<Ipv4Addr>,
    pub(crate) holdtime: Option<u64>,
    pub(crate) families: Vec<(Family, u8)>,
    /// graceful restart as configured for the group: (restart time, N-bit, families)
    pub(crate) gr: Option<(u16, bool, Vec<Family>)>,
}

#[derive(Clone, Debug, PartialEq)]
pub(crate) struct SessionView {
    pub(crate) role: table::PeerRole,
    pub(crate) local_asn: u32,
    pub(crate) expected_remote_asn: u32,
    pub(crate) local_cap: Vec<packet::Capability>,
    pub(crate) cluster_id: Option<Ipv4Addr>,
    pub(crate) confederation_id: u32,
    pub(crate) holdtime: u64,
    pub(crate) prefix_limits: Vec<(Family, u32)>,
    pub(crate) dynamic: bool,
}

/// a loopback address of its own for every listener (127.160.0.0/11): the ephemeral ports of
/// 127.0.0.1, which the repository's own tests use, are left alone, and sockets in TIME_WAIT
/// from earlier cases never stand in the way
fn fresh_listen_addr() -> SocketAddr {
    static N: std::sync::atomic::AtomicU32 = std::sync::atomic::AtomicU32::new(0);
    let mut n = N.fetch_add(1, Ordering::Relaxed);
    if n == 0 {
        n = std::process::id().wrapping_mul(7919);
        N.store(n.wrapping_add(1), Ordering::Relaxed);
    }
    SocketAddr::new(IpAddr::V4(Ipv4Addr::new(127, 160 + ((n >> 16) & 0x1f) as u8, (n >> 8) as u8, 1 + (n % 254) as u8)), 0)
}

pub(crate) struct AdmitRig {
    pub(crate) global: GlobalHandle,
    pub(crate) tables: TableHandle,
    listener: tokio::net::TcpListener,
    active_tx: mpsc::UnboundedSender<TcpStream>,
    _active_rx: mpsc::UnboundedReceiver<TcpStream>,
}

pub(crate) struct Conn {
    pub(crate) client: Option<TcpStream>,
    pub(crate) task: Option<tokio::task::JoinHandle<()>>,
}

impl AdmitRig {
    pub(crate) async fn new(asn: u32, confederation: Option<(u32, Vec<u32>)>) -> Result<Self, String> {
        let (tx, _rx) = mpsc::unbounded_channel();
        let (bfd_tx, _bfd_rx) = mpsc::unbounded_channel();
        let mut g = Global::new(tx, bfd_tx);
        g.asn = asn;
        g.router_id = Ipv4Addr::new(1, 0, 0, 1);
        g.confederation = confederation.map(|(id, members)| ConfederationConfig { id, members: members.into_iter().collect() });
        let listener = tokio::net::TcpListener::bind(fresh_listen_addr()).await.map_err(|e| e.to_string())?;
        let (active_tx, active_rx) = mpsc::unbounded_channel();
        Ok(AdmitRig { global: Arc::new(tokio::sync::RwLock::new(g)), tables: Arc::new(TableManager::new(1)), listener, active_tx, _active_rx: active_rx })
    }

    pub(crate) async fn add_neighbor(&self, c: &NeighborCfg) -> bool {
        let params = PeerParams {
            remote_addr: c.addr,
            remote_port: Global::BGP_PORT,
            expected_remote_asn: c.remote_asn,
            local_asn: c.local_asn,
            passive: true,
            rs_client: c.rs_client,
            route_reflector: RouteReflectorConfig { route_reflector_client: c.rr_client, route_reflector_cluster_id: c.cluster_id },
            delete_on_disconnected: false,
            admin_down: c.admin_down,
            state: SessionState::Idle,
            holdtime: c.holdtime,
            connect_retry_time: PeerParams::DEFAULT_CONNECT_RETRY_TIME,
            multihop_ttl: None,
            ttl_security: None,
            password: None,
            families: c.families.iter().copied().collect(),
            send_max: FnvHashMap::default(),
            prefix_limits: c.prefix_limit.map(|l| [(Family::IPV4, l)].into_iter().collect()).unwrap_or_default(),
            graceful_restart: c.gr.clone().map(|(restart_time, notification_enabled, families)| GrPeerConfig { restart_time, notification_enabled, families }),
            llgr: c.llgr.clone().map(|families| LlgrPeerConfig { families }),
            bfd_config: None,
            neighbor_interface: None,
            bind_interface: None,
            export_policy: None,
        };
        self.global.write().await.add_peer(params, None).is_ok()
    }

    pub(crate) async fn add_group(&self, c: &GroupCfg) {
        let pg = PeerGroup {
            as_number: c.as_number,
            dynamic_peers: c.prefixes.iter().map(|(a, l)| DynamicPeer { prefix: packet::IpNet::new(*a, *l) }).collect(),
            route_server_client: c.rs_client,
            holdtime: c.holdtime,
            local_asn: c.local_asn,
            passive: true,
            route_reflector: RouteReflectorConfig { route_reflector_client: c.rr_client, route_reflector_cluster_id: c.cluster_id },
            multihop_ttl: None,
            ttl_security: None,
            auth_password: None,
            connect_retry_time: None,
            families: c.families.iter().copied().collect(),
            send_max: FnvHashMap::default(),
            graceful_restart: c.gr.clone().map(|(restart_time, notification_enabled, families)| GrPeerConfig { restart_time, notification_enabled, families }),
            llgr: None,
        };
        self.global.write().await.peer_group.insert(c.name.clone(), pg);
    }

    pub(crate) async fn set_admin_down(&self, addr: IpAddr, down: bool) {
        if let Some(p) = self.global.write().await.peers.get_mut(&addr) {
            p.admin_down = down;
        }
    }

    /// (restart timer armed, families with an armed LLGR timer, GrState::is_peer_restarting) of the peer
    pub(crate) async fn gr_timers(&self, addr: IpAddr) -> (bool, Vec<Family>, bool) {
        let g = self.global.read().await;
        let Some(p) = g.peers.get(&addr) else { return (false, vec![], false) };
        let ctx = p.context.lock().unwrap();
        let gr = ctx.gr_restart_timer.as_ref().is_some_and(|t| !t.is_closed());
        let llgr = ctx.llgr_family_timers.iter().filter(|(_, t)| !t.is_closed()).map(|(f, _)| *f).collect();
        (gr, llgr, ctx.gr_state.is_peer_restarting())
    }

    /// the daemon's gRPC DisablePeer / EnablePeer handlers on this rig's Global
    pub(crate) async fn disable_peer(&self, addr: IpAddr, enable_again: bool) -> Result<(), String> {
        let svc = GrpcService::new(Arc::new(tokio::sync::Notify::new()), self.active_tx.clone(), self.global.clone(), self.tables.clone());
        svc.disable_peer(tonic::Request::new(api::DisablePeerRequest { address: addr.to_string(), communication: String::new() })).await.map_err(|e| e.to_string())?;
        if enable_again {
            svc.enable_peer(tonic::Request::new(api::EnablePeerRequest { address: addr.to_string() })).await.map_err(|e| e.to_string())?;
        }
        Ok(())
    }

    /// the daemon's gRPC DeletePeer handler on this rig's Global
    pub(crate) async fn delete_peer(&self, addr: IpAddr) -> Result<(), String> {
        let svc = GrpcService::new(Arc::new(tokio::sync::Notify::new()), self.active_tx.clone(), self.global.clone(), self.tables.clone());
        svc.delete_peer(tonic::Request::new(api::DeletePeerRequest { address: addr.to_string(), interface: String::new() })).await.map(|_| ()).map_err(|e| e.to_string())
    }

    /// start-up after a restart with graceful restart configured, as the configuration loader does it:
    /// the deferral machine over the configured helpers, its initial outputs applied to the tables
    pub(crate) async fn start_restarting(&self, gr_peers: FnvHashMap<IpAddr, Vec<Family>>, timer: Option<Duration>) {
        let (deferral, init_outputs) = crate::gr::RestartingDeferral::new(gr_peers, timer);
        if !deferral.is_completed() {
            for output in &init_outputs {
                if let crate::gr::RestartingOutput::DeferFamilies(families) = output {
                    self.tables.start_deferral_families(families);
                }
            }
            self.global.write().await.selection_deferral = Some(deferral);
        }
    }

    /// the speaker is still in restarting mode (Global.selection_deferral)
    pub(crate) async fn restarting(&self) -> bool {
        self.global.read().await.selection_deferral.is_some()
    }

    /// before add_neighbor: the speaker's BGP identifier
    pub(crate) async fn set_router_id(&self, id: Ipv4Addr) {
        self.global.write().await.router_id = id;
    }

    /// FSM state of the (active, passive) connection slot of the peer, as u8 (crate::fsm::State)
    pub(crate) async fn fsm_states(&self, addr: IpAddr) -> Option<(crate::fsm::State, crate::fsm::State)> {
        let g = self.global.read().await;
        let p = g.peers.get(&addr)?;
        let ctx = p.context.lock().unwrap();
        let arb = ctx.conn_arbiter.lock().unwrap();
        Some((arb.state(crate::fsm::Role::Active), arb.state(crate::fsm::Role::Passive)))
    }

    /// wire frames the daemon has counted as received from `addr` (all types)
    pub(crate) async fn rx_frames(&self, addr: IpAddr) -> u64 {
        let g = self.global.read().await;
        let Some(p) = g.peers.get(&addr) else { return 0 };
        let c = &p.counter_rx;
        [&c.open, &c.update, &c.notification, &c.keepalive, &c.refresh, &c.discarded].iter().map(|a| a.load(Ordering::Relaxed)).sum()
    }

    pub(crate) async fn has_peer(&self, addr: IpAddr) -> bool {
        self.global.read().await.peers.contains_key(&addr)
    }

    /// TCP connection from `src`; the daemon's accept_connection decides. When a session is
    /// created its run() is spawned (so that closing the client ends it the way the daemon does).
    pub(crate) async fn connect(&self, src: IpAddr, active: bool) -> Result<(Option<SessionView>, Conn), String> {
        let sock = tokio::net::TcpSocket::new_v4().map_err(|e| e.to_string())?;
        sock.bind(SocketAddr::new(src, 0)).map_err(|e| format!("bind {src}: {e}"))?;
        let dst = self.listener.local_addr().map_err(|e| e.to_string())?;
        let (client, server) = tokio::join!(sock.connect(dst), self.listener.accept());
        let client = client.map_err(|e| e.to_string())?;
        let (server, _) = server.map_err(|e| e.to_string())?;
        self.admit(client, server, src, active).await
    }

    /// the same without waiting for socket readiness (blocking loopback sockets, converted
    /// afterwards): under tokio's paused clock a task that waits for I/O while timers are
    /// pending lets the runtime advance the clock
    pub(crate) async fn connect_now(&self, src: IpAddr, active: bool) -> Result<(Option<SessionView>, Conn), String> {
        let e = |e: std::io::Error| e.to_string();
        let l = std::net::TcpListener::bind(fresh_listen_addr()).map_err(e)?;
        let dst = l.local_addr().map_err(e)?;
        let s = socket2::Socket::new(socket2::Domain::IPV4, socket2::Type::STREAM, None).map_err(e)?;
        s.bind(&SocketAddr::new(src, 0).into()).map_err(|x| format!("bind {src}: {x}"))?;
        s.connect(&dst.into()).map_err(e)?;
        let (server, _) = l.accept().map_err(e)?;
        let client: std::net::TcpStream = s.into();
        client.set_nonblocking(true).map_err(e)?;
        server.set_nonblocking(true).map_err(e)?;
        let client = TcpStream::from_std(client).map_err(e)?;
        let server = TcpStream::from_std(server).map_err(e)?;
        self.admit(client, server, src, active).await
    }

    async fn admit(&self, client: TcpStream, server: TcpStream, src: IpAddr, active: bool) -> Result<(Option<SessionView>, Conn), String> {
        let role = if active { crate::fsm::Role::Active } else { crate::fsm::Role::Passive };
        let session = accept_connection(&self.global, &self.tables, server, role).await;
        match session {
            None => Ok((None, Conn { client: Some(client), task: None })),
            Some(s) => {
                let g = self.global.read().await;
                let peer = g.peers.get(&src).ok_or("session without a peer entry")?;
                let mut pl: Vec<(Family, u32)> = s.prefix_counters.iter().map(|(f, (m, _))| (*f, *m)).collect();
                pl.sort_by_key(|(f, _)| (f.afi(), f.safi()));
                let view = SessionView {
                    role: s.export_ctx.role,
                    local_asn: s.export_ctx.local_asn,
                    expected_remote_asn: peer.config.expected_remote_asn,
                    local_cap: s.local_cap.clone(),
                    cluster_id: s.cluster_id,
                    confederation_id: s.export_ctx.confederation_id,
                    holdtime: peer.config.holdtime,
                    prefix_limits: pl,
                    dynamic: peer.config.delete_on_disconnected,
                };
                drop(g);
                let global = self.global.clone();
                let tx = self.active_tx.clone();
                let task = tokio::spawn(async move { s.run(global, tx).await });
                Ok((Some(view), Conn { client: Some(client), task: Some(task) }))
            }
        }
    }
}

impl Conn {
    /// bytes the daemon sent on this connection so far and whether it closed it
    pub(crate) async fn drain(&mut self, wait_ms: u64) -> (usize, bool) {
        use tokio::io::AsyncReadExt;
        let Some(c) = self.client.as_mut() else { return (0, true) };
        let mut buf = [0u8; 4096];
        let mut n = 0;
        loop {
            match tokio::time::timeout(Duration::from_millis(wait_ms), c.read(&mut buf)).await {
                Err(_) => return (n, false),
                Ok(Ok(0)) | Ok(Err(_)) => return (n, true),
                Ok(Ok(k)) => n += k,
            }
        }
    }

    /// the remote end goes away; wait for the daemon's session task to finish
    pub(crate) async fn close(&mut self) -> Result<(), String> {
        self.client = None;
        if let Some(t) = self.task.take() {
            match tokio::time::timeout(Duration::from_secs(5), t).await {
                Err(_) => return Err("the session task did not end within 5 s of the connection closing".into()),
                Ok(Err(e)) => return Err(format!("the session task panicked: {e}")),
                Ok(Ok(())) => {}
            }
        }
        Ok(())
    }
}

// ---------------------------------------------------------------------------
// gRPC handler rig (C17): the daemon's GrpcService with its real AddPath / DeletePath /
// ListPath handlers, called in-process (no transport)
// ---------------------------------------------------------------------------

pub(crate) struct ApiRig {
    svc: GrpcService,
    pub(crate) tables: TableHandle,
}

impl ApiRig {
    pub(crate) fn new() -> Self {
        let (tx, _rx) = mpsc::unbounded_channel();
        let (bfd_tx, _bfd_rx) = mpsc::unbounded_channel();
        let mut g = Global::new(tx, bfd_tx);
        g.asn = 65000;
        g.router_id = Ipv4Addr::new(1, 0, 0, 1);
        let global: GlobalHandle = Arc::new(tokio::sync::RwLock::new(g));
        let tables: TableHandle = Arc::new(TableManager::new(2));
        let (active_conn_tx, _) = mpsc::unbounded_channel();
        let svc = GrpcService::new(Arc::new(tokio::sync::Notify::new()), active_conn_tx, global, tables.clone());
        ApiRig { svc, tables }
    }

    pub(crate) async fn add_path(&self, path: api::Path) -> Result<Vec<u8>, tonic::Status> {
        let req = tonic::Request::new(api::AddPathRequest { table_type: api::TableType::Global as i32, vrf_id: String::new(), path: Some(path) });
        self.svc.add_path(req).await.map(|r| r.into_inner().uuid)
    }

    pub(crate) async fn delete_path(&self, uuid: Vec<u8>) -> Result<(), tonic::Status> {
        let req = tonic::Request::new(api::DeletePathRequest { uuid, ..Default::default() });
        self.svc.delete_path(req).await.map(|_| ())
    }

    pub(crate) async fn list(&self, family: api::Family) -> Result<Vec<api::Destination>, tonic::Status> {
        let req = tonic::Request::new(api::ListPathRequest { table_type: api::TableType::Global as i32, family: Some(family), ..Default::default() });
        let mut stream = self.svc.list_path(req).await?.into_inner();
        let mut out = Vec::new();
        while let Some(r) = stream.next().await {
            if let Some(d) = r?.destination {
                out.push(d);
            }
        }
        Ok(out)
    }
}

// ---------------------------------------------------------------------------
// Restarting-speaker rig (C11): the daemon's Global.selection_deferral driven through
// PeerSession::process_effects (GrSessionEstablished / GrEorReceived arms, which spawn the
// real selection-deferral timer task), gr_selection_deferral_timer_expired and
// process_restarting_outputs, on a real TableManager. The start-up lines of the
// configuration loader and the PeerWithdrawn lines of PeerSession::run are repeated here.
// ---------------------------------------------------------------------------

pub(crate) struct DeferralRig {
    pub(crate) global: GlobalHandle,
    pub(crate) tables: TableHandle,
    sessions: Vec<PeerSession>,
}

impl DeferralRig {
    /// needs a tokio runtime context with a paused clock
    pub(crate) async fn new(peers: &[IpAddr], gr_peers: FnvHashMap<IpAddr, Vec<Family>>, timer: Option<Duration>) -> Self {
        let (tx, _rx) = mpsc::unbounded_channel();
        let (bfd_tx, _bfd_rx) = mpsc::unbounded_channel();
        let g = Global::new(tx, bfd_tx);
        let global: GlobalHandle = Arc::new(tokio::sync::RwLock::new(g));
        let tables: TableHandle = Arc::new(TableManager::new(2));
        // (start-up, as in the configuration loader)
        let (deferral, init_outputs) = crate::gr::RestartingDeferral::new(gr_peers, timer);
        if !deferral.is_completed() {
            for output in &init_outputs {
                if let crate::gr::RestartingOutput::DeferFamilies(families) = output {
                    tables.start_deferral_families(families);
                }
            }
            global.write().await.selection_deferral = Some(deferral);
        }
        let sessions = peers
            .iter()
            .map(|a| {
                let fsm = crate::fsm::PeerFsm::new(1, 65000, Vec::new(), 90, 0, FnvHashMap::default());
                let context = Arc::new(std::sync::Mutex::new(PeerContext {
                    conn_arbiter: Arc::new(std::sync::Mutex::new(ConnArbiter::new(fsm))),
                    active_connect_cancel_tx: None,
                    active_connect_join_handle: None,
                    gr_state: crate::gr::GrState::new(),
                    gr_restart_timer: None,
                    llgr_family_timers: FnvHashMap::default(),
                    rtc_state: crate::rtc::RtcState::new(),
                    rtc_eor_timer: None,
                }));
                PeerSession::new_for_test(*a, context, tables.clone())
            })
            .collect();
        DeferralRig { global, tables, sessions }
    }

    /// the session with peer `p` reached Established having negotiated graceful restart for `gr_families`
    pub(crate) async fn established(&mut self, p: usize, gr_families: Vec<Family>) {
        let negotiated_gr = if gr_families.is_empty() { None } else { Some(NegotiatedGr { families: gr_families, restart_time: Duration::from_secs(120), notification_enabled: false }) };
        let global = self.global.clone();
        self.sessions[p].process_effects(vec![GlobalEffect::GrSessionEstablished { negotiated_gr }], &global).await;
        // a timer task spawned by the effect starts its sleep now, not at the harness's next await
        for _ in 0..4 {
            tokio::task::yield_now().await;
        }
    }

    pub(crate) async fn eor(&mut self, p: usize, family: Family) {
        let global = self.global.clone();
        self.sessions[p].process_effects(vec![GlobalEffect::GrEorReceived { family }], &global).await;
    }

    /// the session with peer `p` ended (the lines of PeerSession::run that tell the deferral machine)
    pub(crate) async fn withdrawn(&mut self, p: usize) {
        let addr = self.sessions[p].remote_addr;
        let rd_outputs = {
            let mut server = self.global.write().await;
            if let Some(rd) = &mut server.selection_deferral { rd.process(crate::gr::RestartingInput::PeerWithdrawn(addr)) } else { vec![] }
        };
        let _ = process_restarting_outputs(rd_outputs, &self.global, &self.tables).await;
    }

    /// (still restarting, the selection-deferral timer task exists)
    pub(crate) async fn state(&self) -> (bool, bool) {
        let g = self.global.read().await;
        (g.selection_deferral.is_some(), g.selection_deferral_timer.as_ref().is_some_and(|h| !h.is_finished()))
    }
}


/// The daemon's Global (policy table + neighbours with per-peer export assignments) for the
/// policy life-cycle glue: Global::{add_policy, delete_policy, add_policy_assignment}.
pub(crate) struct PolicyRig {
    pub(crate) g: Global,
    pub(crate) tables: TableHandle,
    pub(crate) peers: Vec<IpAddr>,
}

impl PolicyRig {
    pub(crate) fn new(n_peers: u8) -> Self {
        let (tx, _rx) = mpsc::unbounded_channel();
        let (bfd_tx, _bfd_rx) = mpsc::unbounded_channel();
        let mut g = Global::new(tx, bfd_tx);
        g.asn = 65000;
        g.router_id = Ipv4Addr::new(1, 0, 0, 1);
        let mut peers = Vec::new();
        for i in 0..n_peers {
            let addr = IpAddr::V4(Ipv4Addr::new(10, 0, 0, 1 + i));
            let params = PeerParams {
                remote_addr: addr,
                remote_port: Global::BGP_PORT,
                expected_remote_asn: 65001 + i as u32,
                local_asn: 0,
                passive: true,
                rs_client: false,
                route_reflector: RouteReflectorConfig { route_reflector_client: false, route_reflector_cluster_id: None },
                delete_on_disconnected: false,
                admin_down: false,
                state: SessionState::Idle,
                holdtime: 90,
                connect_retry_time: PeerParams::DEFAULT_CONNECT_RETRY_TIME,
                multihop_ttl: None,
                ttl_security: None,
                password: None,
                families: [(Family::IPV4, 0)].into_iter().collect(),
                send_max: FnvHashMap::default(),
                prefix_limits: Default::default(),
                graceful_restart: None,
                llgr: None,
                bfd_config: None,
                neighbor_interface: None,
                bind_interface: None,
                export_policy: None,
            };
            if g.add_peer(params, None).is_ok() {
                peers.push(addr);
            }
        }
        PolicyRig { g, tables: Arc::new(TableManager::new(1)), peers }
    }

    pub(crate) fn ptable(&mut self) -> &mut table::PolicyTable {
        &mut self.g.ptable
    }

    /// AddPolicyAssignment: `peer` = None is the global assignment
    pub(crate) fn assign(&mut self, peer: Option<usize>, export: bool, names: Vec<String>, accept: bool) -> Result<(), String> {
        let req = api::PolicyAssignment {
            name: peer.map(|p| self.peers[p % self.peers.len()].to_string()).unwrap_or_else(|| "global".to_string()),
            direction: if export { api::PolicyDirection::Export as i32 } else { api::PolicyDirection::Import as i32 },
            policies: names.into_iter().map(|name| api::Policy { name, statements: vec![] }).collect(),
            default_action: if accept { api::RouteAction::Accept as i32 } else { api::RouteAction::Reject as i32 },
        };
        self.g.add_policy_assignment(self.tables.clone(), req).map_err(|e| format!("{e:?}"))
    }

    pub(crate) fn delete_policy(&mut self, name: &str, preserve_statements: bool, all: bool, statements: Vec<String>) -> Result<(), String> {
        self.g.delete_policy(self.tables.clone(), name, preserve_statements, all, statements).map_err(|e| format!("{e:?}"))
    }

    pub(crate) fn add_policy(&mut self, name: &str, statements: Vec<String>) -> Result<(), String> {
        self.g.add_policy(name, statements).map_err(|e| format!("{e:?}"))
    }

    /// what the table lists: policy -> statement names, and the statements that exist
    pub(crate) fn table_view(&self) -> (std::collections::BTreeMap<String, Vec<String>>, std::collections::BTreeSet<String>) {
        let pols = self.g.ptable.iter_policies(String::new()).map(|p| (p.name.to_string(), p.statements.iter().map(|s| s.name.to_string()).collect())).collect();
        let stmts = self.g.ptable.iter_statements(String::new()).map(|s| s.name.to_string()).collect();
        (pols, stmts)
    }

    /// what each user evaluates: (user, policy name, its statement names); users are the peers'
    /// export assignments and the two global assignments as stored in the TableManager
    pub(crate) fn users_view(&self) -> Vec<(String, String, Vec<String>)> {
        let mut out = Vec::new();
        for a in &self.peers {
            if let Some(asg) = self.g.peers.get(a).and_then(|p| p.state.export_policy.load_full()) {
                for p in &asg.policies {
                    out.push((a.to_string(), p.name.to_string(), p.statements.iter().map(|s| s.name.to_string()).collect()));
                }
            }
        }
        for (who, asg) in [("global-import", self.tables.import_policy.load_full()), ("global-export", self.tables.export_policy.load_full())] {
            if let Some(asg) = asg {
                for p in &asg.policies {
                    out.push((who.to_string(), p.name.to_string(), p.statements.iter().map(|s| s.name.to_string()).collect()));
                }
            }
        }
        out
    }
}
