//! in-daemon verification module (event_verif): child of the daemon's `event` module, sees its private items.
//!
//! `Neighbor` is a shadow of the export side of `PeerSession`: it performs, with the
//! daemon's own functions (ExportMap, PendingTx, GroupedSink, process_nlri_change,
//! TableManager::register_peer, collect_loc_rib_paths_limited), the steps that
//! `on_established`, `handle_prefix_update` and `do_route_refresh` perform, in the same
//! order, but lets the harness decide when queued changes are delivered and when the
//! pending updates are flushed.
use super::export::*;
use super::*;

pub(crate) struct NeighborParams {
    pub(crate) remote_addr: IpAddr,
    pub(crate) role: table::PeerRole,
    pub(crate) local_asn: u32,
    pub(crate) local_addr: IpAddr,
    pub(crate) confederation_id: u32,
    pub(crate) cluster_id: Option<Ipv4Addr>,
    pub(crate) families: Vec<Family>,
    /// add-path send-max per family (1 = no add-path)
    pub(crate) effective_max: usize,
    pub(crate) export_policy: Option<Arc<table::PolicyAssignment>>,
}

pub(crate) struct Neighbor {
    pub(crate) p: NeighborParams,
    ctx: PeerExportContext,
    export_map: ExportMap,
    pending: FnvHashMap<Family, crate::peer_tx::PendingTx>,
    rx: Option<mpsc::UnboundedReceiver<ToPeerEvent>>,
    pub(crate) delivered: u64,
}

impl Neighbor {
    /// `on_established`: export map, pending queues, registration + initial dump under the shard locks
    pub(crate) fn establish(tables: &TableHandle, p: NeighborParams) -> Neighbor {
        let ctx = PeerExportContext { role: p.role, local_asn: p.local_asn, local_addr: p.local_addr, link_addr: None, confederation_id: p.confederation_id };
        let mut pending: FnvHashMap<Family, crate::peer_tx::PendingTx> = FnvHashMap::default();
        for f in &p.families {
            pending.insert(*f, crate::peer_tx::PendingTx::new(p.effective_max > 1));
        }
        let mut export_map = ExportMap::new(p.families.iter().copied().filter(|_| p.effective_max > 1));
        let export_policy = p.export_policy.clone().or_else(|| tables.export_policy.load_full());
        let rpki = tables.rpki.read().unwrap();
        let families = p.families.clone();
        let rx = tables.register_peer(p.remote_addr, FnvHashSet::default(), |rtable| {
            for f in &families {
                let addpath_tx = pending.get(f).map(|x| x.addpath_tx()).unwrap_or(false);
                let mut sink = GroupedSink::new(addpath_tx);
                let walk_max = if p.effective_max > 1 { usize::MAX } else { 1 };
                for change in rtable.collect_loc_rib_paths_limited(f, walk_max) {
                    process_nlri_change(&change, p.effective_max, p.remote_addr, &mut export_map, &mut sink, &ctx, export_policy.as_deref(), p.cluster_id, Some(&rpki), None, None);
                }
                if let Some(pd) = pending.get_mut(f) {
                    pd.buffer_messages(sink.into_messages(*f));
                }
            }
        });
        drop(rpki);
        for f in &p.families {
            pending.get_mut(f).unwrap().buffer_messages(vec![bgp::Message::eor(*f)]);
        }
        Neighbor { p, ctx, export_map, pending, rx: Some(rx), delivered: 0 }
    }

    /// number of change events waiting in the channel cannot be read without consuming; deliver up to `n`
    pub(crate) fn deliver(&mut self, tables: &TableHandle, n: usize) -> usize {
        let mut done = 0;
        while done < n {
            let Some(rx) = self.rx.as_mut() else { break };
            let Ok(ev) = rx.try_recv() else { break };
            done += 1;
            match ev {
                ToPeerEvent::NlriChange(update) => {
                    let Some(pending) = self.pending.get_mut(&update.family) else { continue };
                    let export_policy = self.p.export_policy.clone().or_else(|| tables.export_policy.load_full());
                    let rpki = export_policy.as_deref().filter(|p| p.needs_rpki).map(|_| tables.rpki.read().unwrap());
                    process_nlri_change(&update, self.p.effective_max, self.p.remote_addr, &mut self.export_map, pending, &self.ctx, export_policy.as_deref(), self.p.cluster_id, rpki.as_deref(), None, None);
                    self.delivered += 1;
                }
                ToPeerEvent::SoftResetOut => {
                    let fams = self.p.families.clone();
                    for f in fams {
                        self.route_refresh(tables, f);
                    }
                }
                ToPeerEvent::RouteRefreshFamilies(fams) => {
                    for f in fams {
                        self.route_refresh(tables, f);
                    }
                }
            }
        }
        done
    }

    /// `do_route_refresh`
    pub(crate) fn route_refresh(&mut self, tables: &TableHandle, family: Family) {
        if !self.pending.contains_key(&family) {
            return;
        }
        let export_policy = self.p.export_policy.clone().or_else(|| tables.export_policy.load_full());
        let walk_max = if self.p.effective_max > 1 { usize::MAX } else { 1 };
        let changes = tables.collect_loc_rib_paths_limited(family, walk_max);
        let rpki = tables.rpki.read().unwrap();
        for change in &changes {
            let Some(pending) = self.pending.get_mut(&change.family) else { continue };
            // (mirrors do_route_refresh, including its add-path re-advertisement step)
            let sent_before = if self.p.effective_max > 1 {
                let ids = self.export_map.sent_path_ids(change.family, change.dest_id);
                for pid in &ids {
                    self.export_map.mark_withdrawn(change.family, change.dest_id, *pid);
                }
                ids
            } else {
                Default::default()
            };
            process_nlri_change(change, self.p.effective_max, self.p.remote_addr, &mut self.export_map, pending, &self.ctx, export_policy.as_deref(), self.p.cluster_id, Some(&rpki), None, None);
            if !sent_before.is_empty() {
                let sent_now = self.export_map.sent_path_ids(change.family, change.dest_id);
                for pid in sent_before.difference(&sent_now) {
                    pending.unreach(change.dest_id, change.net.clone(), *pid);
                }
            }
        }
        self.pending.get_mut(&family).unwrap().schedule_eor();
    }

    /// the socket is writable: everything pending becomes messages
    pub(crate) fn flush(&mut self) -> Vec<bgp::Message> {
        let mut out = Vec::new();
        let fams = self.p.families.clone();
        for f in fams {
            if let Some(p) = self.pending.get_mut(&f) {
                out.extend(p.drain_messages(f));
            }
        }
        out
    }

    pub(crate) fn set_policy(&mut self, p: Option<Arc<table::PolicyAssignment>>) {
        self.p.export_policy = p;
    }

    /// session ends: the daemon unregisters the peer from every shard
    pub(crate) fn close(&mut self, tables: &TableHandle) {
        self.rx = None;
        tables.unregister_peer(self.p.remote_addr, &[], &[]);
    }
}

/// one (source path set, receiver) evaluation of the export pipeline, captured instead of queued
pub(crate) struct Captured {
    pub(crate) reach: Vec<(packet::Nlri, u32, Option<bgp::Nexthop>, Arc<Vec<packet::Attribute>>)>,
    pub(crate) unreach: Vec<(packet::Nlri, u32)>,
}

impl NlriSink for Captured {
    fn reach(&mut self, _dest_id: u32, nlri: packet::Nlri, path_id: u32, nexthop: Option<bgp::Nexthop>, attr: Arc<Vec<packet::Attribute>>, _source: &Arc<table::Source>) {
        self.reach.push((nlri, path_id, nexthop, attr));
    }
    fn unreach(&mut self, _dest_id: u32, nlri: packet::Nlri, path_id: u32) {
        self.unreach.push((nlri, path_id));
    }
}

pub(crate) fn export_once(update: &table::NlriChange, p: &NeighborParams) -> Captured {
    let ctx = PeerExportContext { role: p.role, local_asn: p.local_asn, local_addr: p.local_addr, link_addr: None, confederation_id: p.confederation_id };
    let mut em = ExportMap::new(p.families.iter().copied().filter(|_| p.effective_max > 1));
    let mut sink = Captured { reach: Vec::new(), unreach: Vec::new() };
    process_nlri_change(update, p.effective_max, p.remote_addr, &mut em, &mut sink, &ctx, p.export_policy.as_deref(), p.cluster_id, None, None, None);
    sink
}

pub(crate) fn as_loop(attr: &Arc<Vec<bgp::Attribute>>, local_asn: u32, confederation_id: u32) -> bool {
    is_as_loop(attr, local_asn, confederation_id)
}
