//! in-daemon verification module (event_verif): child of the daemon module, sees its private items.
