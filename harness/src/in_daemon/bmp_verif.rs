//! in-daemon verification module (bmp_verif): child of the daemon module, sees its private items.
