//! in-daemon verification module (bmp_verif): child of the daemon's `bmp` module, sees its private items.
use super::*;

pub(crate) fn adj_rib_in_update(change: &AdjRibInChange) -> bgp::Message {
    adj_rib_in_to_bmp_update(change)
}
pub(crate) fn adj_rib_out_update(change: &AdjRibOutChange) -> bgp::Message {
    adj_rib_out_to_bmp_update(change)
}
pub(crate) fn loc_rib(change: &LocRibChange, router_id: Ipv4Addr, local_asn: u32) -> bmp::Message {
    loc_rib_to_bmp(change, router_id, local_asn)
}
pub(crate) fn loc_rib_up(router_id: Ipv4Addr, local_asn: u32) -> bmp::Message {
    loc_rib_peer_up(router_id, local_asn)
}

/// the daemon's snapshot map: apply changes, then flush one peer
pub(crate) struct Snapshot(SnapshotMap);
impl Snapshot {
    pub(crate) fn new() -> Self {
        Snapshot(FnvHashMap::default())
    }
    pub(crate) fn apply(&mut self, change: AdjRibInChange) {
        apply_snapshot(&mut self.0, change)
    }
    pub(crate) fn flush(&mut self, addr: IpAddr, header: &bmp::PerPeerHeader, flags: u8) -> Vec<bmp::Message> {
        flush_peer_snapshot(&mut self.0, addr, header, flags)
    }
    pub(crate) fn len(&self) -> usize {
        self.0.values().map(|m| m.len()).sum()
    }
}

/// peer-up / peer-down pairing as the serve loop applies it
pub(crate) struct Pairing(FnvHashSet<IpAddr>);
impl Pairing {
    pub(crate) fn new() -> Self {
        Pairing(FnvHashSet::default())
    }
    pub(crate) fn up(&mut self, addr: IpAddr) {
        track_peer_up(&mut self.0, addr)
    }
    /// true = the peer-down is forwarded
    pub(crate) fn down(&mut self, addr: IpAddr) -> bool {
        track_peer_down(&mut self.0, addr)
    }
}

/// Run the real BMP client loop on an established TCP stream.
pub(crate) fn spawn_serve(stream: TcpStream, cancel: CancellationToken, global: GlobalHandle, tables: TableHandle, policy: BmpPolicy) -> tokio::task::JoinHandle<()> {
    tokio::spawn(async move { BmpClient::serve(stream, cancel, global, tables, policy).await })
}
