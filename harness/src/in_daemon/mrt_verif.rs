//! in-daemon verification module (mrt_verif): child of the daemon's `mrt` module, sees its private items.
use super::*;

pub(crate) fn adj_rib_in(change: &AdjRibInChange) -> mrt::Message {
    adj_rib_in_to_mrt(change)
}

/// Run the real TABLE_DUMP_V2 writer into `path` and return the bytes written.
pub(crate) async fn dump(router_id: Ipv4Addr, tables: &TableHandle, path: &std::path::Path) -> Result<Vec<u8>, String> {
    let mut file = tokio::fs::File::create(path).await.map_err(|e| e.to_string())?;
    dump_table(router_id, tables, &mut file).await.map_err(|e| format!("{e:?}"))?;
    file.flush().await.map_err(|e| e.to_string())?;
    drop(file);
    tokio::fs::read(path).await.map_err(|e| e.to_string())
}
