//! in-daemon verification module (mrt_verif): child of the daemon module, sees its private items.
