//! Reference best-path order, written from the statement of C02 (not from the code).
//!
//! key (smaller = better):
//!   0. EVPN type-2 only: MAC-mobility sequence number, higher first
//!   1. not LLGR-stale before LLGR-stale   (RFC 9494: least preferred)
//!   2. higher LOCAL_PREF (default 100)
//!   3. shorter AS_PATH (AS_SET = 1, confederation segments = 0)
//!   4. lower ORIGIN (default INCOMPLETE = 2)
//!   5. eBGP before iBGP / confed-eBGP
//!   6. not GR-stale before GR-stale
//!   7. shorter CLUSTER_LIST
//!   8. lower ORIGINATOR_ID, else router-id
//! Eligible = not rejected by import policy and next hop reachable.

use crate::cgen::{AttrSpec, LLGR_STALE, Role};
use serde::Serialize;

#[derive(Clone, Debug, PartialEq, Eq, PartialOrd, Ord, Serialize)]
pub struct Key {
    pub mm: std::cmp::Reverse<u64>,
    pub llgr_stale: bool,
    pub local_pref: std::cmp::Reverse<u32>,
    pub hops: usize,
    pub origin: u8,
    pub not_external: bool,
    pub gr_stale: bool,
    pub cluster_len: usize,
    pub router_id: u32,
}

pub const STEP_NAMES: [&str; 9] = [
    "mac-mobility",
    "llgr-stale",
    "local-pref",
    "as-path-length",
    "origin",
    "ebgp-over-ibgp",
    "gr-stale",
    "cluster-list-length",
    "originator/router-id",
];

impl Key {
    /// index of the first step at which two keys differ (None = full tie)
    pub fn deciding_step(&self, o: &Key) -> Option<usize> {
        let a = self;
        let steps = [
            a.mm != o.mm,
            a.llgr_stale != o.llgr_stale,
            a.local_pref != o.local_pref,
            a.hops != o.hops,
            a.origin != o.origin,
            a.not_external != o.not_external,
            a.gr_stale != o.gr_stale,
            a.cluster_len != o.cluster_len,
            a.router_id != o.router_id,
        ];
        steps.iter().position(|d| *d)
    }
    /// the key without the final router-id step: the ECMP tie class
    pub fn ecmp_class(&self) -> Key {
        let mut k = self.clone();
        k.router_id = 0;
        k
    }
}

pub struct PathView<'a> {
    pub attrs: &'a AttrSpec,
    pub role: Role,
    pub source_router_id: u32,
    pub source_gr_stale: bool,
    pub source_llgr_stale: bool,
    pub evpn_type2: bool,
}

pub fn key(p: &PathView) -> Key {
    let mm = if p.evpn_type2 {
        match p.attrs.mac_mobility_seq() {
            Some(s) => s as u64 + 1,
            None => 0,
        }
    } else {
        0
    };
    Key {
        mm: std::cmp::Reverse(mm),
        llgr_stale: p.source_llgr_stale || p.attrs.has_community(LLGR_STALE),
        local_pref: std::cmp::Reverse(p.attrs.local_pref.unwrap_or(100)),
        hops: p.attrs.hops(),
        origin: p.attrs.origin.unwrap_or(2),
        not_external: !p.role.is_external(),
        gr_stale: p.source_gr_stale,
        cluster_len: p.attrs.cluster_list.len(),
        router_id: p.attrs.originator_id.unwrap_or(p.source_router_id),
    }
}
