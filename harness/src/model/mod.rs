pub mod order;
