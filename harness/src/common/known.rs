//! Known findings: /verif/known_findings.json, never written at run time.
//!
//! A finding is matched against the *failure witness* of a violation (kind +
//! witness fields), never against the input, so that a different violation of the
//! same property is still reported. `match` is an object: `kind` must equal the
//! failure kind and every other key must equal the witness field of that name
//! (a JSON array value means "any of").

use super::{Failure, verif_root};
use serde::Deserialize;
use serde_json::Value;

#[derive(Clone, Debug, Deserialize)]
pub struct Finding {
    pub id: String,
    pub property: String,
    pub status: String, // "open" | "fixed"
    #[serde(default)]
    pub commit: Option<String>,
    pub what: String,
    pub replay: String,
    #[serde(rename = "match")]
    pub pattern: Value,
}

impl Finding {
    pub fn matches(&self, f: &Failure) -> bool {
        let Some(obj) = self.pattern.as_object() else {
            return false;
        };
        for (k, want) in obj {
            let got: Value = if k == "kind" {
                Value::String(f.kind.clone())
            } else {
                f.witness.get(k).cloned().unwrap_or(Value::Null)
            };
            let ok = match want {
                Value::Array(alts) => alts.iter().any(|a| *a == got),
                w => *w == got,
            };
            if !ok {
                return false;
            }
        }
        true
    }
}

pub fn load(prop: &str) -> Vec<Finding> {
    let path = format!("{}/known_findings.json", verif_root());
    let Ok(text) = std::fs::read_to_string(&path) else {
        return Vec::new();
    };
    let all: Vec<Finding> = match serde_json::from_str(&text) {
        Ok(v) => v,
        Err(e) => {
            eprintln!("known_findings.json unreadable: {e}");
            std::process::exit(2);
        }
    };
    all.into_iter().filter(|f| f.property == prop).collect()
}
