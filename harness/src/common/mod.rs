//! Shared runner glue: seeds, sharded proptest runners, panic capture, known-finding
//! masks, replay files and the evidence writer.
//!
//! Every random choice made by a check comes from a proptest strategy driven by a
//! `TestRunner` whose seed is a pure function of (VERIF_SEED, property, sub-check,
//! shard). No wall clock and no RNG of our own inside a property.

pub mod known;

use proptest::strategy::{Strategy, ValueTree};
use proptest::test_runner::{Config, RngSeed, TestCaseError, TestError, TestRunner};
use serde::Serialize;
use serde::de::DeserializeOwned;
use serde_json::{Value, json};
use std::cell::RefCell;
use std::collections::{BTreeMap, HashSet};
use std::fmt::Debug;
use std::hash::{Hash, Hasher};
use std::panic::{AssertUnwindSafe, catch_unwind};
use std::sync::Mutex;
use std::sync::atomic::{AtomicBool, AtomicU64, Ordering};
use std::time::Instant;

#[derive(Clone, Copy, PartialEq, Eq, Debug)]
pub enum Tier {
    Quick,
    Thorough,
}

impl Tier {
    pub fn name(self) -> &'static str {
        match self {
            Tier::Quick => "quick",
            Tier::Thorough => "thorough",
        }
    }
    /// pick(quick, thorough)
    pub fn pick<T>(self, q: T, t: T) -> T {
        match self {
            Tier::Quick => q,
            Tier::Thorough => t,
        }
    }
}

pub fn verif_root() -> String {
    std::env::var("VERIF_ROOT").unwrap_or_else(|_| "/verif".to_string())
}

/// Arithmetic profile this binary was built with.
pub fn profile_name() -> &'static str {
    if cfg!(debug_assertions) {
        "dev(overflow-checks,debug-assertions)"
    } else {
        "verifrel(wrapping,no-debug-assertions)"
    }
}

// ---------------------------------------------------------------------------
// Failure / case info
// ---------------------------------------------------------------------------

/// A property violation observed on one case. `kind` + `witness` are what the
/// known-finding predicates look at (never the input).
#[derive(Clone, Debug, Serialize)]
pub struct Failure {
    pub kind: String,
    pub msg: String,
    pub witness: Value,
}

impl Failure {
    pub fn new(kind: &str, msg: impl Into<String>) -> Self {
        Failure {
            kind: kind.to_string(),
            msg: msg.into(),
            witness: json!({}),
        }
    }
    pub fn with(mut self, key: &str, v: impl Serialize) -> Self {
        if let Value::Object(m) = &mut self.witness {
            m.insert(key.to_string(), serde_json::to_value(v).unwrap_or(Value::Null));
        }
        self
    }
}

/// What a passing case reports back for the evidence file.
#[derive(Clone, Debug, Default)]
pub struct CaseInfo {
    pub nontrivial: bool,
    pub classes: Vec<&'static str>,
}

impl CaseInfo {
    pub fn trivial() -> Self {
        Self::default()
    }
    pub fn nt(nontrivial: bool) -> Self {
        CaseInfo {
            nontrivial,
            classes: Vec::new(),
        }
    }
    pub fn class(mut self, c: &'static str) -> Self {
        self.classes.push(c);
        self
    }
    pub fn class_if(mut self, cond: bool, c: &'static str) -> Self {
        if cond {
            self.classes.push(c);
        }
        self
    }
}

pub type CheckResult = Result<CaseInfo, Failure>;

#[macro_export]
macro_rules! ensure {
    ($cond:expr, $kind:expr, $($fmt:tt)+) => {
        if !($cond) {
            return Err($crate::common::Failure::new($kind, format!($($fmt)+)));
        }
    };
}

// ---------------------------------------------------------------------------
// Panic capture
// ---------------------------------------------------------------------------

thread_local! {
    static LAST_PANIC: RefCell<Option<(String, String)>> = const { RefCell::new(None) };
    static QUIET: RefCell<bool> = const { RefCell::new(false) };
}

pub fn install_panic_hook() {
    let default = std::panic::take_hook();
    std::panic::set_hook(Box::new(move |info| {
        let msg = if let Some(s) = info.payload().downcast_ref::<&str>() {
            s.to_string()
        } else if let Some(s) = info.payload().downcast_ref::<String>() {
            s.clone()
        } else {
            "<non-string panic>".to_string()
        };
        let loc = info
            .location()
            .map(|l| format!("{}:{}", l.file(), l.line()))
            .unwrap_or_default();
        let quiet = QUIET.with(|q| *q.borrow());
        LAST_PANIC.with(|p| *p.borrow_mut() = Some((msg, loc)));
        if !quiet {
            default(info);
        }
    }));
}

#[derive(Debug, Clone)]
pub struct Panicked {
    pub msg: String,
    pub loc: String,
}

impl Panicked {
    /// file name (without directories) and line: stable enough to key a finding.
    pub fn site(&self) -> String {
        let file = self.loc.rsplit('/').next().unwrap_or("");
        file.to_string()
    }
    pub fn file(&self) -> String {
        let f = self.loc.rsplit('/').next().unwrap_or("");
        f.split(':').next().unwrap_or("").to_string()
    }
    pub fn into_failure(self, target: &str) -> Failure {
        // message with digits removed = signature robust to the concrete values
        let sig: String = self.msg.chars().filter(|c| !c.is_ascii_digit()).collect();
        Failure::new("panic", format!("panic in {target}: {} at {}", self.msg, self.loc))
            .with("target", target)
            .with("file", self.file())
            .with("sig", sig)
            .with("loc", self.loc.clone())
    }
}

/// Run `f`, turning a panic of the code under test into a value.
pub fn catch<T>(f: impl FnOnce() -> T) -> Result<T, Panicked> {
    QUIET.with(|q| *q.borrow_mut() = true);
    LAST_PANIC.with(|p| *p.borrow_mut() = None);
    let r = catch_unwind(AssertUnwindSafe(f));
    QUIET.with(|q| *q.borrow_mut() = false);
    match r {
        Ok(v) => Ok(v),
        Err(_) => {
            let (msg, loc) = LAST_PANIC
                .with(|p| p.borrow_mut().take())
                .unwrap_or_else(|| ("<unknown>".into(), String::new()));
            Err(Panicked { msg, loc })
        }
    }
}

// ---------------------------------------------------------------------------
// Seeds
// ---------------------------------------------------------------------------

fn splitmix(mut x: u64) -> u64 {
    x = x.wrapping_add(0x9E37_79B9_7F4A_7C15);
    let mut z = x;
    z = (z ^ (z >> 30)).wrapping_mul(0xBF58_476D_1CE4_E5B9);
    z = (z ^ (z >> 27)).wrapping_mul(0x94D0_49BB_1331_11EB);
    z ^ (z >> 31)
}

/// Fixed derivation of a per-(property, sub-check, shard) seed from VERIF_SEED.
pub fn derive_seed(seed: u64, prop: &str, sub: &str, shard: u64) -> u64 {
    let mut h = splitmix(seed ^ 0x7262_7665_7269_6621);
    for b in prop.bytes().chain([0u8]).chain(sub.bytes()) {
        h = splitmix(h ^ b as u64);
    }
    splitmix(h ^ shard.wrapping_mul(0x1000_0000_01B3))
}

pub fn hash_json<T: Serialize>(v: &T) -> u64 {
    let bytes = serde_json::to_vec(v).unwrap_or_default();
    let mut h = fnv::FnvHasher::default();
    bytes.hash(&mut h);
    h.finish()
}

// ---------------------------------------------------------------------------
// Evidence accumulation
// ---------------------------------------------------------------------------

#[derive(Default)]
struct SubStats {
    evaluations: u64,
    nontrivial: HashSet<u64>,
    classes: BTreeMap<String, u64>,
    samples: Vec<Value>,
    excluded_known: BTreeMap<String, u64>,
    exhaustive: bool,
    note: Option<String>,
    fallback_sample: Option<Value>,
}

pub struct Violation {
    pub sub: String,
    pub replay_path: String,
    pub failure: Failure,
}

pub struct Run {
    pub prop: &'static str,
    pub tier: Tier,
    pub seed: u64,
    pub threads: usize,
    pub strict: bool,
    start: Instant,
    subs: Mutex<BTreeMap<String, SubStats>>,
    pub violations: Mutex<Vec<Violation>>,
    pub known_lines: Mutex<Vec<String>>,
    pub rule: Mutex<String>,
    pub assumptions: Mutex<Vec<String>>,
    pub extra: Mutex<BTreeMap<String, Value>>,
    findings: Vec<known::Finding>,
    /// per-case budget in seconds for sub-checks whose property includes "never stalls"
    /// (0 = none): a case that does not return within it is reported as a violation
    pub case_budget: std::sync::atomic::AtomicU64,
    pub evidence_path: Mutex<String>,
    /// cases the harness could not run (its own environment failed: kind "harness"), and the first reason
    /// shrink iterations per failing shard (sub-checks whose cases take milliseconds of real time lower it)
    pub shrink_iters: std::sync::atomic::AtomicU64,
    pub harness_skipped: std::sync::atomic::AtomicU64,
    pub harness_note: Mutex<Option<String>>,
}

impl Run {
    pub fn new(prop: &'static str, tier: Tier, seed: u64) -> Self {
        let threads = std::env::var("VERIF_THREADS")
            .ok()
            .and_then(|s| s.parse().ok())
            .unwrap_or(16usize)
            .max(1);
        Run {
            prop,
            tier,
            seed,
            threads,
            strict: false,
            start: Instant::now(),
            subs: Mutex::new(BTreeMap::new()),
            violations: Mutex::new(Vec::new()),
            known_lines: Mutex::new(Vec::new()),
            rule: Mutex::new(String::new()),
            assumptions: Mutex::new(Vec::new()),
            extra: Mutex::new(BTreeMap::new()),
            findings: known::load(prop),
            case_budget: std::sync::atomic::AtomicU64::new(0),
            evidence_path: Mutex::new(String::new()),
            shrink_iters: std::sync::atomic::AtomicU64::new(6000),
            harness_skipped: std::sync::atomic::AtomicU64::new(0),
            harness_note: Mutex::new(None),
        }
    }

    pub fn set_rule(&self, r: &str) {
        *self.rule.lock().unwrap() = r.to_string();
    }
    pub fn assume(&self, a: &str) {
        self.assumptions.lock().unwrap().push(a.to_string());
    }
    pub fn extra(&self, k: &str, v: Value) {
        self.extra.lock().unwrap().insert(k.to_string(), v);
    }
    /// run `f` (registrations of slow, session-level sub-checks) with a smaller shrink budget
    pub fn slow<F: FnOnce()>(&self, f: F) {
        let old = self.shrink_iters.swap(300, Ordering::Relaxed);
        f();
        self.shrink_iters.store(old, Ordering::Relaxed);
    }

    pub fn has_violation(&self) -> bool {
        !self.violations.lock().unwrap().is_empty()
    }
    pub fn findings(&self) -> &[known::Finding] {
        &self.findings
    }

    /// Classify a failure against the open findings of this property.
    pub fn open_match(&self, f: &Failure) -> Option<String> {
        if self.strict {
            return None;
        }
        self.findings
            .iter()
            .find(|k| k.status == "open" && k.matches(f))
            .map(|k| k.id.clone())
    }

    fn merge(&self, sub: &str, local: SubStats) {
        let mut subs = self.subs.lock().unwrap();
        let s = subs.entry(sub.to_string()).or_default();
        s.evaluations += local.evaluations;
        s.nontrivial.extend(local.nontrivial);
        for (k, v) in local.classes {
            *s.classes.entry(k).or_default() += v;
        }
        for v in local.samples {
            if s.samples.len() < 4 {
                s.samples.push(v);
            }
        }
        for (k, v) in local.excluded_known {
            *s.excluded_known.entry(k).or_default() += v;
        }
        if s.fallback_sample.is_none() {
            s.fallback_sample = local.fallback_sample;
        }
        s.exhaustive |= local.exhaustive;
        if local.note.is_some() {
            s.note = local.note;
        }
    }

    pub fn record_violation(&self, sub: &str, case: &Value, failure: Failure) {
        let h = hash_json(case);
        let dir = format!("{}/replays", verif_root());
        let _ = std::fs::create_dir_all(&dir);
        let path = format!("{dir}/{}-{}-{}-{:016x}.json", self.prop, sub, self.seed, h);
        let doc = json!({
            "property": self.prop,
            "sub": sub,
            "seed": self.seed,
            "profile": profile_name(),
            "case": case,
            "failure": failure,
        });
        let _ = std::fs::write(&path, serde_json::to_string_pretty(&doc).unwrap());
        println!("VIOLATION property={} replay={}", self.prop, path);
        println!("  sub-check {sub}: [{}] {}", failure.kind, failure.msg);
        self.violations.lock().unwrap().push(Violation {
            sub: sub.to_string(),
            replay_path: path,
            failure,
        });
    }

    /// Run one generated sub-check: `cases` cases of `strat` sharded over the
    /// worker threads, each through `check`. The first (shrunk) failure that is
    /// not covered by an open known finding becomes a VIOLATION with a replay file.
    pub fn prop<S, G, F>(&self, sub: &'static str, cases: u64, mk_strat: G, check: F)
    where
        G: Fn() -> S + Sync,
        S: Strategy,
        S::Value: Serialize + Clone + Debug + Send,
        F: Fn(&S::Value) -> CheckResult + Sync,
    {
        let t0 = Instant::now();
        if let Ok(only) = std::env::var("VERIF_ONLY_SUB")
            && !sub.contains(&only)
        {
            // development aid: run a single sub-check
            return;
        }
        if std::env::var("VERIF_SURVEY").is_ok() {
            // development aid (never used by registered commands): list distinct failure
            // signatures instead of stopping at the first one
            let cfg = Config { cases: cases as u32, failure_persistence: None, rng_seed: RngSeed::Fixed(derive_seed(self.seed, self.prop, sub, 0)), ..Config::default() };
            let mut runner = TestRunner::new(cfg);
            let strat = mk_strat();
            let mut seen: BTreeMap<String, (u64, String)> = BTreeMap::new();
            for _ in 0..cases {
                let Ok(tree) = strat.new_tree(&mut runner) else { continue };
                let v = tree.current();
                let out = match catch(|| check(&v)) {
                    Ok(r) => r,
                    Err(p) => Err(p.into_failure(sub)),
                };
                if let Err(f) = out {
                    let sig = format!("{} {}", f.kind, f.witness);
                    let e = seen.entry(sig).or_insert((0, format!("{}\n      case: {}", f.msg.chars().take(600).collect::<String>(), serde_json::to_string(&v).unwrap_or_default().chars().take(400).collect::<String>())));
                    e.0 += 1;
                }
            }
            println!("SURVEY {sub}: {} distinct failure signatures", seen.len());
            for (sig, (n, ex)) in seen {
                println!("  [{n}x] {sig}\n      {ex}");
            }
            return;
        }
        let threads = (self.threads as u64).min(cases.max(1)).max(1);
        let stop = AtomicBool::new(false);
        let found: Mutex<Option<(Value, Failure)>> = Mutex::new(None);
        let budget = self.case_budget.load(Ordering::Relaxed);
        let running: Vec<Mutex<Option<(Instant, S::Value)>>> = (0..threads).map(|_| Mutex::new(None)).collect();
        let live = std::sync::atomic::AtomicU64::new(threads);
        std::thread::scope(|scope| {
            if budget > 0 {
                let running = &running;
                let live = &live;
                scope.spawn(move || {
                    // watchdog: a case that does not return is a stall of the code under test
                    while live.load(Ordering::Relaxed) > 0 {
                        std::thread::sleep(std::time::Duration::from_millis(200));
                        for slot in running.iter() {
                            let stuck = {
                                let g = slot.lock().unwrap();
                                g.as_ref().filter(|(t, _)| t.elapsed().as_secs() >= budget).map(|(_, v)| v.clone())
                            };
                            if let Some(v) = stuck {
                                let case = serde_json::to_value(&v).unwrap_or(Value::Null);
                                self.record_violation(sub, &case, Failure::new("stall", format!("the code under test did not return within {budget} s on this input (other inputs take microseconds): it stalls or loops")));
                                let path = self.evidence_path.lock().unwrap().clone();
                                if !path.is_empty() {
                                    self.write_evidence(&path);
                                }
                                std::process::exit(1);
                            }
                        }
                    }
                });
            }
            for shard in 0..threads {
                let n = cases / threads + if shard < cases % threads { 1 } else { 0 };
                let mk_strat = &mk_strat;
                let check = &check;
                let stop = &stop;
                let found = &found;
                let running = &running;
                let live = &live;
                scope.spawn(move || {
                    let strat = mk_strat();
                    let strat = &strat;
                    let failed = std::cell::Cell::new(false);
                    let local_cell = RefCell::new(SubStats::default());
                    let cfg = Config {
                        cases: n as u32,
                        failure_persistence: None,
                        rng_seed: RngSeed::Fixed(derive_seed(self.seed, self.prop, sub, shard)),
                        max_shrink_iters: self.shrink_iters.load(Ordering::Relaxed) as u32,
                        max_shrink_time: 0,
                        max_global_rejects: 1 << 20,
                        max_local_rejects: 1 << 20,
                        verbose: 0,
                        ..Config::default()
                    };
                    let mut runner = TestRunner::new(cfg);
                    let res = runner.run(strat, |v| {
                        if stop.load(Ordering::Relaxed) && !failed.get() {
                            // another shard already found a violation: finish fast
                            return Ok(());
                        }
                        if budget > 0 {
                            *running[shard as usize].lock().unwrap() = Some((Instant::now(), v.clone()));
                        }
                        let out = match catch(|| check(&v)) {
                            Ok(r) => r,
                            Err(p) => Err(p.into_failure(sub)),
                        };
                        if budget > 0 {
                            *running[shard as usize].lock().unwrap() = None;
                        }
                        match out {
                            Ok(mut info) => {
                                info.classes.sort();
                                info.classes.dedup();
                                if !failed.get() {
                                    let mut l = local_cell.borrow_mut();
                                    l.evaluations += 1;
                                    for c in &info.classes {
                                        *l.classes.entry((*c).to_string()).or_default() += 1;
                                    }
                                    if info.nontrivial {
                                        let h = hash_json(&v);
                                        if l.nontrivial.insert(h) && l.samples.len() < 2 && shard < 2 {
                                            l.samples.push(
                                                serde_json::to_value(&v).unwrap_or(Value::Null),
                                            );
                                        }
                                    } else if shard == 0 && l.evaluations == 1 {
                                        l.fallback_sample =
                                            Some(serde_json::to_value(&v).unwrap_or(Value::Null));
                                    }
                                }
                                Ok(())
                            }
                            Err(f) if f.kind == "harness" => {
                                // the rig itself could not be set up or driven (sockets, runtime): the
                                // case says nothing about the code under test
                                if !failed.get() {
                                    self.harness_skipped.fetch_add(1, Ordering::Relaxed);
                                    let mut n = self.harness_note.lock().unwrap();
                                    if n.is_none() {
                                        *n = Some(format!("{sub}: {}", f.msg));
                                    }
                                }
                                Ok(())
                            }
                            Err(f) => {
                                if let Some(fid) = self.open_match(&f) {
                                    if !failed.get() {
                                        let mut l = local_cell.borrow_mut();
                                        l.evaluations += 1;
                                        *l.excluded_known.entry(fid).or_default() += 1;
                                    }
                                    Ok(())
                                } else {
                                    failed.set(true);
                                    Err(TestCaseError::fail(f.msg.clone()))
                                }
                            }
                        }
                    });
                    if let Err(TestError::Fail(reason, v)) = res {
                        stop.store(true, Ordering::Relaxed);
                        // recompute the failure of the shrunk case
                        let out = match catch(|| check(&v)) {
                            Ok(r) => r,
                            Err(p) => Err(p.into_failure(sub)),
                        };
                        let f = match out {
                            Err(f) => f,
                            Ok(_) => Failure::new(
                                "flaky",
                                format!("shrunk case passed on re-execution (non-deterministic check?); failure during shrinking: {reason}"),
                            ),
                        };
                        let mut g = found.lock().unwrap();
                        if g.is_none() {
                            *g = Some((serde_json::to_value(&v).unwrap_or(Value::Null), f));
                        }
                    } else if let Err(TestError::Abort(r)) = res {
                        local_cell.borrow_mut().note = Some(format!("runner aborted: {r}"));
                    }
                    self.merge(sub, local_cell.into_inner());
                    live.fetch_sub(1, Ordering::Relaxed);
                });
            }
        });
        if let Some((case, f)) = found.into_inner().unwrap() {
            self.record_violation(sub, &case, f);
        }
        let mut subs = self.subs.lock().unwrap();
        let s = subs.entry(sub.to_string()).or_default();
        let _ = t0;
        let _ = s;
    }

    /// Bounded-exhaustive enumeration: every element of `iter` goes through `check`.
    pub fn exhaustive<T, I, F>(&self, sub: &'static str, iter: I, check: F)
    where
        T: Serialize + Clone + Debug + Send,
        I: Iterator<Item = T> + Send,
        F: Fn(&T) -> CheckResult + Sync,
    {
        let it = Mutex::new(iter);
        let found: Mutex<Option<(Value, Failure)>> = Mutex::new(None);
        let stop = AtomicBool::new(false);
        let completed = AtomicBool::new(true);
        std::thread::scope(|scope| {
            for shard in 0..self.threads {
                let it = &it;
                let found = &found;
                let stop = &stop;
                let check = &check;
                let completed = &completed;
                scope.spawn(move || {
                    let mut local = SubStats::default();
                    loop {
                        if stop.load(Ordering::Relaxed) {
                            completed.store(false, Ordering::Relaxed);
                            break;
                        }
                        let batch: Vec<T> = {
                            let mut g = it.lock().unwrap();
                            g.by_ref().take(256).collect()
                        };
                        if batch.is_empty() {
                            break;
                        }
                        for v in batch {
                            let out = match catch(|| check(&v)) {
                                Ok(r) => r,
                                Err(p) => Err(p.into_failure(sub)),
                            };
                            match out {
                                Ok(info) => {
                                    local.evaluations += 1;
                                    for c in &info.classes {
                                        *local.classes.entry((*c).to_string()).or_default() += 1;
                                    }
                                    if info.nontrivial {
                                        let h = hash_json(&v);
                                        if local.nontrivial.insert(h)
                                            && local.samples.len() < 2
                                            && shard < 2
                                        {
                                            local.samples.push(
                                                serde_json::to_value(&v).unwrap_or(Value::Null),
                                            );
                                        }
                                    }
                                }
                                Err(f) => {
                                    if let Some(fid) = self.open_match(&f) {
                                        local.evaluations += 1;
                                        *local.excluded_known.entry(fid).or_default() += 1;
                                    } else {
                                        stop.store(true, Ordering::Relaxed);
                                        let mut g = found.lock().unwrap();
                                        if g.is_none() {
                                            *g = Some((
                                                serde_json::to_value(&v).unwrap_or(Value::Null),
                                                f,
                                            ));
                                        }
                                        break;
                                    }
                                }
                            }
                        }
                    }
                    self.merge(sub, local);
                });
            }
        });
        if let Some((case, f)) = found.into_inner().unwrap() {
            self.record_violation(sub, &case, f);
        } else if completed.load(Ordering::Relaxed) {
            let mut subs = self.subs.lock().unwrap();
            subs.entry(sub.to_string()).or_default().exhaustive = true;
        }
    }

    /// Run fixed cases (committed corpus / regression inputs) through `check`.
    pub fn fixed<T, F>(&self, sub: &'static str, cases: &[T], check: F)
    where
        T: Serialize + Clone + Debug,
        F: Fn(&T) -> CheckResult,
    {
        let mut local = SubStats::default();
        for v in cases {
            let out = match catch(|| check(v)) {
                Ok(r) => r,
                Err(p) => Err(p.into_failure(sub)),
            };
            match out {
                Ok(info) => {
                    local.evaluations += 1;
                    for c in &info.classes {
                        *local.classes.entry((*c).to_string()).or_default() += 1;
                    }
                    if info.nontrivial {
                        let h = hash_json(v);
                        if local.nontrivial.insert(h) && local.samples.len() < 2 {
                            local.samples.push(serde_json::to_value(v).unwrap_or(Value::Null));
                        }
                    }
                }
                Err(f) => {
                    if let Some(fid) = self.open_match(&f) {
                        local.evaluations += 1;
                        *local.excluded_known.entry(fid).or_default() += 1;
                    } else {
                        self.record_violation(
                            sub,
                            &serde_json::to_value(v).unwrap_or(Value::Null),
                            f,
                        );
                        break;
                    }
                }
            }
        }
        self.merge(sub, local);
    }

    /// Execute the committed replay of every finding of this property before the
    /// search: open & failing => KNOWN-FINDING line; fixed & failing => VIOLATION.
    pub fn check_findings(&self, replay: &dyn Fn(&str, &Value) -> Result<CheckResult, String>) {
        for k in &self.findings {
            let path = format!("{}/{}", verif_root(), k.replay);
            let doc: Value = match std::fs::read_to_string(&path)
                .ok()
                .and_then(|s| serde_json::from_str(&s).ok())
            {
                Some(d) => d,
                None => {
                    println!("NOTE: finding {} has no readable replay at {path}", k.id);
                    continue;
                }
            };
            let sub = doc["sub"].as_str().unwrap_or("").to_string();
            let out = match catch(|| replay(&sub, &doc["case"])) {
                Ok(Ok(r)) => r,
                Ok(Err(e)) => {
                    println!("NOTE: finding {} replay not runnable: {e}", k.id);
                    continue;
                }
                Err(p) => Err(p.into_failure(&sub)),
            };
            match (k.status.as_str(), out) {
                ("open", Err(f)) => {
                    if k.matches(&f) {
                        let line = format!("KNOWN-FINDING: property={} {} [{}]", self.prop, k.what, k.id);
                        println!("{line}");
                        self.known_lines.lock().unwrap().push(line);
                    } else {
                        // the committed replay now fails in a different way
                        self.record_violation(&sub, &doc["case"], f);
                    }
                }
                ("open", Ok(_)) => {
                    println!(
                        "NOTE: open finding {} no longer reproduces from its replay (repaired?)",
                        k.id
                    );
                }
                ("fixed", Err(f)) => {
                    println!("NOTE: fixed finding {} has returned", k.id);
                    self.record_violation(&sub, &doc["case"], f);
                }
                _ => {}
            }
        }
    }

    pub fn write_evidence(&self, path: &str) {
        let subs = self.subs.lock().unwrap();
        let mut evaluations = 0u64;
        let mut all_nt: u64 = 0;
        let mut samples: Vec<Value> = Vec::new();
        let mut classes: BTreeMap<String, u64> = BTreeMap::new();
        let mut excluded: BTreeMap<String, u64> = BTreeMap::new();
        let mut sub_json = serde_json::Map::new();
        for (name, s) in subs.iter() {
            evaluations += s.evaluations;
            all_nt += s.nontrivial.len() as u64;
            for (k, v) in &s.classes {
                *classes.entry(format!("{name}/{k}")).or_default() += v;
            }
            for (k, v) in &s.excluded_known {
                *excluded.entry(k.clone()).or_default() += v;
            }
            for v in s.samples.iter().take(2) {
                samples.push(json!({"sub": name, "nontrivial": true, "case": v}));
            }
            if s.samples.is_empty()
                && let Some(v) = &s.fallback_sample
            {
                samples.push(json!({"sub": name, "nontrivial": false, "case": v}));
            }
            sub_json.insert(
                name.clone(),
                json!({
                    "evaluations": s.evaluations,
                    "distinct_nontrivial": s.nontrivial.len(),
                    "exhaustive": s.exhaustive,
                    "note": s.note,
                }),
            );
        }
        let viol = self.violations.lock().unwrap();
        let mut coverage = serde_json::Map::new();
        coverage.insert("evaluations".into(), json!(evaluations));
        coverage.insert("distinct_nontrivial".into(), json!(all_nt));
        coverage.insert("rule".into(), json!(*self.rule.lock().unwrap()));
        coverage.insert("samples".into(), Value::Array(samples));
        coverage.insert("classes".into(), json!(classes));
        coverage.insert("sub_checks".into(), Value::Object(sub_json));
        coverage.insert("excluded_known".into(), json!(excluded));
        coverage.insert("profiles".into(), json!([profile_name()]));
        coverage.insert(
            "known_finding_lines".into(),
            json!(*self.known_lines.lock().unwrap()),
        );
        for (k, v) in self.extra.lock().unwrap().iter() {
            coverage.insert(k.clone(), v.clone());
        }
        coverage.insert("harness_skipped".into(), json!(self.harness_skipped.load(Ordering::Relaxed)));
        if let Some(n) = self.harness_note.lock().unwrap().as_ref() {
            coverage.insert("harness_note".into(), json!(n));
        }
        let doc = json!({
            "property_id": self.prop,
            "tier": self.tier.name(),
            "seed": self.seed,
            "level": "exploration",
            "coverage": Value::Object(coverage),
            "assumptions": *self.assumptions.lock().unwrap(),
            "wall_s": self.start.elapsed().as_secs_f64(),
            "violations": viol.len(),
            "violation_replays": viol.iter().map(|v| v.replay_path.clone()).collect::<Vec<_>>(),
        });
        if let Some(dir) = std::path::Path::new(path).parent() {
            let _ = std::fs::create_dir_all(dir);
        }
        std::fs::write(path, serde_json::to_string_pretty(&doc).unwrap())
            .expect("cannot write evidence file");
    }
}

/// Helper for `--replay`: decode the case of a replay document.
pub fn decode_case<T: DeserializeOwned>(case: &Value) -> Result<T, String> {
    serde_json::from_value(case.clone()).map_err(|e| format!("cannot decode replay case: {e}"))
}

/// Monotone index mapping (shrinks towards 0): maps a u16 onto 0..len.
pub fn pick_idx(x: u16, len: usize) -> usize {
    if len == 0 {
        0
    } else {
        ((x as usize) * len) >> 16
    }
}

/// serde helper: u128 as a hex string (serde_json cannot round-trip u128 > u64::MAX).
pub mod hex128 {
    use serde::{Deserialize, Deserializer, Serializer};
    pub fn serialize<S: Serializer>(v: &u128, s: S) -> Result<S::Ok, S::Error> {
        s.serialize_str(&format!("{v:032x}"))
    }
    pub fn deserialize<'de, D: Deserializer<'de>>(d: D) -> Result<u128, D::Error> {
        let s = String::deserialize(d)?;
        u128::from_str_radix(&s, 16).map_err(serde::de::Error::custom)
    }
}
