//! Codec presets shared by the harness and the libFuzzer targets (included by #[path]).
//! Byte 0 of a fuzz input selects the preset; the decoder under test is
//! `PeerCodec::negotiate(local, remote)`.

use rustybgp_packet::bgp::{Capability, Family, PeerCodec};

pub const N_PRESETS: u8 = 8;

const FAMS: [Family; 19] = [
    Family::IPV4,
    Family::IPV6,
    Family::IPV4_MC,
    Family::IPV6_MC,
    Family::IPV4_MPLS,
    Family::IPV6_MPLS,
    Family::LS,
    Family::IPV4_MUP,
    Family::IPV6_MUP,
    Family::IPV4_VPN,
    Family::IPV6_VPN,
    Family::IPV4_FLOWSPEC,
    Family::IPV6_FLOWSPEC,
    Family::IPV4_FLOWSPEC_VPN,
    Family::IPV6_FLOWSPEC_VPN,
    Family::IPV4_SRPOLICY,
    Family::IPV6_SRPOLICY,
    Family::L2VPN_EVPN,
    Family::RTC,
];

pub fn preset_caps(i: u8) -> (Vec<Capability>, Vec<Capability>) {
    let i = i % N_PRESETS;
    let all_fams = i & 1 == 0;
    let addpath = i & 2 != 0;
    let small = i & 4 != 0; // two-byte AS, no extended message, no extended next hop
    let mut caps: Vec<Capability> = Vec::new();
    let fams: Vec<Family> = if all_fams { FAMS.to_vec() } else { vec![Family::IPV4, Family::IPV6, Family::IPV4_VPN, Family::L2VPN_EVPN] };
    for f in &fams {
        caps.push(Capability::MultiProtocol(*f));
    }
    if addpath {
        caps.push(Capability::AddPath(fams.iter().map(|f| (*f, 3u8)).collect()));
    }
    if !small {
        caps.push(Capability::FourOctetAsNumber(65000));
        caps.push(Capability::ExtendedMessage);
        caps.push(Capability::ExtendedNexthop(vec![(Family::IPV4, Family::AFI_IP6)]));
    }
    (caps.clone(), caps)
}

pub fn preset_codec(i: u8) -> PeerCodec {
    let (l, r) = preset_caps(i);
    PeerCodec::negotiate(&l, &r)
}
