//! NLRI specs for all 20 address families (plain data -> repository values).

use proptest::prelude::*;
use rustybgp_packet as packet;
use rustybgp_packet::bgp::{Family, Ipv4Net, Ipv6Net, Nlri};
use serde::{Deserialize, Serialize};
use std::net::{IpAddr, Ipv4Addr, Ipv6Addr};

pub const ALL_FAMILIES: [Family; 20] = [
    Family::IPV4,
    Family::IPV6,
    Family::IPV4_MC,
    Family::IPV6_MC,
    Family::IPV4_MPLS,
    Family::IPV6_MPLS,
    Family::LS,
    Family::IPV4_MUP,
    Family::IPV6_MUP,
    Family::IPV4_VPN,
    Family::IPV6_VPN,
    Family::IPV4_FLOWSPEC,
    Family::IPV6_FLOWSPEC,
    Family::IPV4_FLOWSPEC_VPN,
    Family::IPV6_FLOWSPEC_VPN,
    Family::IPV4_SRPOLICY,
    Family::IPV6_SRPOLICY,
    Family::L2VPN_EVPN,
    Family::RTC,
    Family::IPV4, // weight IPv4 twice
];

pub fn family_idx(f: Family) -> usize {
    ALL_FAMILIES.iter().position(|x| *x == f).unwrap_or(0)
}

pub fn family_name(f: Family) -> &'static str {
    match f {
        Family::IPV4 => "ipv4",
        Family::IPV6 => "ipv6",
        Family::IPV4_MC => "ipv4-mc",
        Family::IPV6_MC => "ipv6-mc",
        Family::IPV4_MPLS => "ipv4-labeled",
        Family::IPV6_MPLS => "ipv6-labeled",
        Family::LS => "ls",
        Family::IPV4_MUP => "ipv4-mup",
        Family::IPV6_MUP => "ipv6-mup",
        Family::IPV4_VPN => "vpnv4",
        Family::IPV6_VPN => "vpnv6",
        Family::IPV4_FLOWSPEC => "flowspec4",
        Family::IPV6_FLOWSPEC => "flowspec6",
        Family::IPV4_FLOWSPEC_VPN => "flowspec-vpn4",
        Family::IPV6_FLOWSPEC_VPN => "flowspec-vpn6",
        Family::IPV4_SRPOLICY => "srpolicy4",
        Family::IPV6_SRPOLICY => "srpolicy6",
        Family::L2VPN_EVPN => "evpn",
        Family::RTC => "rtc",
        _ => "other",
    }
}

#[derive(Clone, Debug, Serialize, Deserialize, PartialEq, Eq, Hash)]
pub enum RdSpec {
    TwoOctet(u16, u32),
    Ipv4(u32, u16),
    FourOctet(u32, u16),
}

impl RdSpec {
    pub fn build(&self) -> packet::rd::RouteDistinguisher {
        use packet::rd::RouteDistinguisher as R;
        match *self {
            RdSpec::TwoOctet(a, b) => R::TwoOctetAs { admin: a, assigned: b },
            RdSpec::Ipv4(a, b) => R::Ipv4 { admin: Ipv4Addr::from(a), assigned: b },
            RdSpec::FourOctet(a, b) => R::FourOctetAs { admin: a, assigned: b },
        }
    }
}

pub fn arb_rd() -> impl Strategy<Value = RdSpec> {
    prop_oneof![
        (any::<u16>(), 0u32..4).prop_map(|(a, b)| RdSpec::TwoOctet(a, b)),
        (any::<u32>(), 0u16..4).prop_map(|(a, b)| RdSpec::Ipv4(a, b)),
        (any::<u32>(), 0u16..4).prop_map(|(a, b)| RdSpec::FourOctet(a, b)),
    ]
}

#[derive(Clone, Debug, Serialize, Deserialize, PartialEq, Eq, Hash)]
pub struct FsOp {
    pub bits: u8,
    pub value: u64,
}

#[derive(Clone, Debug, Serialize, Deserialize, PartialEq, Eq, Hash)]
pub enum FsComp {
    /// (type 1|2, addr, len) ; v6 adds an offset
    Prefix { src: bool, addr: u128v, len: u8, offset: u8 },
    /// numeric / bitmask component of the given type (3..=13)
    Ops { ctype: u8, ops: Vec<FsOp> },
}

/// u128 carried as hex string for serde_json
#[allow(non_camel_case_types)]
#[derive(Clone, Debug, PartialEq, Eq, Hash)]
pub struct u128v(pub u128);
impl Serialize for u128v {
    fn serialize<S: serde::Serializer>(&self, s: S) -> Result<S::Ok, S::Error> {
        s.serialize_str(&format!("{:032x}", self.0))
    }
}
impl<'de> Deserialize<'de> for u128v {
    fn deserialize<D: serde::Deserializer<'de>>(d: D) -> Result<Self, D::Error> {
        let s = String::deserialize(d)?;
        u128::from_str_radix(&s, 16).map(u128v).map_err(serde::de::Error::custom)
    }
}

#[derive(Clone, Debug, Serialize, Deserialize, PartialEq, Eq, Hash)]
pub enum NlriSpec {
    V4 { addr: u32, len: u8 },
    V6 { addr: u128v, len: u8 },
    LabeledV4 { labels: Vec<u32>, addr: u32, len: u8 },
    LabeledV6 { labels: Vec<u32>, addr: u128v, len: u8 },
    VpnV4 { labels: Vec<u32>, rd: RdSpec, addr: u32, len: u8 },
    VpnV6 { labels: Vec<u32>, rd: RdSpec, addr: u128v, len: u8 },
    EvpnType1 { rd: RdSpec, esi: u8, etag: u32, label: u32 },
    EvpnType2 { rd: RdSpec, esi: u8, etag: u32, mac: u8, ip: u8, label1: u32, label2: Option<u32> },
    EvpnType3 { rd: RdSpec, etag: u32, v6: bool, ip: u32 },
    EvpnType4 { rd: RdSpec, esi: u8, v6: bool, ip: u32 },
    EvpnType5 { rd: RdSpec, esi: u8, etag: u32, v6: bool, ip: u32, len: u8, label: u32 },
    Flowspec { v6: bool, rd: Option<RdSpec>, comps: Vec<FsComp> },
    Rtc { kind: u8, asn: u32, rt: u64 },
    SrPolicy { v6: bool, dist: u32, color: u32, ep: u32 },
    MupIsd { v6: bool, rd: RdSpec, addr: u32, len: u8 },
    MupDsd { v6: bool, rd: RdSpec, addr: u32 },
    MupT1 { v6: bool, rd: RdSpec, addr: u32, len: u8, teid: u32, qfi: u8, ep: u32, src: Option<u32> },
    MupT2 { v6: bool, rd: RdSpec, ep: u32, teid_bytes: u8, teid: u32 },
    LsUnknown { t: u16, body: Vec<u8> },
    LsVector(u8),
}

fn mask32(a: u32, len: u8) -> u32 {
    if len == 0 { 0 } else if len >= 32 { a } else { a & (!0u32 << (32 - len)) }
}
fn mask128(a: u128, len: u8) -> u128 {
    if len == 0 { 0 } else if len >= 128 { a } else { a & (!0u128 << (128 - len as u32)) }
}
fn ip(v6: bool, x: u32) -> IpAddr {
    if v6 {
        IpAddr::V6(Ipv6Addr::from(((0x2001_0db8u128) << 96) | x as u128))
    } else {
        IpAddr::V4(Ipv4Addr::from(x))
    }
}
fn ip_prefix(v6: bool, x: u32, len: u8) -> IpAddr {
    if v6 {
        IpAddr::V6(Ipv6Addr::from(mask128(((0x2001_0db8u128) << 96) | ((x as u128) << 32), len)))
    } else {
        IpAddr::V4(Ipv4Addr::from(mask32(x, len)))
    }
}
fn labels(v: &[u32]) -> packet::mpls::MplsLabelStack {
    packet::mpls::MplsLabelStack::new(v.iter().map(|l| packet::mpls::MplsLabel::new(*l)).collect())
}

const LS_NODE: &[u8] = &[
    0x00, 0x01, 0x00, 0x27, 0x01, 0x00, 0x00, 0x00, 0x00, 0x00, 0x00, 0x00, 0x2a, 0x01, 0x00, 0x00, 0x1a, 0x02, 0x00, 0x00, 0x04, 0x00, 0x00, 0xfd, 0xe9, 0x02, 0x01, 0x00, 0x04, 0x00, 0x00, 0x00, 0x00, 0x02, 0x03, 0x00, 0x06, 0x01, 0x02, 0x03,
    0x04, 0x05, 0x06,
];
const LS_PREFIX_V4: &[u8] = &[
    0x00, 0x03, 0x00, 0x35, 0x03, 0x00, 0x00, 0x00, 0x00, 0x00, 0x00, 0x00, 0x00, 0x01, 0x00, 0x00, 0x20, 0x02, 0x00, 0x00, 0x04, 0x00, 0x00, 0xfd, 0xe9, 0x02, 0x01, 0x00, 0x04, 0x00, 0x00, 0x00, 0x00, 0x02, 0x02, 0x00, 0x04, 0x00, 0x00, 0x00,
    0x00, 0x02, 0x03, 0x00, 0x04, 0x0a, 0x00, 0x00, 0x01, 0x01, 0x09, 0x00, 0x04, 0x18, 0xc0, 0xa8, 0x01,
];
const LS_PREFIX_V6: &[u8] = &[
    0x00, 0x04, 0x00, 0x30, 0x02, 0x00, 0x00, 0x00, 0x00, 0x00, 0x00, 0x00, 0x00, 0x01, 0x00, 0x00, 0x1a, 0x02, 0x00, 0x00, 0x04, 0x00, 0x00, 0xfd, 0xe9, 0x02, 0x01, 0x00, 0x04, 0x00, 0x00, 0x00, 0x00, 0x02, 0x03, 0x00, 0x06, 0x01, 0x02, 0x03,
    0x04, 0x05, 0x06, 0x01, 0x09, 0x00, 0x05, 0x20, 0x20, 0x01, 0x0d, 0xb8,
];

impl NlriSpec {
    pub fn build(&self) -> Nlri {
        use packet::evpn::*;
        use packet::flowspec::*;
        use packet::mup::*;
        match self {
            NlriSpec::V4 { addr, len } => Nlri::V4(Ipv4Net { addr: Ipv4Addr::from(mask32(*addr, *len)), mask: *len }),
            NlriSpec::V6 { addr, len } => Nlri::V6(Ipv6Net { addr: Ipv6Addr::from(mask128(addr.0, *len)), mask: *len }),
            NlriSpec::LabeledV4 { labels: l, addr, len } => Nlri::LabeledV4(packet::labeled::LabeledV4Nlri { labels: labels(l), prefix: Ipv4Net { addr: Ipv4Addr::from(mask32(*addr, *len)), mask: *len } }),
            NlriSpec::LabeledV6 { labels: l, addr, len } => Nlri::LabeledV6(packet::labeled::LabeledV6Nlri { labels: labels(l), prefix: Ipv6Net { addr: Ipv6Addr::from(mask128(addr.0, *len)), mask: *len } }),
            NlriSpec::VpnV4 { labels: l, rd, addr, len } => Nlri::VpnV4(packet::vpn::VpnV4Nlri { labels: labels(l), rd: rd.build(), prefix: Ipv4Net { addr: Ipv4Addr::from(mask32(*addr, *len)), mask: *len } }),
            NlriSpec::VpnV6 { labels: l, rd, addr, len } => Nlri::VpnV6(packet::vpn::VpnV6Nlri {
                // the NLRI length octet counts label + RD + prefix bits: only stacks that fit in 255 bits are representable
                labels: labels(&l[..l.len().min(((255 - 64 - *len as usize) / 24).max(1))]),
                rd: rd.build(), prefix: Ipv6Net { addr: Ipv6Addr::from(mask128(addr.0, *len)), mask: *len } }),
            NlriSpec::EvpnType1 { rd, esi, etag, label } => Nlri::Evpn(EvpnNlri::EthernetAutoDiscovery(EthernetAutoDiscoveryRoute { rd: rd.build(), esi: Esi([*esi; 10]), etag: *etag, label: *label & 0xff_ffff })),
            NlriSpec::EvpnType2 { rd, esi, etag, mac, ip: ipk, label1, label2 } => Nlri::Evpn(EvpnNlri::MacIpAdvertisement(MacIpAdvertisement {
                rd: rd.build(),
                esi: Esi([*esi; 10]),
                etag: *etag,
                mac: [0, 1, 2, 3, 4, *mac],
                ip: match ipk % 3 {
                    0 => None,
                    1 => Some(ip(false, 0x0a00_0000 | *mac as u32)),
                    _ => Some(ip(true, *mac as u32)),
                },
                label1: *label1 & 0xff_ffff,
                label2: label2.map(|l| l & 0xff_ffff),
            })),
            NlriSpec::EvpnType3 { rd, etag, v6, ip: x } => Nlri::Evpn(EvpnNlri::InclusiveMulticastEthernetTag(InclusiveMulticastEthernetTag { rd: rd.build(), etag: *etag, originating_router_ip: ip(*v6, *x) })),
            NlriSpec::EvpnType4 { rd, esi, v6, ip: x } => Nlri::Evpn(EvpnNlri::EthernetSegment(EthernetSegmentRoute { rd: rd.build(), esi: Esi([*esi; 10]), originating_router_ip: ip(*v6, *x) })),
            NlriSpec::EvpnType5 { rd, esi, etag, v6, ip: x, len, label } => {
                let w = if *v6 { 128 } else { 32 };
                let len = (*len).min(w);
                Nlri::Evpn(EvpnNlri::EthernetIpPrefix(EthernetIpPrefixRoute { rd: rd.build(), esi: Esi([*esi; 10]), etag: *etag, ip_prefix: ip_prefix(*v6, *x, len), prefix_len: len, gateway_ip: ip(*v6, 1), label: *label & 0xff_ffff }))
            }
            NlriSpec::Flowspec { v6, rd, comps } => {
                let ops = |v: &Vec<FsOp>| -> Vec<Op> {
                    let n = v.len();
                    v.iter()
                        .enumerate()
                        .map(|(i, o)| Op { bits: (o.bits & 0x47) | if i + 1 == n { Op::END } else { 0 }, value: o.value })
                        .collect()
                };
                if !*v6 {
                    let mut cs: Vec<(u8, FlowspecV4Component)> = Vec::new();
                    for c in comps {
                        match c {
                            FsComp::Prefix { src, addr, len, .. } => {
                                let len = (*len).min(32);
                                let net = Ipv4Net { addr: Ipv4Addr::from(mask32((addr.0 >> 96) as u32, len)), mask: len };
                                cs.push(if *src { (2, FlowspecV4Component::SrcPrefix(net)) } else { (1, FlowspecV4Component::DstPrefix(net)) });
                            }
                            FsComp::Ops { ctype, ops: o } if !o.is_empty() => {
                                let o = ops(o);
                                let t = 3 + (*ctype % 10);
                                cs.push((
                                    t,
                                    match t {
                                        3 => FlowspecV4Component::Protocol(o),
                                        4 => FlowspecV4Component::Port(o),
                                        5 => FlowspecV4Component::DstPort(o),
                                        6 => FlowspecV4Component::SrcPort(o),
                                        7 => FlowspecV4Component::IcmpType(o),
                                        8 => FlowspecV4Component::IcmpCode(o),
                                        9 => FlowspecV4Component::TcpFlags(o),
                                        10 => FlowspecV4Component::PacketLen(o),
                                        11 => FlowspecV4Component::Dscp(o),
                                        _ => FlowspecV4Component::Fragment(o),
                                    },
                                ));
                            }
                            _ => {}
                        }
                    }
                    // components appear in type order, one per type (RFC 8955 §4.2)
                    cs.sort_by_key(|c| c.0);
                    cs.dedup_by_key(|c| c.0);
                    if cs.is_empty() {
                        cs.push((3, FlowspecV4Component::Protocol(vec![Op { bits: Op::END | Op::EQ, value: 6 }])));
                    }
                    let components: Vec<_> = cs.into_iter().map(|c| c.1).collect();
                    match rd {
                        None => Nlri::FlowspecV4(FlowspecV4Nlri { components }),
                        Some(rd) => Nlri::FlowspecVpnV4(FlowspecVpnV4Nlri { rd: rd.build(), components }),
                    }
                } else {
                    let mut cs: Vec<(u8, FlowspecV6Component)> = Vec::new();
                    for c in comps {
                        match c {
                            FsComp::Prefix { src, addr, len, offset } => {
                                let len = (*len).min(128);
                                let offset = (*offset).min(len);
                                let net = Ipv6Net { addr: Ipv6Addr::from(mask128(addr.0, len)), mask: len };
                                cs.push(if *src { (2, FlowspecV6Component::SrcPrefix { prefix: net, offset }) } else { (1, FlowspecV6Component::DstPrefix { prefix: net, offset }) });
                            }
                            FsComp::Ops { ctype, ops: o } if !o.is_empty() => {
                                let o = ops(o);
                                let t = 3 + (*ctype % 11);
                                cs.push((
                                    t,
                                    match t {
                                        3 => FlowspecV6Component::NextHeader(o),
                                        4 => FlowspecV6Component::Port(o),
                                        5 => FlowspecV6Component::DstPort(o),
                                        6 => FlowspecV6Component::SrcPort(o),
                                        7 => FlowspecV6Component::IcmpType(o),
                                        8 => FlowspecV6Component::IcmpCode(o),
                                        9 => FlowspecV6Component::TcpFlags(o),
                                        10 => FlowspecV6Component::PacketLen(o),
                                        11 => FlowspecV6Component::Dscp(o),
                                        12 => FlowspecV6Component::Fragment(o),
                                        _ => FlowspecV6Component::FlowLabel(o),
                                    },
                                ));
                            }
                            _ => {}
                        }
                    }
                    cs.sort_by_key(|c| c.0);
                    cs.dedup_by_key(|c| c.0);
                    if cs.is_empty() {
                        cs.push((3, FlowspecV6Component::NextHeader(vec![Op { bits: Op::END | Op::EQ, value: 6 }])));
                    }
                    let components: Vec<_> = cs.into_iter().map(|c| c.1).collect();
                    match rd {
                        None => Nlri::FlowspecV6(FlowspecV6Nlri { components }),
                        Some(rd) => Nlri::FlowspecVpnV6(FlowspecVpnV6Nlri { rd: rd.build(), components }),
                    }
                }
            }
            NlriSpec::Rtc { kind, asn, rt } => Nlri::Rtc(packet::rtc::RtcNlri {
                match_type: match kind % 3 {
                    0 => packet::rtc::MatchType::Wildcard,
                    1 => packet::rtc::MatchType::AsWildcard { origin_as: *asn },
                    _ => packet::rtc::MatchType::ExactMatch { origin_as: *asn, route_target: rt.to_be_bytes() },
                },
            }),
            NlriSpec::SrPolicy { v6, dist, color, ep } => Nlri::SrPolicy(packet::sr_policy::SrPolicyNlri { distinguisher: *dist, color: *color, endpoint: ip(*v6, *ep) }),
            NlriSpec::MupIsd { v6, rd, addr, len } => {
                let len = (*len).min(if *v6 { 128 } else { 32 });
                Nlri::Mup(MupNlri::InterworkSegmentDiscovery(MupInterworkSegmentDiscoveryRoute { rd: rd.build(), prefix_addr: ip_prefix(*v6, *addr, len), prefix_len: len }))
            }
            NlriSpec::MupDsd { v6, rd, addr } => Nlri::Mup(MupNlri::DirectSegmentDiscovery(MupDirectSegmentDiscoveryRoute { rd: rd.build(), address: ip(*v6, *addr) })),
            NlriSpec::MupT1 { v6, rd, addr, len, teid, qfi, ep, src } => {
                let len = (*len).min(if *v6 { 128 } else { 32 });
                Nlri::Mup(MupNlri::Type1SessionTransformed(MupType1SessionTransformedRoute {
                    rd: rd.build(),
                    prefix_addr: ip_prefix(*v6, *addr, len),
                    prefix_len: len,
                    teid: *teid,
                    qfi: *qfi,
                    endpoint_address: ip(*v6, *ep),
                    source_address: src.map(|s| ip(*v6, s)),
                }))
            }
            NlriSpec::MupT2 { v6, rd, ep, teid_bytes, teid } => {
                let tb = (*teid_bytes % 5) as u32;
                let ip_bits = if *v6 { 128 } else { 32 };
                let teid = if tb == 0 { 0 } else { *teid & (!0u32 << (32 - 8 * tb)) };
                Nlri::Mup(MupNlri::Type2SessionTransformed(MupType2SessionTransformedRoute { rd: rd.build(), endpoint_address_length: ip_bits + (8 * tb) as u8, endpoint_address: ip(*v6, *ep), teid }))
            }
            NlriSpec::LsUnknown { t, body } => Nlri::Ls(packet::ls::BgpLsNlri::Unknown { nlri_type: 100 + (*t % 1000), body: body.clone() }),
            NlriSpec::LsVector(k) => {
                let v: &[u8] = match k % 3 {
                    0 => LS_NODE,
                    1 => LS_PREFIX_V4,
                    _ => LS_PREFIX_V6,
                };
                let mut c = std::io::Cursor::new(v);
                Nlri::Ls(packet::ls::BgpLsNlri::decode(&mut c).expect("LS vector"))
            }
        }
    }
}

fn arb_len(w: u8) -> impl Strategy<Value = u8> {
    prop_oneof![3 => 0..=w, 1 => Just(w), 1 => Just(0u8), 2 => prop_oneof![Just(8u8), Just(16), Just(24), Just(17), Just(25)]]
}

fn arb_labels() -> impl Strategy<Value = Vec<u32>> {
    prop_oneof![4 => proptest::collection::vec(0u32..0x10_0000, 1..2), 2 => proptest::collection::vec(0u32..0x10_0000, 2..4)]
}

fn arb_fs_comps() -> impl Strategy<Value = Vec<FsComp>> {
    let op = (any::<u8>(), prop_oneof![0u64..256, 0u64..70000, any::<u32>().prop_map(|x| x as u64), any::<u64>()]).prop_map(|(bits, value)| FsOp { bits, value });
    let comp = prop_oneof![
        2 => (any::<bool>(), any::<u128>(), 0u8..=128, 0u8..16).prop_map(|(src, addr, len, offset)| FsComp::Prefix { src, addr: u128v(addr), len, offset }),
        5 => (0u8..11, proptest::collection::vec(op, 1..4)).prop_map(|(ctype, ops)| FsComp::Ops { ctype, ops }),
    ];
    proptest::collection::vec(comp, 1..5)
}

/// A valid NLRI of the given family.
pub fn arb_nlri(family: Family) -> BoxedStrategy<NlriSpec> {
    match family {
        Family::IPV4 | Family::IPV4_MC => (any::<u32>(), arb_len(32)).prop_map(|(addr, len)| NlriSpec::V4 { addr, len }).boxed(),
        Family::IPV6 | Family::IPV6_MC => (any::<u128>(), arb_len(128)).prop_map(|(addr, len)| NlriSpec::V6 { addr: u128v(addr), len }).boxed(),
        Family::IPV4_MPLS => (arb_labels(), any::<u32>(), arb_len(32)).prop_map(|(labels, addr, len)| NlriSpec::LabeledV4 { labels, addr, len }).boxed(),
        Family::IPV6_MPLS => (arb_labels(), any::<u128>(), arb_len(128)).prop_map(|(labels, addr, len)| NlriSpec::LabeledV6 { labels, addr: u128v(addr), len }).boxed(),
        Family::IPV4_VPN => (arb_labels(), arb_rd(), any::<u32>(), arb_len(32)).prop_map(|(labels, rd, addr, len)| NlriSpec::VpnV4 { labels, rd, addr, len }).boxed(),
        Family::IPV6_VPN => (arb_labels(), arb_rd(), any::<u128>(), arb_len(128)).prop_map(|(labels, rd, addr, len)| NlriSpec::VpnV6 { labels, rd, addr: u128v(addr), len }).boxed(),
        Family::L2VPN_EVPN => prop_oneof![
            (arb_rd(), 0u8..3, any::<u32>(), any::<u32>()).prop_map(|(rd, esi, etag, label)| NlriSpec::EvpnType1 { rd, esi, etag, label }),
            (arb_rd(), 0u8..3, any::<u32>(), any::<u8>(), 0u8..3, any::<u32>(), proptest::option::of(any::<u32>())).prop_map(|(rd, esi, etag, mac, ip, label1, label2)| NlriSpec::EvpnType2 { rd, esi, etag, mac, ip, label1, label2 }),
            (arb_rd(), any::<u32>(), any::<bool>(), any::<u32>()).prop_map(|(rd, etag, v6, ip)| NlriSpec::EvpnType3 { rd, etag, v6, ip }),
            (arb_rd(), 0u8..3, any::<bool>(), any::<u32>()).prop_map(|(rd, esi, v6, ip)| NlriSpec::EvpnType4 { rd, esi, v6, ip }),
            (arb_rd(), 0u8..3, any::<u32>(), any::<bool>(), any::<u32>(), arb_len(128), any::<u32>()).prop_map(|(rd, esi, etag, v6, ip, len, label)| NlriSpec::EvpnType5 { rd, esi, etag, v6, ip, len, label }),
        ]
        .boxed(),
        Family::IPV4_FLOWSPEC => arb_fs_comps().prop_map(|comps| NlriSpec::Flowspec { v6: false, rd: None, comps }).boxed(),
        Family::IPV6_FLOWSPEC => arb_fs_comps().prop_map(|comps| NlriSpec::Flowspec { v6: true, rd: None, comps }).boxed(),
        Family::IPV4_FLOWSPEC_VPN => (arb_rd(), arb_fs_comps()).prop_map(|(rd, comps)| NlriSpec::Flowspec { v6: false, rd: Some(rd), comps }).boxed(),
        Family::IPV6_FLOWSPEC_VPN => (arb_rd(), arb_fs_comps()).prop_map(|(rd, comps)| NlriSpec::Flowspec { v6: true, rd: Some(rd), comps }).boxed(),
        Family::RTC => (0u8..3, any::<u32>(), any::<u64>()).prop_map(|(kind, asn, rt)| NlriSpec::Rtc { kind, asn, rt }).boxed(),
        Family::IPV4_SRPOLICY => (any::<u32>(), any::<u32>(), any::<u32>()).prop_map(|(dist, color, ep)| NlriSpec::SrPolicy { v6: false, dist, color, ep }).boxed(),
        Family::IPV6_SRPOLICY => (any::<u32>(), any::<u32>(), any::<u32>()).prop_map(|(dist, color, ep)| NlriSpec::SrPolicy { v6: true, dist, color, ep }).boxed(),
        Family::IPV4_MUP | Family::IPV6_MUP => {
            let v6 = family == Family::IPV6_MUP;
            prop_oneof![
                (arb_rd(), any::<u32>(), arb_len(if v6 { 128 } else { 32 })).prop_map(move |(rd, addr, len)| NlriSpec::MupIsd { v6, rd, addr, len }),
                (arb_rd(), any::<u32>()).prop_map(move |(rd, addr)| NlriSpec::MupDsd { v6, rd, addr }),
                (arb_rd(), any::<u32>(), arb_len(if v6 { 128 } else { 32 }), any::<u32>(), any::<u8>(), any::<u32>(), proptest::option::of(any::<u32>())).prop_map(move |(rd, addr, len, teid, qfi, ep, src)| NlriSpec::MupT1 { v6, rd, addr, len, teid, qfi, ep, src }),
                (arb_rd(), any::<u32>(), 0u8..5, any::<u32>()).prop_map(move |(rd, ep, teid_bytes, teid)| NlriSpec::MupT2 { v6, rd, ep, teid_bytes, teid }),
            ]
            .boxed()
        }
        Family::LS => prop_oneof![
            2 => (any::<u16>(), proptest::collection::vec(any::<u8>(), 0..24)).prop_map(|(t, body)| NlriSpec::LsUnknown { t, body }),
            1 => (0u8..3).prop_map(NlriSpec::LsVector),
        ]
        .boxed(),
        _ => (any::<u32>(), arb_len(32)).prop_map(|(addr, len)| NlriSpec::V4 { addr, len }).boxed(),
    }
}
