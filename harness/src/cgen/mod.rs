//! Shared case vocabulary: attribute sets, sources/roles, next hops, prefixes.
//! All types are plain data (serde) so that a shrunk case is a replay file; the
//! `build()` functions turn them into the repository's own values.

pub mod nlri;
pub mod presets;
pub mod wire;

use proptest::prelude::*;
use rustybgp_packet as packet;
use rustybgp_packet::bgp;
use rustybgp_table as table;
use serde::{Deserialize, Serialize};
use std::net::{IpAddr, Ipv4Addr, Ipv6Addr};
use std::sync::Arc;

pub const LLGR_STALE: u32 = 0xffff_0006;
pub const NO_LLGR: u32 = 0xffff_0007;
pub const NO_EXPORT: u32 = 0xffff_ff01;

pub const SEG_SET: u8 = 1;
pub const SEG_SEQ: u8 = 2;
pub const SEG_CONFED_SEQ: u8 = 3;
pub const SEG_CONFED_SET: u8 = 4;

#[derive(Clone, Debug, Serialize, Deserialize, PartialEq, Eq, Hash)]
pub struct Seg {
    pub t: u8,
    /// number of ASNs; ASNs are `base, base+1, ...` unless `asns` is given
    pub n: u16,
    pub base: u32,
    #[serde(default)]
    pub asns: Vec<u32>,
}

impl Seg {
    pub fn asn_list(&self) -> Vec<u32> {
        if !self.asns.is_empty() {
            self.asns.clone()
        } else {
            (0..self.n as u32).map(|i| self.base.wrapping_add(i)).collect()
        }
    }
}

#[derive(Clone, Debug, Default, Serialize, Deserialize, PartialEq, Eq, Hash)]
pub struct AttrSpec {
    pub origin: Option<u8>,
    /// None = no AS_PATH attribute; Some(vec![]) = empty AS_PATH
    pub as_path: Option<Vec<Seg>>,
    pub med: Option<u32>,
    pub local_pref: Option<u32>,
    pub atomic_aggregate: bool,
    pub communities: Vec<u32>,
    pub originator_id: Option<u32>,
    pub cluster_list: Vec<u32>,
    /// raw 8-byte extended communities
    pub ext_communities: Vec<u64>,
    pub large_communities: Vec<(u32, u32, u32)>,
    pub aigp: Option<u64>,
    /// (code, flags, data) of unknown optional attributes
    pub opaque: Vec<(u8, u8, Vec<u8>)>,
    /// AGGREGATOR (asn, router address) in canonical 8-byte form
    #[serde(default)]
    pub aggregator: Option<(u32, u32)>,
}

pub fn as_path_bin(segs: &[Seg]) -> Vec<u8> {
    let mut bin = Vec::new();
    for s in segs {
        // wire segments hold at most 255 ASNs
        let list = s.asn_list();
        if list.is_empty() {
            bin.push(s.t);
            bin.push(0);
            continue;
        }
        for chunk in list.chunks(255) {
            bin.push(s.t);
            bin.push(chunk.len() as u8);
            for a in chunk {
                bin.extend_from_slice(&a.to_be_bytes());
            }
        }
    }
    bin
}

impl AttrSpec {
    /// Number of hops under the decision order: SEQ counts its ASNs, SET counts 1,
    /// confederation segments 0. (A generated segment of more than 255 ASNs is
    /// split into several wire segments; for a SET that would change the count, so
    /// generators never make SETs longer than 255.)
    pub fn hops(&self) -> usize {
        match &self.as_path {
            None => 0,
            Some(segs) => segs
                .iter()
                .map(|s| match s.t {
                    SEG_SEQ => s.asn_list().len(),
                    SEG_SET => {
                        if s.asn_list().is_empty() {
                            // an empty wire segment of type SET still counts 1 in the
                            // code; never generated for SETs
                            1
                        } else {
                            1
                        }
                    }
                    _ => 0,
                })
                .sum(),
        }
    }

    pub fn has_community(&self, c: u32) -> bool {
        self.communities.contains(&c)
    }

    pub fn mac_mobility_seq(&self) -> Option<u32> {
        self.ext_communities.iter().find_map(|e| {
            let b = e.to_be_bytes();
            if b[0] == 0x06 && b[1] == 0x00 {
                Some(u32::from_be_bytes([b[4], b[5], b[6], b[7]]))
            } else {
                None
            }
        })
    }

    /// Build the attribute vector in ascending type-code order (as the repository's
    /// encoder and decoder keep them).
    pub fn build(&self) -> Vec<packet::Attribute> {
        use packet::Attribute as A;
        let mut v: Vec<packet::Attribute> = Vec::new();
        if let Some(o) = self.origin {
            v.push(A::new_with_value(A::ORIGIN, o as u32).unwrap());
        }
        if let Some(segs) = &self.as_path {
            v.push(A::new_with_bin(A::AS_PATH, as_path_bin(segs)).unwrap());
        }
        if let Some(m) = self.med {
            v.push(A::new_with_value(A::MULTI_EXIT_DESC, m).unwrap());
        }
        if let Some(l) = self.local_pref {
            v.push(A::new_with_value(A::LOCAL_PREF, l).unwrap());
        }
        if self.atomic_aggregate {
            v.push(A::new_with_bin(A::ATOMIC_AGGREGATE, Vec::new()).unwrap());
        }
        if let Some((asn, addr)) = self.aggregator {
            let mut b = Vec::new();
            b.extend_from_slice(&asn.to_be_bytes());
            b.extend_from_slice(&addr.to_be_bytes());
            v.push(A::new_with_bin(A::AGGREGATOR, b).unwrap());
        }
        if !self.communities.is_empty() {
            let mut b = Vec::new();
            for c in &self.communities {
                b.extend_from_slice(&c.to_be_bytes());
            }
            v.push(A::new_with_bin(A::COMMUNITY, b).unwrap());
        }
        if let Some(o) = self.originator_id {
            v.push(A::new_with_value(A::ORIGINATOR_ID, o).unwrap());
        }
        if !self.cluster_list.is_empty() {
            let mut b = Vec::new();
            for c in &self.cluster_list {
                b.extend_from_slice(&c.to_be_bytes());
            }
            v.push(A::new_with_bin(A::CLUSTER_LIST, b).unwrap());
        }
        if !self.ext_communities.is_empty() {
            let mut b = Vec::new();
            for c in &self.ext_communities {
                b.extend_from_slice(&c.to_be_bytes());
            }
            v.push(A::new_with_bin(A::EXTENDED_COMMUNITY, b).unwrap());
        }
        if let Some(a) = self.aigp {
            let mut b = vec![1u8, 0, 11];
            b.extend_from_slice(&a.to_be_bytes());
            v.push(A::new_with_bin(A::AIGP, b).unwrap());
        }
        if !self.large_communities.is_empty() {
            let mut b = Vec::new();
            for (x, y, z) in &self.large_communities {
                b.extend_from_slice(&x.to_be_bytes());
                b.extend_from_slice(&y.to_be_bytes());
                b.extend_from_slice(&z.to_be_bytes());
            }
            v.push(A::new_with_bin(A::LARGE_COMMUNITY, b).unwrap());
        }
        for (code, flags, data) in &self.opaque {
            v.push(A::new_opaque(*code, *flags, data.clone()));
        }
        v.sort_by_key(|a| a.code());
        v
    }
}

// ---------------------------------------------------------------------------
// roles / sources
// ---------------------------------------------------------------------------

#[derive(Clone, Copy, Debug, Serialize, Deserialize, PartialEq, Eq, Hash, PartialOrd, Ord)]
pub enum Role {
    Ebgp,
    RsClient,
    Ibgp,
    IbgpRrClient,
    ConfedEbgp,
}

impl Role {
    pub fn to_table(self) -> table::PeerRole {
        match self {
            Role::Ebgp => table::PeerRole::Ebgp,
            Role::RsClient => table::PeerRole::RsClient,
            Role::Ibgp => table::PeerRole::Ibgp,
            Role::IbgpRrClient => table::PeerRole::IbgpRrClient,
            Role::ConfedEbgp => table::PeerRole::ConfedEbgp,
        }
    }
    /// eBGP-over-iBGP step: true for external (non-confederation) sessions.
    pub fn is_external(self) -> bool {
        matches!(self, Role::Ebgp | Role::RsClient)
    }
    pub fn is_ibgp(self) -> bool {
        matches!(self, Role::Ibgp | Role::IbgpRrClient)
    }
}

pub fn arb_role() -> impl Strategy<Value = Role> {
    prop_oneof![
        3 => Just(Role::Ebgp),
        1 => Just(Role::RsClient),
        3 => Just(Role::Ibgp),
        2 => Just(Role::IbgpRrClient),
        1 => Just(Role::ConfedEbgp),
    ]
}

#[derive(Clone, Debug, Serialize, Deserialize, PartialEq, Eq, Hash)]
pub struct SourceSpec {
    /// peer address is 10.0.0.(1+idx)
    pub idx: u8,
    pub role: Role,
    pub router_id: u32,
}

pub const LOCAL_AS: u32 = 65000;

impl SourceSpec {
    pub fn addr(&self) -> IpAddr {
        peer_addr(self.idx)
    }
    pub fn build(&self) -> Arc<table::Source> {
        let remote_asn = if self.role.is_ibgp() { LOCAL_AS } else { 65100 + self.idx as u32 };
        Arc::new(table::Source::new(
            self.addr(),
            IpAddr::V4(Ipv4Addr::new(10, 0, 0, 254)),
            remote_asn,
            LOCAL_AS,
            Ipv4Addr::from(self.router_id),
            self.role.to_table(),
        ))
    }
}

pub fn peer_addr(idx: u8) -> IpAddr {
    IpAddr::V4(Ipv4Addr::new(10, 0, 0, 1 + idx))
}

/// next hop number k -> address
pub fn nexthop(k: u8) -> bgp::Nexthop {
    bgp::Nexthop::V4(Ipv4Addr::new(192, 168, 0, 1 + k))
}

pub fn v4(a: u8, b: u8, c: u8, d: u8, mask: u8) -> packet::Nlri {
    packet::Nlri::V4(bgp::Ipv4Net {
        addr: Ipv4Addr::new(a, b, c, d),
        mask,
    })
}

/// A small universe of IPv4 prefixes with nesting/sibling relations.
pub fn small_prefix(k: u8) -> packet::Nlri {
    match k % 8 {
        0 => v4(10, 0, 0, 0, 8),
        1 => v4(10, 1, 0, 0, 16),
        2 => v4(10, 1, 1, 0, 24),
        3 => v4(10, 1, 2, 0, 24),
        4 => v4(10, 2, 0, 0, 15),
        5 => v4(172, 16, 0, 0, 12),
        6 => v4(192, 0, 2, 128, 25),
        _ => v4(0, 0, 0, 0, 0),
    }
}

pub fn v6_prefix(k: u8) -> packet::Nlri {
    let (a, m): (Ipv6Addr, u8) = match k % 4 {
        0 => ("2001:db8::".parse().unwrap(), 32),
        1 => ("2001:db8:1::".parse().unwrap(), 48),
        2 => ("2001:db8:1:2::".parse().unwrap(), 64),
        _ => ("::".parse().unwrap(), 0),
    };
    packet::Nlri::V6(bgp::Ipv6Net { addr: a, mask: m })
}

// ---------------------------------------------------------------------------
// attribute strategies for best-path work (small colliding domains)
// ---------------------------------------------------------------------------

pub fn arb_seg(max_seq: u16) -> impl Strategy<Value = Seg> {
    let t = prop_oneof![6 => Just(SEG_SEQ), 2 => Just(SEG_SET), 1 => Just(SEG_CONFED_SEQ), 1 => Just(SEG_CONFED_SET)];
    let n = prop_oneof![
        6 => 1u16..4,
        1 => Just(254u16),
        1 => Just(255u16),
        1 => Just(max_seq),
    ];
    (t, n, prop_oneof![Just(65001u32), Just(65002u32), Just(70000u32), Just(23456u32)]).prop_map(move |(t, n, base)| {
        let n = if t == SEG_SET || t == SEG_CONFED_SET { n.min(255) } else { n };
        Seg { t, n, base, asns: vec![] }
    })
}

/// AS paths whose hop counts collide (1..3) with occasional long ones (254..300+).
pub fn arb_as_path(max_seq: u16) -> impl Strategy<Value = Option<Vec<Seg>>> {
    prop_oneof![
        1 => Just(None),
        1 => Just(Some(vec![])),
        8 => proptest::collection::vec(arb_seg(max_seq), 1..4).prop_map(Some),
    ]
}

pub fn arb_bestpath_attrs(max_seq: u16) -> impl Strategy<Value = AttrSpec> {
    (
        prop_oneof![1 => Just(None), 3 => (0u8..3).prop_map(Some)],
        arb_as_path(max_seq),
        prop_oneof![2 => Just(None), 1 => Just(Some(0u32)), 1 => Just(Some(10u32))],
        prop_oneof![3 => Just(None), 1 => Just(Some(50u32)), 2 => Just(Some(100u32)), 1 => Just(Some(200u32))],
        proptest::collection::vec(prop_oneof![4 => Just(65000u32 << 16 | 1), 1 => Just(LLGR_STALE), 1 => Just(NO_LLGR), 1 => Just(NO_EXPORT)], 0..3),
        prop_oneof![3 => Just(None), 1 => Just(Some(1u32)), 1 => Just(Some(2u32)), 1 => Just(Some(0x0a00_0001u32))],
        proptest::collection::vec(1u32..4, 0..4),
    )
        .prop_map(|(origin, as_path, med, local_pref, communities, originator_id, cluster_list)| AttrSpec {
            origin,
            as_path,
            med,
            local_pref,
            communities,
            originator_id,
            cluster_list,
            ..Default::default()
        })
}
