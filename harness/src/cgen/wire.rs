//! Capability sets, session codecs and whole BGP messages as plain data.

use super::nlri::*;
use super::*;
use proptest::prelude::*;
use rustybgp_packet as packet;
use rustybgp_packet::bgp::{self, Capability, Family, Message, Nexthop, PathNlri, PeerCodec, Update};
use serde::{Deserialize, Serialize};
use std::net::{Ipv4Addr, Ipv6Addr};
use std::sync::Arc;

#[derive(Clone, Debug, Serialize, Deserialize, PartialEq, Eq, Hash)]
pub struct CapSpec {
    /// (index into ALL_FAMILIES, add-path mode 0..=3)
    pub families: Vec<(u8, u8)>,
    pub as4: Option<u32>,
    pub ext_msg: bool,
    /// extended next hop (IPv6 next hop for these AFI=1 families)
    pub ext_nh: Vec<u8>,
    pub route_refresh: bool,
    pub enhanced_rr: bool,
    pub gr: Option<(u8, u16, Vec<(u8, u8)>)>,
    pub llgr: Vec<(u8, u8, u32)>,
    pub fqdn: Option<(String, String)>,
    pub unknown: Vec<(u8, Vec<u8>)>,
}

impl CapSpec {
    pub fn build(&self) -> Vec<Capability> {
        let fam = |i: u8| ALL_FAMILIES[i as usize % ALL_FAMILIES.len()];
        let mut v = Vec::new();
        let mut seen = Vec::new();
        for (f, _) in &self.families {
            let f = fam(*f);
            if !seen.contains(&f) {
                seen.push(f);
                v.push(Capability::MultiProtocol(f));
            }
        }
        if self.route_refresh {
            v.push(Capability::RouteRefresh);
        }
        if !self.ext_nh.is_empty() {
            v.push(Capability::ExtendedNexthop(self.ext_nh.iter().map(|f| (fam(*f), Family::AFI_IP6)).filter(|(f, _)| f.afi() == Family::AFI_IP).collect()));
        }
        if self.ext_msg {
            v.push(Capability::ExtendedMessage);
        }
        if let Some((flags, time, fams)) = &self.gr {
            v.push(Capability::GracefulRestart { flags: flags & 0xf, restart_time: time & 0xfff, families: fams.iter().map(|(f, fl)| (fam(*f), *fl)).collect() });
        }
        if let Some(a) = self.as4 {
            v.push(Capability::FourOctetAsNumber(a));
        }
        let ap: Vec<(Family, u8)> = {
            let mut out: Vec<(Family, u8)> = Vec::new();
            for (f, m) in &self.families {
                let f = fam(*f);
                if *m != 0 && !out.iter().any(|(x, _)| *x == f) {
                    out.push((f, *m & 3));
                }
            }
            out
        };
        if !ap.is_empty() {
            v.push(Capability::AddPath(ap));
        }
        if self.enhanced_rr {
            v.push(Capability::EnhancedRouteRefresh);
        }
        if !self.llgr.is_empty() {
            v.push(Capability::LongLivedGracefulRestart(self.llgr.iter().map(|(f, fl, t)| (fam(*f), *fl, *t & 0xff_ffff)).collect()));
        }
        if let Some((h, d)) = &self.fqdn {
            v.push(Capability::Fqdn { hostname: h.clone(), domain: d.clone() });
        }
        for (code, bin) in &self.unknown {
            // codes that the decoder does not know
            let code = 128 + (code % 100);
            v.push(Capability::Unknown { code, bin: bin.clone() });
        }
        v
    }
}

pub fn arb_caps(max_fams: usize) -> impl Strategy<Value = CapSpec> {
    (
        proptest::collection::vec((0u8..20, prop_oneof![4 => Just(0u8), 1 => Just(1u8), 1 => Just(2u8), 3 => Just(3u8)]), 1..=max_fams),
        prop_oneof![4 => Just(Some(65000u32)), 1 => Just(Some(4_200_000_001u32)), 2 => Just(None)],
        prop::bool::weighted(0.4),
        prop_oneof![3 => Just(vec![]), 1 => Just(vec![0u8]), 1 => Just(vec![0u8, 2, 4])],
        any::<bool>(),
        any::<bool>(),
        proptest::option::weighted(0.3, (0u8..16, 0u16..4096, proptest::collection::vec((0u8..20, any::<u8>()), 0..3))),
        proptest::collection::vec((0u8..20, any::<u8>(), any::<u32>()), 0..2),
        proptest::option::weighted(0.2, ("[a-z]{0,12}", "[a-z.]{0,12}")),
        proptest::collection::vec((any::<u8>(), proptest::collection::vec(any::<u8>(), 0..6)), 0..2),
    )
        .prop_map(|(families, as4, ext_msg, ext_nh, route_refresh, enhanced_rr, gr, llgr, fqdn, unknown)| CapSpec { families, as4, ext_msg, ext_nh, route_refresh, enhanced_rr, gr, llgr, fqdn, unknown })
}

/// (local, remote): `enc = negotiate(local, remote)` writes, `dec = negotiate(remote, local)` reads.
pub fn codecs(local: &CapSpec, remote: &CapSpec) -> (PeerCodec, PeerCodec) {
    let l = local.build();
    let r = remote.build();
    (PeerCodec::negotiate(&l, &r), PeerCodec::negotiate(&r, &l))
}

#[derive(Clone, Debug, Serialize, Deserialize, PartialEq, Eq, Hash)]
pub enum NhSpec {
    V4(u32),
    V6(u32),
    V6Ll(u32, u32),
    None,
}

impl NhSpec {
    pub fn build(&self) -> Option<Nexthop> {
        let g = |x: u32| Ipv6Addr::from(((0x2001_0db8u128) << 96) | (1u128 << 64) | x as u128);
        match self {
            NhSpec::V4(a) => Some(Nexthop::V4(Ipv4Addr::from(*a | 0x0100_0000))),
            NhSpec::V6(a) => Some(Nexthop::V6(g(*a))),
            NhSpec::V6Ll(a, b) => Some(Nexthop::V6LinkLocal(g(*a), Ipv6Addr::from(((0xfe80u128) << 112) | (*b as u128) | 1))),
            NhSpec::None => None,
        }
    }
}

#[derive(Clone, Debug, Serialize, Deserialize, PartialEq, Eq, Hash)]
pub enum MsgSpec {
    Open { asn: u32, hold: u16, id: u32, caps: CapSpec },
    Reach { fam: u8, first: NlriSpec, count: u16, path_id: u32, nh: NhSpec, attrs: AttrSpec, pad_communities: u16 },
    Unreach { fam: u8, first: NlriSpec, count: u16, path_id: u32 },
    Eor(u8),
    Notification { code: u8, sub: u8, data: Vec<u8> },
    Keepalive,
    RouteRefresh(u8),
}

/// i-th distinct entry derived from `first`
pub fn nth_entry(first: &NlriSpec, i: u32) -> NlriSpec {
    let mut n = first.clone();
    if i == 0 {
        return n;
    }
    match &mut n {
        NlriSpec::V4 { addr, len } => {
            *len = 24 + (i % 9) as u8;
            *addr = (*addr & 0xff00_0000) ^ (i.wrapping_mul(0x100).wrapping_add(i >> 16));
        }
        NlriSpec::V6 { addr, len } => {
            *len = 48 + (i % 17) as u8;
            addr.0 = (addr.0 & (!0u128 << 96)) | ((i as u128) << 80);
        }
        NlriSpec::LabeledV4 { addr, len, .. } | NlriSpec::VpnV4 { addr, len, .. } => {
            *len = 24;
            *addr = (*addr & 0xff00_0000) | (i << 8);
        }
        NlriSpec::LabeledV6 { addr, len, .. } | NlriSpec::VpnV6 { addr, len, .. } => {
            *len = 64;
            addr.0 = (addr.0 & (!0u128 << 96)) | ((i as u128) << 64);
        }
        NlriSpec::EvpnType1 { etag, .. } | NlriSpec::EvpnType2 { etag, .. } | NlriSpec::EvpnType3 { etag, .. } | NlriSpec::EvpnType5 { etag, .. } => *etag = etag.wrapping_add(i),
        NlriSpec::EvpnType4 { ip, .. } => *ip = ip.wrapping_add(i),
        NlriSpec::Flowspec { comps, .. } => comps.push(FsComp::Ops { ctype: 7, ops: vec![FsOp { bits: 1, value: i as u64 }] }),
        NlriSpec::Rtc { kind, asn, .. } => {
            if *kind % 3 == 0 {
                *kind = 1;
            }
            *asn = asn.wrapping_add(i);
        }
        NlriSpec::SrPolicy { color, .. } => *color = color.wrapping_add(i),
        NlriSpec::MupIsd { addr, .. } | NlriSpec::MupDsd { addr, .. } | NlriSpec::MupT1 { addr, .. } => *addr = addr.wrapping_add(i << 8),
        NlriSpec::MupT2 { ep, .. } => *ep = ep.wrapping_add(i),
        NlriSpec::LsUnknown { body, .. } => body.extend_from_slice(&i.to_be_bytes()),
        NlriSpec::LsVector(_) => n = NlriSpec::LsUnknown { t: 7, body: i.to_be_bytes().to_vec() },
    }
    n
}

pub fn fam_of(i: u8) -> Family {
    ALL_FAMILIES[i as usize % ALL_FAMILIES.len()]
}

impl MsgSpec {
    pub fn entries(&self) -> Vec<PathNlri> {
        match self {
            MsgSpec::Reach { first, count, path_id, .. } | MsgSpec::Unreach { first, count, path_id, .. } => (0..*count as u32).map(|i| PathNlri { path_id: path_id.wrapping_add(i % 3), nlri: nth_entry(first, i).build() }).collect(),
            _ => Vec::new(),
        }
    }

    pub fn build(&self) -> Message {
        match self {
            MsgSpec::Open { asn, hold, id, caps } => Message::Open(bgp::Open { as_number: *asn, holdtime: bgp::HoldTime::new(*hold).unwrap_or(bgp::HoldTime::DISABLED), router_id: *id, capability: caps.build() }),
            MsgSpec::Reach { fam, nh, attrs, pad_communities, .. } => {
                let mut a = attrs.clone();
                for i in 0..*pad_communities as u32 {
                    a.communities.push((64999 << 16) | (i & 0xffff));
                }
                Message::Update(Update::Reach { family: fam_of(*fam), entries: self.entries(), nexthop: nh.build(), attr: Arc::new(a.build()) })
            }
            MsgSpec::Unreach { fam, .. } => Message::Update(Update::Unreach { family: fam_of(*fam), entries: self.entries() }),
            MsgSpec::Eor(f) => Message::Update(Update::EndOfRib(fam_of(*f))),
            MsgSpec::Notification { code, sub, data } => Message::Notification(packet::Notification::from_notification(*code, *sub, data.clone())),
            MsgSpec::Keepalive => Message::Keepalive,
            MsgSpec::RouteRefresh(f) => Message::RouteRefresh { family: fam_of(*f) },
        }
    }
}

/// natural next hop kinds for a family
pub fn arb_nh(family: Family, ext_nh: bool) -> BoxedStrategy<NhSpec> {
    use Family as F;
    match family {
        F::IPV4_FLOWSPEC | F::IPV6_FLOWSPEC | F::IPV4_FLOWSPEC_VPN | F::IPV6_FLOWSPEC_VPN => Just(NhSpec::None).boxed(),
        F::IPV6_VPN => any::<u32>().prop_map(NhSpec::V6).boxed(),
        F::IPV4 if ext_nh => prop_oneof![any::<u32>().prop_map(NhSpec::V4), any::<u32>().prop_map(NhSpec::V6)].boxed(),
        f if f.afi() == F::AFI_IP => any::<u32>().prop_map(NhSpec::V4).boxed(),
        f if f.afi() == F::AFI_IP6 => prop_oneof![3 => any::<u32>().prop_map(NhSpec::V6), 1 => (any::<u32>(), any::<u32>()).prop_map(|(a, b)| NhSpec::V6Ll(a, b))].boxed(),
        _ => prop_oneof![any::<u32>().prop_map(NhSpec::V4), any::<u32>().prop_map(NhSpec::V6)].boxed(),
    }
}

/// attribute sets for wire work: everything the decoder knows
pub fn arb_wire_attrs() -> impl Strategy<Value = AttrSpec> {
    (
        arb_bestpath_attrs(40),
        any::<bool>(),
        proptest::collection::vec(any::<u64>(), 0..3),
        proptest::collection::vec((any::<u32>(), any::<u32>(), any::<u32>()), 0..3),
        proptest::option::weighted(0.2, any::<u64>()),
        proptest::option::weighted(0.3, (prop_oneof![Just(65010u32), Just(70000u32), Just(23456u32)], any::<u32>())),
        proptest::collection::vec((200u8..250, prop_oneof![Just(0xc0u8), Just(0xe0u8)], proptest::collection::vec(any::<u8>(), 0..10)), 0..2),
    )
        .prop_map(|(mut a, atomic, ext, large, aigp, aggregator, opaque)| {
            if a.origin.is_none() {
                a.origin = Some(0);
            }
            if a.as_path.is_none() {
                a.as_path = Some(vec![]);
            }
            // RFC 5065: confederation segments only ever lead the AS_PATH
            if let Some(p) = &mut a.as_path {
                p.sort_by_key(|s| !(s.t == SEG_CONFED_SEQ || s.t == SEG_CONFED_SET));
            }
            a.atomic_aggregate = atomic;
            a.ext_communities = ext;
            a.large_communities = large;
            a.aigp = aigp;
            a.aggregator = aggregator;
            // distinct opaque codes
            let mut seen = Vec::new();
            a.opaque = opaque.into_iter().filter(|(c, _, _)| if seen.contains(c) { false } else { seen.push(*c); true }).collect();
            a
        })
}

pub fn arb_msg_for(fam_idx: u8, ext_nh: bool, max_count: u16) -> BoxedStrategy<MsgSpec> {
    let family = fam_of(fam_idx);
    let count = prop_oneof![4 => 0u16..4, 2 => 4u16..40, 1 => (max_count / 4)..=max_count];
    prop_oneof![
        6 => (arb_nlri(family), count.clone(), 0u32..3, arb_nh(family, ext_nh), arb_wire_attrs(), prop_oneof![6 => Just(0u16), 2 => 0u16..64, 1 => 900u16..1010]).prop_map(move |(first, count, path_id, nh, attrs, pad_communities)| MsgSpec::Reach { fam: fam_idx, first, count, path_id, nh, attrs, pad_communities }),
        3 => (arb_nlri(family), count, 0u32..3).prop_map(move |(first, count, path_id)| MsgSpec::Unreach { fam: fam_idx, first, count, path_id }),
        1 => Just(MsgSpec::Eor(fam_idx)),
    ]
    .boxed()
}

pub fn arb_ctrl_msg() -> impl Strategy<Value = MsgSpec> {
    prop_oneof![
        3 => (prop_oneof![Just(65001u32), Just(4_200_000_001u32), Just(64999u32)], prop_oneof![Just(0u16), Just(3), Just(90), Just(65535)], 1u32..0xdfff_ffff, arb_caps(8)).prop_map(|(asn, hold, id, mut caps)| {
            // the daemon always advertises its own AS in the four-octet capability
            if asn > 65535 || caps.as4.is_some() {
                caps.as4 = Some(asn);
            }
            MsgSpec::Open { asn, hold, id, caps }
        }),
        2 => (1u8..8, 0u8..12, proptest::collection::vec(any::<u8>(), 0..20)).prop_map(|(code, sub, data)| MsgSpec::Notification { code, sub, data }),
        1 => Just(MsgSpec::Keepalive),
        1 => (0u8..20).prop_map(MsgSpec::RouteRefresh),
    ]
}
