//! A wire-level BGP peer for the session-level sub-checks: one real loopback TCP connection
//! into the daemon's accept_connection + PeerSession::run (AdmitRig), on which the check
//! writes the bytes it chooses, in the chunks it chooses, and waits (in real time, without
//! timers) until the daemon has read them or closed the connection.

use crate::common::*;
use crate::event::verif::{AdmitRig, NeighborCfg};
use rustybgp_packet::bgp;
use std::net::IpAddr;
use std::time::Duration;

pub struct WirePeer {
    pub rig: std::rc::Rc<AdmitRig>,
    pub src: IpAddr,
    stream: Option<tokio::net::TcpStream>,
    task: Option<tokio::task::JoinHandle<()>>,
    base: u64,
    frames: u64,
    closed: bool,
    /// everything the daemon has sent on the current connection
    pub rx: Vec<u8>,
}

fn h(e: impl ToString) -> Failure {
    Failure::new("harness", e.to_string())
}

impl WirePeer {
    pub async fn new(local_asn: u32, cfg: NeighborCfg) -> Result<WirePeer, Failure> {
        Self::new_in(local_asn, None, cfg).await
    }

    /// the speaker is a member of a confederation (identifier, member AS numbers)
    pub async fn new_in(local_asn: u32, confederation: Option<(u32, Vec<u32>)>, cfg: NeighborCfg) -> Result<WirePeer, Failure> {
        let rig = AdmitRig::new(local_asn, confederation).await.map_err(h)?;
        let src = cfg.addr;
        if !rig.add_neighbor(&cfg).await {
            return Err(h(format!("add_peer refuses {cfg:?}")));
        }
        Ok(WirePeer { rig: std::rc::Rc::new(rig), src, stream: None, task: None, base: 0, frames: 0, closed: false, rx: Vec::new() })
    }

    /// another peer of a rig that is shared (the neighbour `src` is configured by the caller)
    pub fn on(rig: std::rc::Rc<AdmitRig>, src: IpAddr) -> WirePeer {
        WirePeer { rig, src, stream: None, task: None, base: 0, frames: 0, closed: false, rx: Vec::new() }
    }

    pub async fn settle(&mut self) {
        for _ in 0..3 {
            std::thread::sleep(Duration::from_micros(150));
            for _ in 0..8 {
                tokio::task::yield_now().await;
            }
        }
        self.drain();
    }

    fn drain(&mut self) {
        let Some(s) = self.stream.as_mut() else { return };
        let mut buf = [0u8; 8192];
        loop {
            match s.try_read(&mut buf) {
                Ok(0) => {
                    self.closed = true;
                    return;
                }
                Ok(n) => self.rx.extend_from_slice(&buf[..n]),
                Err(e) if e.kind() == std::io::ErrorKind::WouldBlock => return,
                Err(_) => {
                    self.closed = true;
                    return;
                }
            }
        }
    }

    /// the daemon closed the connection
    pub fn is_closed(&mut self) -> bool {
        self.drain();
        self.closed
    }

    /// NOTIFICATIONs (code, sub-code) among what the daemon has sent
    pub fn notifications(&self) -> Vec<(u8, u8)> {
        let mut out = Vec::new();
        let mut p = 0;
        while p + 19 <= self.rx.len() {
            let len = u16::from_be_bytes([self.rx[p + 16], self.rx[p + 17]]) as usize;
            if len < 19 || p + len > self.rx.len() {
                break;
            }
            if self.rx[p + 18] == 3 && len >= 21 {
                out.push((self.rx[p + 19], self.rx[p + 20]));
            }
            p += len;
        }
        out
    }

    pub async fn connect(&mut self) -> Result<(), Failure> {
        self.base = self.rig.rx_frames(self.src).await;
        self.frames = 0;
        self.closed = false;
        self.rx.clear();
        let (view, mut conn) = self.rig.connect_now(self.src, false).await.map_err(h)?;
        if view.is_none() {
            return Err(h("the connection was not admitted"));
        }
        self.stream = conn.client.take();
        self.task = conn.task.take();
        self.settle().await;
        Ok(())
    }

    /// write `bytes` (containing `frames` complete messages) cut at the given chunk sizes, then wait
    /// until the daemon has counted them as read or has closed the connection
    pub async fn send(&mut self, bytes: &[u8], frames: u64, chunks: &[usize]) -> Result<(), Failure> {
        use tokio::io::AsyncWriteExt;
        let mut pos = 0;
        let mut k = 0;
        while pos < bytes.len() {
            let n = if chunks.is_empty() { bytes.len() } else { chunks[k % chunks.len()].max(1) };
            k += 1;
            let end = (pos + n).min(bytes.len());
            let Some(s) = self.stream.as_mut() else { return Err(h("no connection")) };
            if s.write_all(&bytes[pos..end]).await.is_err() {
                self.closed = true;
                return Ok(());
            }
            pos = end;
            if !chunks.is_empty() {
                // let the daemon see the fragment on its own
                self.settle().await;
            }
        }
        self.frames += frames;
        let want = self.base + self.frames;
        for _ in 0..3000 {
            self.settle().await;
            if self.closed || self.rig.rx_frames(self.src).await >= want {
                // one more turn so that what the message caused has been applied
                self.settle().await;
                return Ok(());
            }
        }
        Err(h("the daemon neither read the bytes nor closed the connection within the real-time budget"))
    }

    /// write without waiting for the daemon's counters (the caller judges what happens next)
    pub async fn write_only(&mut self, bytes: &[u8], chunks: &[usize]) -> Result<(), Failure> {
        use tokio::io::AsyncWriteExt;
        let mut pos = 0;
        let mut k = 0;
        while pos < bytes.len() {
            let n = if chunks.is_empty() { bytes.len() } else { chunks[k % chunks.len()].max(1) };
            k += 1;
            let end = (pos + n).min(bytes.len());
            let Some(s) = self.stream.as_mut() else { return Err(h("no connection")) };
            if s.write_all(&bytes[pos..end]).await.is_err() {
                self.closed = true;
                return Ok(());
            }
            pos = end;
            if !chunks.is_empty() {
                self.settle().await;
            }
        }
        Ok(())
    }

    pub async fn send_msg(&mut self, codec: &mut bgp::PeerCodec, msg: &bgp::Message) -> Result<(), Failure> {
        let mut buf = bytes::BytesMut::new();
        let n = codec.encode_to(msg, &mut buf).map_err(|e| h(format!("encode: {e:?}")))?;
        self.send(&buf, n.max(1) as u64, &[]).await
    }

    /// OPEN + KEEPALIVE; true when the session reached Established
    pub async fn establish(&mut self, asn: u32, hold: u16, id: u32, caps: Vec<bgp::Capability>) -> Result<bool, Failure> {
        let mut codec = bgp::PeerCodec::new();
        let open = bgp::Message::Open(bgp::Open { as_number: asn, holdtime: bgp::HoldTime::new(hold).unwrap_or(bgp::HoldTime::DISABLED), router_id: id, capability: caps });
        self.send_msg(&mut codec, &open).await?;
        self.send_msg(&mut codec, &bgp::Message::Keepalive).await?;
        for _ in 0..2000 {
            self.settle().await;
            if self.closed {
                return Ok(false);
            }
            if self.is_established().await {
                return Ok(true);
            }
        }
        Ok(false)
    }

    pub async fn is_established(&self) -> bool {
        self.rig.fsm_states(self.src).await.is_some_and(|(_, p)| p == crate::fsm::State::Established)
    }

    /// the next close of our end is a reset (RST), not a FIN
    pub fn set_linger_zero(&mut self) {
        if let Some(s) = self.stream.as_ref() {
            let _ = s.set_linger(Some(Duration::ZERO));
        }
    }

    /// a connection exists whose session task has not ended
    pub fn has_connection(&self) -> bool {
        self.stream.is_some() && self.task.as_ref().is_some_and(|t| !t.is_finished())
    }

    /// wait (real time) until the daemon's session task has ended on its own - after the daemon closed
    /// the connection - keeping our end open meanwhile
    pub async fn wait_task_end(&mut self) -> Result<(), Failure> {
        if let Some(t) = self.task.take() {
            for _ in 0..4000 {
                self.settle().await;
                if t.is_finished() {
                    self.stream = None;
                    return Ok(());
                }
            }
            return Err(Failure::new("session-task-hangs", "the daemon's session task did not end after the daemon closed the session".to_string()));
        }
        Ok(())
    }

    /// close our end and wait for the daemon's session task to finish
    pub async fn close(&mut self) -> Result<(), Failure> {
        self.stream = None;
        if let Some(t) = self.task.take() {
            for _ in 0..4000 {
                self.settle().await;
                if t.is_finished() {
                    return Ok(());
                }
            }
            return Err(Failure::new("session-task-hangs", "the daemon's session task did not end after the connection was closed".to_string()));
        }
        Ok(())
    }
}

/// a connected loopback TCP pair made with blocking sockets (nothing waits for readiness)
pub fn tcp_pair() -> Result<(tokio::net::TcpStream, tokio::net::TcpStream), String> {
    let e = |e: std::io::Error| e.to_string();
    let IpAddr::V4(la) = fresh_loopback() else { unreachable!() };
    let l = std::net::TcpListener::bind((la, 0)).map_err(e)?;
    let s = socket2::Socket::new(socket2::Domain::IPV4, socket2::Type::STREAM, None).map_err(e)?;
    s.bind(&std::net::SocketAddr::new(fresh_loopback(), 0).into()).map_err(e)?;
    s.connect(&l.local_addr().map_err(e)?.into()).map_err(e)?;
    let a: std::net::TcpStream = s.into();
    let (b, _) = l.accept().map_err(e)?;
    a.set_nonblocking(true).map_err(e)?;
    b.set_nonblocking(true).map_err(e)?;
    Ok((tokio::net::TcpStream::from_std(a).map_err(e)?, tokio::net::TcpStream::from_std(b).map_err(e)?))
}

/// a loopback address of its own for every peer of every case (127.32.0.0/11 .. 127.127.x.x): bind(addr, 0)
/// then never meets the TIME_WAIT sockets earlier cases left on another address
pub fn fresh_loopback() -> IpAddr {
    static N: std::sync::atomic::AtomicU32 = std::sync::atomic::AtomicU32::new(0);
    let mut n = N.fetch_add(1, std::sync::atomic::Ordering::Relaxed);
    if n == 0 {
        n = std::process::id().wrapping_mul(104_729);
        N.store(n.wrapping_add(1), std::sync::atomic::Ordering::Relaxed);
    }
    IpAddr::V4(std::net::Ipv4Addr::new(127, 32 + ((n >> 16) % 96) as u8, (n >> 8) as u8, 1 + (n % 254) as u8))
}
