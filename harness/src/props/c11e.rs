//! C11 restart-sessions — the restarting speaker's deferral fed by real sessions.
//!
//! The daemon's Global holds a RestartingDeferral over the configured helpers (installed the way
//! the configuration loader does it); the helpers are wire-level peers on loopback TCP connections
//! into accept_connection + PeerSession::run. What tells the machine about establishment,
//! End-of-RIB and the end of a session is the daemon's own code: process_effects and the tail of
//! PeerSession::run. Session ends include the ones caused by the API (DeletePeer, DisablePeer).

use crate::cgen::*;
use crate::common::*;
use crate::event::verif::{AdmitRig, NeighborCfg};
use crate::props::wirepeer::{WirePeer, fresh_loopback};
use fnv::FnvHashMap;
use proptest::prelude::*;
use rustybgp_packet as packet;
use rustybgp_packet::bgp::{self, Capability, Family, Message, PeerCodec, Update};
use rustybgp_table as table;
use serde::{Deserialize, Serialize};
use serde_json::Value;
use std::collections::BTreeSet;
use std::net::{IpAddr, Ipv4Addr};
use std::sync::Arc;

pub const RULE: &str = "restart-sessions: cases = 1..3 configured helper neighbours with graceful-restart family subsets of {ipv4, ipv6} (or none), selection-deferral timer disabled, the speaker in restarting mode (Global.selection_deferral + deferred tables, as the configuration loader leaves them), then 1..10 events, \
each helper living through at most one connection: connect without OPEN; establish with a Graceful-Restart capability for a generated family subset (or without one); End-of-RIB per family; the peer closes the connection; the operator deletes the neighbour (gRPC DeletePeer) or disables it (DisablePeer) while it has a connection. \
Everything the deferral machine hears comes from the daemon's PeerSession::run / process_effects. Oracle after every event (reference blocker set as in event-sequences: a configured helper blocks family f until it establishes without f, sends EOR(f) or its session ends): \
a deferred family with a blocker is still held (a probe route inserted into the RIB produces no Loc-RIB event), a family without blockers is released (the probe does), and the speaker is in restarting mode iff some family has a blocker. \
A helper whose connection ends before it established is not judged either way (the statement names established sessions). \
non-trivial := >= 2 helpers with graceful restart and a blocker removed by the end of an established session; distinct := distinct serialized case";

const FAMS: [Family; 2] = [Family::IPV4, Family::IPV6];

#[derive(Clone, Debug, Serialize, Deserialize)]
pub enum Ev {
    Connect { peer: u8 },
    /// OPEN with a Graceful-Restart capability listing the families of the mask (0: no such capability)
    Up { peer: u8, fams: u8 },
    Eor { peer: u8, fam: u8 },
    Close { peer: u8 },
    Delete { peer: u8 },
    Disable { peer: u8 },
}

#[derive(Clone, Debug, Serialize, Deserialize)]
pub struct Case {
    /// configured GR family mask per helper (bit i = family i); 0 = no graceful restart
    pub cfg: Vec<u8>,
    pub evs: Vec<Ev>,
}

#[derive(Clone, Copy, PartialEq, Debug)]
enum PState {
    Fresh,
    Connected,
    Established,
    Done,
}

fn probe_net(f: usize) -> packet::Nlri {
    match f {
        0 => v4(10, 250, 0, 0, 16),
        _ => packet::Nlri::V6(bgp::Ipv6Net { addr: "2001:db8:fa00::".parse().unwrap(), mask: 48 }),
    }
}

pub fn check(c: &Case) -> CheckResult {
    let rt = tokio::runtime::Builder::new_current_thread().enable_all().event_interval(1).build().map_err(|e| Failure::new("harness", e.to_string()))?;
    rt.block_on(run_case(c))
}

async fn run_case(c: &Case) -> CheckResult {
    let n = c.cfg.len().clamp(1, 3);
    let cfg: Vec<BTreeSet<usize>> = c.cfg.iter().take(n).map(|m| (0..2).filter(|i| m & (1 << i) != 0).collect()).collect();
    let rig = std::rc::Rc::new(AdmitRig::new(65000, None).await.map_err(|e| Failure::new("harness", e))?);
    let mut peers: Vec<WirePeer> = Vec::new();
    let mut gr_peers: FnvHashMap<IpAddr, Vec<Family>> = FnvHashMap::default();
    for (p, fams) in cfg.iter().enumerate() {
        let src = fresh_loopback();
        let ncfg = NeighborCfg {
            addr: src,
            remote_asn: 65101 + p as u32,
            local_asn: 0,
            rs_client: false,
            rr_client: false,
            cluster_id: None,
            admin_down: false,
            holdtime: 90,
            families: FAMS.iter().map(|f| (*f, 0)).collect(),
            prefix_limit: None,
            gr: if fams.is_empty() { None } else { Some((120, false, fams.iter().map(|i| FAMS[*i]).collect())) },
            llgr: None,
        };
        if !rig.add_neighbor(&ncfg).await {
            return Err(Failure::new("harness", format!("add_peer refuses {ncfg:?}")));
        }
        if !fams.is_empty() {
            gr_peers.insert(src, fams.iter().map(|i| FAMS[*i]).collect());
        }
        peers.push(WirePeer::on(rig.clone(), src));
    }
    let deferred: BTreeSet<usize> = cfg.iter().flatten().copied().collect();
    rig.start_restarting(gr_peers, None).await;
    let mut sub = rig.tables.subscribe(false);
    let probe_src = Arc::new(table::Source::new(IpAddr::V4(Ipv4Addr::new(10, 0, 0, 77)), IpAddr::V4(Ipv4Addr::new(10, 0, 0, 254)), 65177, 65000, Ipv4Addr::new(1, 1, 1, 77), table::PeerRole::Ebgp));
    let attr = Arc::new(AttrSpec { origin: Some(0), as_path: Some(vec![]), ..Default::default() }.build());

    // model
    let mut blockers: Vec<BTreeSet<usize>> = vec![BTreeSet::new(); 2];
    let mut may: Vec<BTreeSet<usize>> = vec![BTreeSet::new(); 2];
    for (p, s) in cfg.iter().enumerate() {
        for f in s {
            blockers[*f].insert(p);
        }
    }
    let mut st = vec![PState::Fresh; n];
    let mut codecs: Vec<Option<PeerCodec>> = (0..n).map(|_| None).collect();
    let mut info = CaseInfo::trivial();
    let mut ended_established_blocker = false;
    let gr_helpers = cfg.iter().filter(|s| !s.is_empty()).count();

    for (i, ev) in c.evs.iter().enumerate() {
        let step = i + 1;
        let mut what = "none";
        match ev {
            Ev::Connect { peer } => {
                let p = *peer as usize % n;
                if st[p] != PState::Fresh {
                    continue;
                }
                peers[p].connect().await?;
                st[p] = PState::Connected;
                what = "connect";
            }
            Ev::Up { peer, fams } => {
                let p = *peer as usize % n;
                if st[p] != PState::Fresh && st[p] != PState::Connected {
                    continue;
                }
                if st[p] == PState::Fresh {
                    peers[p].connect().await?;
                }
                let asn = 65101 + p as u32;
                let cap_fams: Vec<usize> = (0..2).filter(|k| fams & (1 << k) != 0).collect();
                let mut caps = vec![Capability::MultiProtocol(Family::IPV4), Capability::MultiProtocol(Family::IPV6), Capability::FourOctetAsNumber(asn)];
                if !cap_fams.is_empty() {
                    caps.push(Capability::GracefulRestart { flags: 0, restart_time: 120, families: cap_fams.iter().map(|k| (FAMS[*k], 0x80)).collect() });
                }
                if !peers[p].establish(asn, 90, 0x0a00_0100 + p as u32, caps.clone()).await? {
                    return Err(Failure::new("harness", format!("step {step}: the session of helper {p} did not establish")));
                }
                codecs[p] = Some(PeerCodec::negotiate(&caps, &caps));
                st[p] = PState::Established;
                for f in 0..2 {
                    if !(cfg[p].contains(&f) && cap_fams.contains(&f)) {
                        blockers[f].remove(&p);
                    }
                }
                what = if cap_fams.is_empty() { "established-without-gr" } else { "established-with-gr" };
            }
            Ev::Eor { peer, fam } => {
                let p = *peer as usize % n;
                let f = *fam as usize % 2;
                if st[p] != PState::Established {
                    continue;
                }
                let mut codec = codecs[p].take().unwrap();
                peers[p].send_msg(&mut codec, &Message::Update(Update::EndOfRib(FAMS[f]))).await?;
                codecs[p] = Some(codec);
                if peers[p].is_closed() {
                    return Err(Failure::new("harness", format!("step {step}: the session of helper {p} was reset by an End-of-RIB")));
                }
                blockers[f].remove(&p);
                what = "eor";
            }
            Ev::Close { peer } | Ev::Delete { peer } | Ev::Disable { peer } => {
                let p = *peer as usize % n;
                if st[p] != PState::Connected && st[p] != PState::Established {
                    continue;
                }
                let src = peers[p].src;
                match ev {
                    Ev::Close { .. } => {
                        peers[p].close().await?;
                        what = "peer-closed";
                    }
                    Ev::Delete { .. } => {
                        rig.delete_peer(src).await.map_err(|e| Failure::new("harness", format!("DeletePeer: {e}")))?;
                        peers[p].wait_task_end().await?;
                        what = "neighbour-deleted";
                    }
                    _ => {
                        rig.disable_peer(src, false).await.map_err(|e| Failure::new("harness", format!("DisablePeer: {e}")))?;
                        peers[p].wait_task_end().await?;
                        what = "neighbour-disabled";
                    }
                }
                let was_established = st[p] == PState::Established;
                st[p] = PState::Done;
                for f in 0..2 {
                    if blockers[f].remove(&p) {
                        if was_established {
                            ended_established_blocker = true;
                        } else {
                            may[f].insert(p);
                        }
                    }
                }
                info.classes.push(match (what, was_established) {
                    ("peer-closed", true) => "closed-established",
                    ("peer-closed", false) => "closed-before-open",
                    ("neighbour-deleted", true) => "deleted-established",
                    ("neighbour-deleted", false) => "deleted-before-open",
                    (_, true) => "disabled-established",
                    _ => "disabled-before-open",
                });
            }
        }
        // let what the event caused be applied
        for _ in 0..3 {
            std::thread::sleep(std::time::Duration::from_micros(150));
            for _ in 0..8 {
                tokio::task::yield_now().await;
            }
        }
        // ---- observations ----
        let wit = |f: Failure| f.with("after", what).with("helpers", gr_helpers);
        for f in deferred.iter().copied() {
            while sub.rx.try_recv().is_ok() {}
            let net = probe_net(f);
            let _ = rig.tables.insert_route(probe_src.clone(), FAMS[f], packet::PathNlri { path_id: 0, nlri: net.clone() }, Some(nexthop(0)), attr.clone(), None, step as u32);
            let mut announced = false;
            while let Ok(e) = sub.rx.try_recv() {
                if let crate::event::BgpEvent::LocRib(ch) = e
                    && ch.net == net
                {
                    announced = true;
                }
            }
            rig.tables.remove_route(probe_src.clone(), FAMS[f], packet::PathNlri { path_id: 0, nlri: net }, None, step as u32);
            let held = !announced;
            if !blockers[f].is_empty() && !held {
                return Err(wit(Failure::new("released-early", format!("step {step} ({ev:?}): family {:?} is selected and announced although helpers {:?} have neither sent End-of-RIB nor dropped", FAMS[f], blockers[f])).with("family", f)));
            }
            if blockers[f].is_empty() && may[f].is_empty() && held {
                return Err(wit(Failure::new("stuck-deferring", format!("step {step} ({ev:?}): family {:?} is still held back although no helper is pending for it any more", FAMS[f])).with("family", f)));
            }
        }
        let restarting = rig.restarting().await;
        let any_blocker = deferred.iter().any(|f| !blockers[*f].is_empty());
        let any_may = deferred.iter().any(|f| !may[*f].is_empty());
        if any_blocker && !restarting {
            return Err(wit(Failure::new("released-early", format!("step {step} ({ev:?}): the speaker left restarting mode although helpers are pending: {blockers:?}"))));
        }
        if !any_blocker && !any_may && restarting {
            return Err(wit(Failure::new("stuck-deferring", format!("step {step} ({ev:?}): the speaker is still in restarting mode although no helper is pending any more"))));
        }
        if what != "none" {
            info.classes.push(what);
        }
    }
    info.nontrivial = gr_helpers >= 2 && ended_established_blocker;
    for p in peers.iter_mut() {
        let _ = p.close().await;
    }
    Ok(info)
}

pub fn arb_case(max: usize) -> impl Strategy<Value = Case> {
    let ev = prop_oneof![
        1 => (0u8..3).prop_map(|peer| Ev::Connect { peer }),
        6 => (0u8..3, prop_oneof![1 => Just(0u8), 4 => 1u8..4]).prop_map(|(peer, fams)| Ev::Up { peer, fams }),
        5 => (0u8..3, 0u8..2).prop_map(|(peer, fam)| Ev::Eor { peer, fam }),
        2 => (0u8..3).prop_map(|peer| Ev::Close { peer }),
        2 => (0u8..3).prop_map(|peer| Ev::Delete { peer }),
        1 => (0u8..3).prop_map(|peer| Ev::Disable { peer }),
    ];
    (proptest::collection::vec(prop_oneof![1 => Just(0u8), 6 => 1u8..4], 1..4), proptest::collection::vec(ev, 1..=max)).prop_map(|(cfg, evs)| Case { cfg, evs })
}

pub fn replay(case: &Value) -> Result<CheckResult, String> {
    Ok(check(&decode_case(case)?))
}
