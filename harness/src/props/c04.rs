//! C04 — encoded BGP messages are well-framed and decode to the same routes at the peer.

use crate::cgen::nlri::*;
use crate::cgen::wire::*;
use crate::cgen::*;
use crate::common::*;
use crate::wire::bgp as walker;
use bytes::BytesMut;
use proptest::prelude::*;
use rustybgp_packet as packet;
use rustybgp_packet::bgp::{self, Family, Message, ParsedMessage, PathNlri, PeerCodec, Update};
use serde::{Deserialize, Serialize};
use serde_json::Value;
use std::collections::BTreeMap;

pub const RULE: &str = "cases: (local capability set, remote capability set, message). enc = negotiate(local,remote) encodes, dec = negotiate(remote,local) decodes. Messages: UPDATE Reach/Unreach/EoR for each of the 20 families \
with 0 .. ~3x frame capacity entries, attribute blocks from tiny to just under the frame limit (padding communities), add-path modes 0-3 on each side, 2-/4-byte AS, extended message, extended next hop; OPEN with capability lists up to and beyond 255 bytes; \
NOTIFICATION, KEEPALIVE, ROUTE-REFRESH. Oracle: independent frame walker (every frame <= negotiated max, inner lengths consistent), peer-side decode == input (multiset of (path-id, prefix), next hop, attributes modulo extended-length flag), \
decode(encode(decode(encode(x)))) == decode(encode(x)), no panic, both arithmetic profiles. \
non-trivial := more than one frame produced, or attribute block > 50% of the frame limit, or a non-IPv4-unicast family with add-path in force, or capability bytes > 255; distinct := distinct serialized case";

#[derive(Clone, Debug, Serialize, Deserialize)]
pub struct Case {
    pub local: CapSpec,
    pub remote: CapSpec,
    pub msg: MsgSpec,
}

#[derive(Clone, Debug, PartialEq, Eq, PartialOrd, Ord)]
struct AttrView {
    code: u8,
    flags: u8,
    value: Option<u32>,
    bin: Option<Vec<u8>>,
}

fn attr_views(attrs: &[packet::Attribute]) -> Vec<AttrView> {
    let mut v: Vec<AttrView> = attrs
        .iter()
        .map(|a| AttrView { code: a.code(), flags: a.flags() & !0x10, value: a.value(), bin: a.binary().cloned() })
        .collect();
    v.sort();
    v
}

/// what the peer ends up with after decoding a byte stream
#[derive(Default, Debug, Clone, PartialEq)]
struct Decoded {
    /// family -> multiset of "path_id|nlri"
    reach: BTreeMap<u32, BTreeMap<String, usize>>,
    unreach: BTreeMap<u32, BTreeMap<String, usize>>,
    /// (family, nexthop, attrs) seen on Reach messages (deduplicated)
    reach_ctx: Vec<(u32, Option<bgp::Nexthop>, Vec<AttrView>)>,
    eor: Vec<u32>,
    others: Vec<String>,
    n_frames: usize,
}

fn fam_u32(f: Family) -> u32 {
    ((f.afi() as u32) << 16) | f.safi() as u32
}

/// identity of an NLRI at the peer. For labeled-unicast withdrawals the label field is
/// a compatibility field that the receiver ignores (RFC 8277 §2.4): compare the prefix.
fn nlri_key(e: &PathNlri, withdraw: bool, addpath: bool) -> String {
    let pid = if addpath { e.path_id } else { 0 };
    match (&e.nlri, withdraw) {
        (bgp::Nlri::LabeledV4(n), true) => format!("{pid}|labeled {}/{}", n.prefix.addr, n.prefix.mask),
        (bgp::Nlri::LabeledV6(n), true) => format!("{pid}|labeled {}/{}", n.prefix.addr, n.prefix.mask),
        (n, _) => format!("{pid}|{:?}", n),
    }
}

fn decode_stream(dec: &mut PeerCodec, bytes: &[u8], addpath_of: &dyn Fn(Family) -> bool) -> Result<(Decoded, Vec<Message>), Failure> {
    let mut buf = BytesMut::from(bytes);
    let mut d = Decoded::default();
    let mut msgs = Vec::new();
    let mut guard = 0usize;
    loop {
        guard += 1;
        if guard > bytes.len() + 2 {
            return Err(Failure::new("decode-loop", "peer decoder does not make progress on our own output"));
        }
        let before = buf.len();
        match catch(|| dec.try_parse(&mut buf)) {
            Err(p) => return Err(p.into_failure("peer-decode")),
            Ok(Err(n)) => {
                return Err(Failure::new("peer-rejects", format!("the peer's codec rejects the encoder's own output with {:?} (at byte {})", n, bytes.len() - before)).with("notification", format!("{n:?}").split(['{', ' ']).next().unwrap_or("").to_string()));
            }
            Ok(Ok(None)) => {
                if !buf.is_empty() {
                    return Err(Failure::new("peer-rejects", format!("{} trailing bytes do not form a complete frame for the peer", buf.len())).with("notification", "incomplete"));
                }
                break;
            }
            Ok(Ok(Some(parsed))) => {
                d.n_frames += 1;
                let v = match catch(|| bgp::validate_message(parsed, false).map(|it| it.collect::<Vec<_>>())) {
                    Err(p) => return Err(p.into_failure("peer-validate")),
                    Ok(Err(n)) => return Err(Failure::new("peer-rejects", format!("validate_message rejects the encoder's own output with {n:?}")).with("notification", format!("{n:?}").split(['{', ' ']).next().unwrap_or("").to_string())),
                    Ok(Ok(v)) => v,
                };
                for m in v {
                    match &m {
                        Message::Update(Update::Reach { family, entries, nexthop, attr }) => {
                            let ap = addpath_of(*family);
                            let map = d.reach.entry(fam_u32(*family)).or_default();
                            for e in entries {
                                *map.entry(nlri_key(e, false, ap)).or_default() += 1;
                            }
                            let ctx = (fam_u32(*family), *nexthop, attr_views(attr));
                            if !d.reach_ctx.contains(&ctx) {
                                d.reach_ctx.push(ctx);
                            }
                        }
                        Message::Update(Update::Unreach { family, entries }) => {
                            let ap = addpath_of(*family);
                            let map = d.unreach.entry(fam_u32(*family)).or_default();
                            for e in entries {
                                *map.entry(nlri_key(e, true, ap)).or_default() += 1;
                            }
                        }
                        Message::Update(Update::EndOfRib(f)) => d.eor.push(fam_u32(*f)),
                        Message::Open(o) => d.others.push(format!("open as={} hold={} id={} caps={:?}", o.as_number, o.holdtime.seconds(), o.router_id, o.capability)),
                        Message::Notification(n) => d.others.push(format!("notification {} {} {:?}", n.notification_code(), n.notification_subcode(), n.notification_data())),
                        Message::Keepalive => d.others.push("keepalive".into()),
                        Message::RouteRefresh { family } => d.others.push(format!("route-refresh {}", fam_u32(*family))),
                    }
                    msgs.push(m);
                }
            }
        }
    }
    Ok((d, msgs))
}

pub fn check(c: &Case) -> CheckResult {
    let (mut enc, mut dec) = codecs(&c.local, &c.remote);
    let msg = c.msg.build();
    check_msg(&mut enc, &mut dec, c, &msg)
}

/// A session: several messages through ONE encoder and ONE decoder instance, with
/// consecutive announcements sharing the same attribute allocation (as the daemon's
/// transmit queue groups them) but differing in next hop / family / entries.
#[derive(Clone, Debug, Serialize, Deserialize)]
pub struct SeqCase {
    pub local: CapSpec,
    pub remote: CapSpec,
    pub msgs: Vec<MsgSpec>,
    pub share_attrs: bool,
}

pub fn check_seq(c: &SeqCase) -> CheckResult {
    let (mut enc, mut dec) = codecs(&c.local, &c.remote);
    let mut shared: Option<std::sync::Arc<Vec<packet::Attribute>>> = None;
    let mut info = CaseInfo::trivial();
    let mut reach_with_shared = 0;
    for spec in &c.msgs {
        let mut msg = spec.build();
        if c.share_attrs
            && let Message::Update(Update::Reach { attr, .. }) = &mut msg
        {
            match &shared {
                None => shared = Some(attr.clone()),
                Some(a) => {
                    *attr = a.clone();
                    reach_with_shared += 1;
                }
            }
        }
        let one = Case { local: c.local.clone(), remote: c.remote.clone(), msg: spec.clone() };
        let i = check_msg(&mut enc, &mut dec, &one, &msg)?;
        info.nontrivial |= i.nontrivial;
        info.classes.extend(i.classes);
    }
    info.nontrivial |= reach_with_shared > 0;
    Ok(info.class_if(reach_with_shared > 0, "shared-attr-allocation").class("sequence"))
}

fn check_msg(enc: &mut PeerCodec, dec: &mut PeerCodec, c: &Case, msg: &Message) -> CheckResult {
    let msg = msg.clone();
    let max = enc.max_message_length();
    let mut info = CaseInfo::trivial();

    let (family, is_update) = match &msg {
        Message::Update(Update::Reach { family, .. }) | Message::Update(Update::Unreach { family, .. }) | Message::Update(Update::EndOfRib(family)) => (Some(*family), true),
        _ => (None, false),
    };
    let tx_addpath = family.and_then(|f| enc.family_state(f).map(|s| s.addpath_tx)).unwrap_or(false);
    let rx_addpath = family.and_then(|f| dec.family_state(f).map(|s| s.addpath_rx)).unwrap_or(false);
    if let Some(f) = family
        && (!enc.has_family(f) || !dec.has_family(f))
    {
        return Ok(info.class("family-not-negotiated"));
    }
    if is_update && tx_addpath != rx_addpath {
        return Err(Failure::new("negotiate-mirror", format!("add-path for {:?}: sender transmits path ids = {tx_addpath}, receiver expects them = {rx_addpath}", family)));
    }

    // ---- encode -------------------------------------------------------------
    let mut buf = BytesMut::new();
    let res = match catch(|| enc.encode_to(&msg, &mut buf)) {
        Err(p) => return Err(p.into_failure("encode")),
        Ok(r) => r,
    };
    if res.is_err() {
        // the encoder refused (message not representable within the negotiated limits):
        // whatever it did hand over must still be whole, well-formed frames
        if let Err(e) = walker::walk_stream(&buf, max) {
            return Err(Failure::new("framing", format!("encoder refused the message but left malformed output behind: {e}")).with("oversize", false).with("family", family.map(family_name).unwrap_or("-")).with("msg", msg_kind(&c.msg)).with("addpath", tx_addpath));
        }
        return Ok(info.class("encoder-refused"));
    }
    let cap_bytes = match &c.msg {
        MsgSpec::Open { .. } => buf.len().saturating_sub(29 + 2),
        _ => 0,
    };

    // ---- (a) framing ----------------------------------------------------------
    let frames = match walker::walk_stream(&buf, max) {
        Ok(f) => f,
        Err(e) => {
            let oversize = e.contains("exceeds the negotiated maximum");
            return Err(Failure::new("framing", format!("encoder output is not a sequence of well-formed frames: {e}"))
                .with("oversize", oversize)
                .with("family", family.map(family_name).unwrap_or("-"))
                .with("msg", msg_kind(&c.msg))
                .with("addpath", tx_addpath));
        }
    };
    if let Some(f) = family {
        // prefix-style NLRI fields must walk cleanly with the negotiated add-path setting
        if matches!(f, Family::IPV4) && !enc_uses_mp_for_v4(&c.local, &c.remote) {
            for fr in frames.iter().filter(|fr| fr.mtype == 2) {
                let b = &buf[fr.offset..fr.offset + fr.len];
                let wl = fr.withdrawn_bytes;
                walker::walk_prefix_nlri(&b[21..21 + wl], tx_addpath).map_err(|e| Failure::new("framing", format!("withdrawn routes field: {e}")).with("family", "ipv4").with("msg", msg_kind(&c.msg)).with("oversize", false).with("addpath", tx_addpath))?;
                let ns = 23 + wl + fr.attr_bytes;
                walker::walk_prefix_nlri(&b[ns..], tx_addpath).map_err(|e| Failure::new("framing", format!("NLRI field: {e}")).with("family", "ipv4").with("msg", msg_kind(&c.msg)).with("oversize", false).with("addpath", tx_addpath))?;
            }
        }
    }

    // ---- (b) peer-side decode == input ------------------------------------------
    let ap_of = |f: Family| dec.family_state(f).map(|s| s.addpath_rx).unwrap_or(false);
    let ap_snapshot: BTreeMap<u32, bool> = ALL_FAMILIES.iter().map(|f| (fam_u32(*f), ap_of(*f))).collect();
    let ap_fn = move |f: Family| ap_snapshot.get(&fam_u32(f)).copied().unwrap_or(false);
    let (d1, msgs1) = decode_stream(dec, &buf, &ap_fn).map_err(|f| f.with("family", family.map(family_name).unwrap_or("-")).with("msg", msg_kind(&c.msg)))?;
    if d1.n_frames != frames.len() {
        return Err(Failure::new("framing", format!("walker sees {} frames, the peer decoded {}", frames.len(), d1.n_frames)).with("oversize", false).with("family", family.map(family_name).unwrap_or("-")).with("msg", msg_kind(&c.msg)).with("addpath", tx_addpath));
    }

    let mut expect = Decoded::default();
    match &msg {
        Message::Update(Update::Reach { family, entries, nexthop, attr }) => {
            if !entries.is_empty() {
                let map = expect.reach.entry(fam_u32(*family)).or_default();
                for e in entries {
                    *map.entry(nlri_key(e, false, tx_addpath)).or_default() += 1;
                }
                let mut views = attr_views(attr);
                if enc.two_byte_as {
                    // documented canonicalisation (RFC 6793): AS4_PATH cannot carry
                    // confederation segments, so a four-octet member AS inside a confed
                    // segment arrives as AS_TRANS over a two-octet session
                    for v in views.iter_mut().filter(|v| v.code == 2) {
                        if let Some(b) = &mut v.bin {
                            let mut pos = 0;
                            while pos + 2 <= b.len() {
                                let (t, n) = (b[pos], b[pos + 1] as usize);
                                if t == 3 || t == 4 {
                                    for i in 0..n {
                                        let s = pos + 2 + 4 * i;
                                        if s + 4 <= b.len() && (b[s] != 0 || b[s + 1] != 0) {
                                            b[s..s + 4].copy_from_slice(&23456u32.to_be_bytes());
                                        }
                                    }
                                }
                                pos += 2 + 4 * n;
                            }
                        }
                    }
                }
                expect.reach_ctx.push((fam_u32(*family), *nexthop, views));
            }
        }
        Message::Update(Update::Unreach { family, entries }) => {
            if !entries.is_empty() {
                let map = expect.unreach.entry(fam_u32(*family)).or_default();
                for e in entries {
                    *map.entry(nlri_key(e, true, tx_addpath)).or_default() += 1;
                }
            }
        }
        Message::Update(Update::EndOfRib(f)) => expect.eor.push(fam_u32(*f)),
        Message::Open(o) => expect.others.push(format!("open as={} hold={} id={} caps={:?}", o.as_number, o.holdtime.seconds(), o.router_id, o.capability)),
        Message::Notification(n) => expect.others.push(format!("notification {} {} {:?}", n.notification_code(), n.notification_subcode(), n.notification_data())),
        Message::Keepalive => expect.others.push("keepalive".into()),
        Message::RouteRefresh { family } => expect.others.push(format!("route-refresh {}", fam_u32(*family))),
    }
    let n_entries = match &msg {
        Message::Update(Update::Reach { entries, .. }) | Message::Update(Update::Unreach { entries, .. }) => entries.len(),
        _ => 0,
    };
    // an UPDATE with zero entries has no defined meaning at the peer: only framing is judged
    let judge_content = !(is_update && n_entries == 0 && !matches!(msg, Message::Update(Update::EndOfRib(_))));
    if judge_content {
        if d1.reach != expect.reach || d1.unreach != expect.unreach {
            let (got_n, want_n): (usize, usize) = (
                d1.reach.values().chain(d1.unreach.values()).map(|m| m.values().sum::<usize>()).sum(),
                expect.reach.values().chain(expect.unreach.values()).map(|m| m.values().sum::<usize>()).sum(),
            );
            let example = first_diff(&expect, &d1);
            return Err(Failure::new("routes-differ", format!("the peer decodes {got_n} prefixes, {want_n} were encoded ({} frames); first difference: {example}", frames.len()))
                .with("family", family.map(family_name).unwrap_or("-"))
                .with("msg", msg_kind(&c.msg))
                .with("lost", want_n > got_n)
                .with("frames", frames.len())
                .with("addpath", tx_addpath));
        }
        if d1.eor != expect.eor || d1.others != expect.others {
            return Err(Failure::new("message-differs", format!("peer decoded {:?} / {:?}, expected {:?} / {:?}", d1.eor, d1.others, expect.eor, expect.others)).with("msg", msg_kind(&c.msg)));
        }
        if let Some((fam, nh, attrs)) = expect.reach_ctx.first() {
            for (f2, nh2, attrs2) in &d1.reach_ctx {
                if f2 != fam {
                    return Err(Failure::new("routes-differ", "family changed".to_string()).with("family", family.map(family_name).unwrap_or("-")).with("msg", msg_kind(&c.msg)).with("lost", false).with("frames", frames.len()).with("addpath", tx_addpath));
                }
                if nh2 != nh {
                    return Err(Failure::new("nexthop-differs", format!("next hop encoded {:?}, the peer decodes {:?}", nh, nh2))
                        .with("family", family.map(family_name).unwrap_or("-"))
                        .with("sent", nh_kind(nh))
                        .with("got", nh_kind(nh2)));
                }
                if attrs2 != attrs {
                    let diff = attr_diff(attrs, attrs2);
                    return Err(Failure::new("attrs-differ", format!("attributes differ at the peer: {diff}"))
                        .with("family", family.map(family_name).unwrap_or("-"))
                        .with("attr_code", diff.split_whitespace().nth(1).unwrap_or("").to_string())
                        .with("two_byte_as", enc.two_byte_as));
                }
            }
        }
    }

    // ---- (c) fixed point -------------------------------------------------------
    let mut buf2 = BytesMut::new();
    for m in &msgs1 {
        match catch(|| enc.encode_to(m, &mut buf2)) {
            Err(p) => return Err(p.into_failure("re-encode")),
            Ok(_) => {}
        }
    }
    let (_, mut dec2) = codecs(&c.local, &c.remote);
    let (d2, _) = decode_stream(&mut dec2, &buf2, &ap_fn).map_err(|f| f.with("family", family.map(family_name).unwrap_or("-")).with("msg", "re-encoded"))?;
    let strip = |mut d: Decoded| {
        d.n_frames = 0;
        d
    };
    if strip(d2.clone()) != strip(d1.clone()) {
        return Err(Failure::new("fixed-point", "decode(encode(decode(encode(x)))) differs from decode(encode(x))".to_string()).with("family", family.map(family_name).unwrap_or("-")).with("msg", msg_kind(&c.msg)));
    }

    // ---- evidence ------------------------------------------------------------------
    let attr_frac = frames.iter().map(|f| f.attr_bytes).max().unwrap_or(0) * 2 > max;
    info.nontrivial = frames.len() > 1 || attr_frac || (tx_addpath && family != Some(Family::IPV4)) || cap_bytes > 255;
    info = info
        .class_if(frames.len() > 1, "multi-frame")
        .class_if(attr_frac, "attr-block>50%")
        .class_if(tx_addpath, "add-path")
        .class_if(enc.two_byte_as, "two-byte-as")
        .class_if(enc.extended_length, "extended-message")
        .class_if(cap_bytes > 255, "capabilities>255B");
    if let Some(f) = family {
        info = info.class(fam_class(f));
    }
    Ok(info.class(msg_kind(&c.msg)))
}

fn enc_uses_mp_for_v4(local: &CapSpec, remote: &CapSpec) -> bool {
    // extended next hop negotiated for some AFI=1 family on both sides => IPv4 goes via MP attributes
    let has = |c: &CapSpec, f: Family| c.ext_nh.iter().any(|x| fam_of(*x) == f) && c.families.iter().any(|(x, _)| fam_of(*x) == f);
    ALL_FAMILIES.iter().any(|f| f.afi() == Family::AFI_IP && has(local, *f) && has(remote, *f))
}

fn first_diff(want: &Decoded, got: &Decoded) -> String {
    for (w, g, what) in [(&want.reach, &got.reach, "reach"), (&want.unreach, &got.unreach, "unreach")] {
        for (f, m) in w {
            let gm = g.get(f).cloned().unwrap_or_default();
            for (k, n) in m {
                let gn = gm.get(k).copied().unwrap_or(0);
                if gn != *n {
                    return format!("{what} {k}: encoded {n}x, decoded {gn}x");
                }
            }
        }
        for (f, m) in g {
            let wm = w.get(f).cloned().unwrap_or_default();
            for (k, n) in m {
                if !wm.contains_key(k) {
                    return format!("{what} {k}: never encoded, decoded {n}x");
                }
            }
        }
    }
    "?".into()
}

fn attr_diff(want: &[AttrView], got: &[AttrView]) -> String {
    for w in want {
        match got.iter().find(|g| g.code == w.code) {
            None => return format!("attribute {} missing at the peer", w.code),
            Some(g) if g != w => return format!("attribute {} differs: sent flags {:#x} value {:?} bin {:?}, decoded flags {:#x} value {:?} bin {:?}", w.code, w.flags, w.value, w.bin.as_ref().map(|b| b.len()), g.flags, g.value, g.bin.as_ref().map(|b| b.len())),
            _ => {}
        }
    }
    for g in got {
        if !want.iter().any(|w| w.code == g.code) {
            return format!("attribute {} invented at the peer", g.code);
        }
    }
    "?".into()
}

fn nh_kind(n: &Option<bgp::Nexthop>) -> &'static str {
    match n {
        None => "none",
        Some(bgp::Nexthop::V4(_)) => "v4",
        Some(bgp::Nexthop::V6(_)) => "v6",
        Some(bgp::Nexthop::V6LinkLocal(..)) => "v6+ll",
    }
}

fn msg_kind(m: &MsgSpec) -> &'static str {
    match m {
        MsgSpec::Open { .. } => "open",
        MsgSpec::Reach { .. } => "reach",
        MsgSpec::Unreach { .. } => "unreach",
        MsgSpec::Eor(_) => "eor",
        MsgSpec::Notification { .. } => "notification",
        MsgSpec::Keepalive => "keepalive",
        MsgSpec::RouteRefresh(_) => "route-refresh",
    }
}

fn fam_class(f: Family) -> &'static str {
    match family_name(f) {
        "ipv4" => "family/ipv4",
        "ipv6" => "family/ipv6",
        "ipv4-mc" | "ipv6-mc" => "family/multicast",
        "ipv4-labeled" | "ipv6-labeled" => "family/labeled",
        "vpnv4" | "vpnv6" => "family/vpn",
        "evpn" => "family/evpn",
        "flowspec4" | "flowspec6" | "flowspec-vpn4" | "flowspec-vpn6" => "family/flowspec",
        "ls" => "family/ls",
        "ipv4-mup" | "ipv6-mup" => "family/mup",
        "srpolicy4" | "srpolicy6" => "family/srpolicy",
        "rtc" => "family/rtc",
        _ => "family/other",
    }
}

pub fn arb_case(max_count: u16) -> impl Strategy<Value = Case> {
    (0u8..20, arb_caps(4), arb_caps(4), prop_oneof![1 => Just(0u8), 1 => Just(1u8), 1 => Just(2u8), 3 => Just(3u8)], prop_oneof![1 => Just(0u8), 1 => Just(1u8), 1 => Just(2u8), 3 => Just(3u8)], prop::bool::weighted(0.15))
        .prop_flat_map(move |(fam, mut local, mut remote, lm, rm, ctrl)| {
            // make sure the message's family is negotiated on both sides
            local.families.retain(|(f, _)| fam_of(*f) != fam_of(fam));
            remote.families.retain(|(f, _)| fam_of(*f) != fam_of(fam));
            local.families.insert(0, (fam, lm));
            remote.families.insert(0, (fam, rm));
            let ext_nh = local.ext_nh.iter().any(|x| fam_of(*x) == fam_of(fam)) && remote.ext_nh.iter().any(|x| fam_of(*x) == fam_of(fam));
            let max_count = if local.ext_msg && remote.ext_msg { max_count.saturating_mul(4) } else { max_count };
            let msg = if ctrl { arb_ctrl_msg().boxed() } else { arb_msg_for(fam, ext_nh, max_count) };
            (Just(local), Just(remote), msg)
        })
        .prop_map(|(local, remote, msg)| Case { local, remote, msg })
}

/// OPENs with many / long capabilities (optional-parameter length beyond 255)
pub fn arb_big_open() -> impl Strategy<Value = Case> {
    (arb_caps(20), proptest::collection::vec((any::<u8>(), proptest::collection::vec(any::<u8>(), 0..120)), 0..6), proptest::option::weighted(0.5, ("[a-z]{0,60}", "[a-z.]{0,60}"))).prop_map(|(mut caps, unknown, fqdn)| {
        caps.unknown = unknown;
        if fqdn.is_some() {
            caps.fqdn = fqdn;
        }
        let simple = CapSpec { families: vec![(0, 0)], as4: Some(65000), ext_msg: false, ext_nh: vec![], route_refresh: true, enhanced_rr: false, gr: None, llgr: vec![], fqdn: None, unknown: vec![] };
        Case { local: simple.clone(), remote: simple, msg: MsgSpec::Open { asn: 65001, hold: 90, id: 0x0a00_0001, caps } }
    })
}

pub fn arb_seq(max_count: u16) -> impl Strategy<Value = SeqCase> {
    (proptest::collection::vec(0u8..20, 1..3), arb_caps(3), arb_caps(3), prop_oneof![Just(0u8), Just(3u8)], prop_oneof![Just(0u8), Just(3u8)], any::<bool>())
        .prop_flat_map(move |(fams, mut local, mut remote, lm, rm, share_attrs)| {
            for fam in &fams {
                local.families.retain(|(f, _)| fam_of(*f) != fam_of(*fam));
                remote.families.retain(|(f, _)| fam_of(*f) != fam_of(*fam));
                local.families.insert(0, (*fam, lm));
                remote.families.insert(0, (*fam, rm));
            }
            let ext = |c: &CapSpec, f: u8| c.ext_nh.iter().any(|x| fam_of(*x) == fam_of(f));
            let msgs: Vec<BoxedStrategy<MsgSpec>> = (0..4).map(|i| {
                let fam = fams[i % fams.len()];
                arb_msg_for(fam, ext(&local, fam) && ext(&remote, fam), max_count)
            }).collect();
            (Just(local), Just(remote), msgs, 2usize..5, Just(share_attrs))
        })
        .prop_map(|(local, remote, mut msgs, n, share_attrs)| {
            msgs.truncate(n);
            SeqCase { local, remote, msgs, share_attrs }
        })
}

// ---------------------------------------------------------------------------
// the byte stream a session really writes (PeerSession::flush_tx cuts what the codec
// produced into socket writes): a table dump larger than one transmit buffer to a
// wire-level peer that only reads
// ---------------------------------------------------------------------------

pub const DUMP_RULE: &str = "session-dump: the RIB is filled with 1..4000 IPv4 routes (each with attributes of its own, or sharing attribute sets so that UPDATEs carry many prefixes) with 1..4 distinct next hops spread over the routes, before a wire-level external or internal peer establishes; the peer reads the initial dump up to End-of-RIB. The bytes received must tile into well-formed BGP messages (marker, length within bounds, known type), parse with the repository's decoder, and announce exactly the prefixes in the RIB, each once, each with the community of its own path and - towards an internal peer, where next hops are passed on - the next hop of its own path (towards an external peer: one next hop for all). non-trivial := the dump is larger than 64 KiB (more than one transmit buffer), or an internal peer is sent routes with several next hops";

#[derive(Clone, Debug, Serialize, Deserialize)]
pub struct DumpCase {
    pub routes: u16,
    /// routes per distinct attribute set (1 = every route its own UPDATE)
    pub share: u8,
    /// the peer receives Add-Path and the daemon only sends it (a one-way negotiation): the dump carries path identifiers
    #[serde(default)]
    pub addpath: bool,
    /// the peer is an internal one (next hops are passed on as learned, not rewritten to the speaker's own address)
    #[serde(default)]
    pub ibgp: bool,
    /// number of distinct next hops among the routes (0 and 1: one)
    #[serde(default)]
    pub nhs: u8,
}

pub fn check_dump(c: &DumpCase) -> CheckResult {
    let rt = tokio::runtime::Builder::new_current_thread().enable_all().event_interval(1).build().map_err(|e| Failure::new("harness", e.to_string()))?;
    rt.block_on(dump(c))
}

async fn dump(c: &DumpCase) -> CheckResult {
    use crate::event::verif::NeighborCfg;
    use crate::props::wirepeer::{WirePeer, fresh_loopback};
    use std::collections::BTreeSet;
    use std::net::{IpAddr, Ipv4Addr};
    use std::sync::Arc;
    let src = fresh_loopback();
    let peer_as = if c.ibgp { 65000 } else { 65100 };
    let nhs = c.nhs.clamp(1, 4) as u32;
    let cfg = NeighborCfg { addr: src, remote_asn: peer_as, local_asn: 0, rs_client: false, rr_client: false, cluster_id: None, admin_down: false, holdtime: 90, families: vec![(Family::IPV4, if c.addpath { 2 } else { 0 })], prefix_limit: None, gr: None, llgr: None };
    let mut p = WirePeer::new(65000, cfg).await?;
    let n = c.routes.max(1) as u32;
    let share = c.share.max(1) as u32;
    let source = Arc::new(rustybgp_table::Source::new(IpAddr::V4(Ipv4Addr::new(10, 0, 0, 77)), IpAddr::V4(Ipv4Addr::new(10, 0, 0, 1)), 65200, 65000, Ipv4Addr::new(7, 7, 7, 7), rustybgp_table::PeerRole::Ebgp));
    let mut want = BTreeSet::new();
    // per prefix: (next hop as learned, community)
    let mut want_detail: BTreeMap<String, (Ipv4Addr, u32)> = BTreeMap::new();
    for i in 0..n {
        let attrs = Arc::new(AttrSpec { origin: Some(0), as_path: Some(vec![Seg { t: SEG_SEQ, n: 1, base: 65200, asns: vec![] }]), communities: vec![0xfde8_0000 + i / share], ..Default::default() }.build());
        let net = v4(10 + (i >> 16) as u8, (i >> 8) as u8, i as u8, 0, 24);
        want.insert(format!("{net:?}"));
        // next hops change from route to route inside one attribute group
        let nh = Ipv4Addr::new(192, 0, 2, 1 + (i % nhs) as u8);
        want_detail.insert(format!("{net:?}"), (nh, 0xfde8_0000 + i / share));
        let _ = p.rig.tables.insert_route(source.clone(), Family::IPV4, PathNlri { path_id: 0, nlri: net }, Some(bgp::Nexthop::V4(nh)), attrs, None, 1);
    }
    p.connect().await?;
    let mut caps = vec![bgp::Capability::MultiProtocol(Family::IPV4), bgp::Capability::FourOctetAsNumber(peer_as)];
    if c.addpath {
        caps.push(bgp::Capability::AddPath(vec![(Family::IPV4, 1)]));
    }
    if !p.establish(peer_as, 0, 0x0a00_0004, caps.clone()).await? {
        return Err(Failure::new("harness", "the session did not establish".to_string()));
    }
    // read until End-of-RIB (an UPDATE of 23 octets) closes the dump
    let ends_with_eor = |rx: &[u8]| rx.len() >= 23 && rx[rx.len() - 23..rx.len() - 7] == [0xff; 16] && rx[rx.len() - 7..] == [0, 23, 2, 0, 0, 0, 0];
    let mut last = 0;
    let mut quiet = 0;
    for _ in 0..20_000 {
        p.settle().await;
        if ends_with_eor(&p.rx) || p.is_closed() {
            break;
        }
        if p.rx.len() == last {
            quiet += 1;
            if quiet > 6000 {
                break;
            }
        } else {
            quiet = 0;
            last = p.rx.len();
        }
    }
    let big = p.rx.len() > 65536;
    // (1) framing
    // the peer's decoder: path identifiers iff it advertised "receive" and the daemon "send"
    let mut codec = PeerCodec::negotiate(&caps[..2], &caps[..2]);
    codec.set_family(Family::IPV4, bgp::FamilyState { addpath_rx: c.addpath, addpath_tx: false });
    let mut got: BTreeMap<String, usize> = BTreeMap::new();
    let mut got_detail: BTreeMap<String, (Option<std::net::IpAddr>, Option<u32>)> = BTreeMap::new();
    let mut pos = 0;
    let mut frames = 0;
    while pos < p.rx.len() {
        let rest = &p.rx[pos..];
        if rest.len() < 19 {
            return Err(Failure::new("stream-framing", format!("after {frames} good messages {} trailing octets are shorter than a BGP header ({} octets received)", rest.len(), p.rx.len())).with("big", big));
        }
        let len = u16::from_be_bytes([rest[16], rest[17]]) as usize;
        if rest[..16] != [0xff; 16] || !(19..=4096).contains(&len) || !(1..=5).contains(&rest[18]) || len > rest.len() {
            return Err(Failure::new("stream-framing", format!("after {frames} good messages, at octet {pos} of {}: marker ok = {}, length {len}, type {} - the stream does not continue with a BGP message", p.rx.len(), rest[..16] == [0xff; 16], rest[18])).with("big", big));
        }
        if rest[18] == 2 {
            let parsed = codec.parse_message(&rest[..len]).map_err(|e| Failure::new("stream-framing", format!("message #{frames} (UPDATE of {len} octets) does not parse: {e:?}")).with("big", big))?;
            let msgs = bgp::validate_message(parsed, true).map_err(|e| Failure::new("stream-framing", format!("message #{frames} is refused: {e:?}")).with("big", big))?;
            for m in msgs {
                if let Message::Update(Update::Reach { entries, nexthop, attr, .. }) = m {
                    let comm = attr.iter().find(|a| a.code() == 8).and_then(|a| a.binary()).and_then(|b| b.get(..4).map(|x| u32::from_be_bytes([x[0], x[1], x[2], x[3]])));
                    for e in entries {
                        *got.entry(format!("{:?}", e.nlri)).or_default() += 1;
                        got_detail.insert(format!("{:?}", e.nlri), (nexthop.map(|n| n.addr()), comm));
                    }
                }
            }
        }
        frames += 1;
        pos += len;
    }
    // (2) contents
    if !ends_with_eor(&p.rx) {
        return Err(Failure::new("dump-incomplete", format!("the initial dump of {n} routes did not end with End-of-RIB ({} octets, {frames} messages, connection closed by the daemon: {})", p.rx.len(), p.is_closed())).with("big", big));
    }
    if let Some((k, v)) = got.iter().find(|(_, v)| **v > 1) {
        return Err(Failure::new("routes-differ", format!("{k} is announced {v} times in one initial dump")).with("big", big));
    }
    let got: BTreeSet<String> = got.into_keys().collect();
    if got != want {
        return Err(Failure::new("routes-differ", format!("the initial dump announces {} prefixes, the RIB holds {} (first missing: {:?}, first extra: {:?})", got.len(), want.len(), want.difference(&got).next(), got.difference(&want).next())).with("big", big));
    }
    // (3) what each prefix carries: its own community, and its own next hop where the session passes next hops on
    // (an internal peer); towards an external peer one next hop, the speaker's, for all
    let mut ebgp_nh: Option<std::net::IpAddr> = None;
    for (k, (nh, comm)) in &want_detail {
        let Some((gnh, gcomm)) = got_detail.get(k) else { continue };
        if *gcomm != Some(*comm) {
            return Err(Failure::new("routes-differ", format!("{k} is announced with community {gcomm:x?}, the RIB's path has {comm:x}")).with("big", big).with("what", "attributes"));
        }
        if c.ibgp {
            if *gnh != Some(IpAddr::V4(*nh)) {
                return Err(Failure::new("routes-differ", format!("{k} is announced to an internal peer with next hop {gnh:?}, the RIB's path has {nh} ({nhs} distinct next hops among the routes)")).with("big", big).with("what", "next-hop"));
            }
        } else {
            if ebgp_nh.is_some() && ebgp_nh != *gnh {
                return Err(Failure::new("routes-differ", format!("{k} is announced to an external peer with next hop {gnh:?}, other prefixes of the same dump with {ebgp_nh:?}")).with("big", big).with("what", "next-hop"));
            }
            ebgp_nh = *gnh;
        }
    }
    Ok(CaseInfo::nt(big || (c.ibgp && nhs > 1)).class_if(big, "dump-over-64KiB").class_if(c.ibgp, "internal-peer").class_if(nhs > 1, "several-next-hops"))
}

pub fn arb_dump() -> impl Strategy<Value = DumpCase> {
    (prop_oneof![2 => 1u16..50, 2 => 800u16..1600, 3 => 1600u16..4000], prop_oneof![3 => Just(1u8), 1 => Just(2u8), 1 => Just(50u8)], prop::bool::weighted(0.35), any::<bool>(), 1u8..5).prop_map(|(routes, share, addpath, ibgp, nhs)| DumpCase { routes, share, addpath, ibgp, nhs })
}

pub fn run(r: &Run) {
    r.set_rule(RULE);
    r.assume("attributes handed to the encoder are values the wire decoder or the API produces (ascending type order, ORIGIN and AS_PATH present on announcements)");
    r.assume("next hops are of the kind natural for the family (IPv4 for AFI 1, IPv6 for AFI 2, either for EVPN/LS; IPv6 for IPv4 unicast only when extended next hop is negotiated)");
    r.assume("a labeled-unicast withdrawal is compared on its prefix (the label field of a withdrawal is ignored by receivers, RFC 8277)");
    r.prop("messages", r.tier.pick(40_000, 1_000_000), || arb_case(r.tier.pick(2500, 2500)), check);
    r.prop("big-open", r.tier.pick(4_000, 100_000), arb_big_open, check);
    r.prop("sessions", r.tier.pick(20_000, 500_000), || arb_seq(40), check_seq);
    r.assume(DUMP_RULE);
    r.slow(|| r.prop("session-dump", r.tier.pick(96, 3_000), arb_dump, check_dump));
}

pub fn replay(sub: &str, case: &Value) -> Result<CheckResult, String> {
    if sub == "sessions" {
        let c: SeqCase = decode_case(case)?;
        return Ok(check_seq(&c));
    }
    if sub == "session-dump" {
        return Ok(check_dump(&decode_case(case)?));
    }
    let c: Case = decode_case(case)?;
    Ok(check(&c))
}
