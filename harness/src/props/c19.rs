//! C19 — every emitted BMP / MRT record is well-formed and carries the intended BGP data.
//!
//! Generated monitoring events go through the repository's BmpCodec / MrtCodec /
//! encode_table_dump (one codec instance per *sequence* of messages, as the daemon
//! keeps one per connection / file) and through the daemon's private converters
//! (reached via the bmp / mrt hook modules). The bytes are read back by the
//! independent structural readers of wire/mon.rs and the embedded BGP PDUs by the
//! repository's own BGP parser, configured with the add-path setting the record states.

use crate::cgen::nlri::*;
use crate::cgen::wire::*;
use crate::cgen::*;
use crate::common::*;
use crate::table_manager::{AdjRibInChange, AdjRibOutChange, LocRibChange};
use crate::wire::mon::{self, BmpBody, MrtRecord};
use bytes::BytesMut;
use proptest::prelude::*;
use rustybgp_packet as packet;
use rustybgp_packet::bgp::{self, Family, Message, Nexthop, PathNlri, PeerCodec, Update};
use rustybgp_packet::{bmp, mrt};
use rustybgp_table as table;
use serde::{Deserialize, Serialize};
use serde_json::Value;
use std::collections::BTreeMap;
use std::net::{IpAddr, Ipv4Addr, Ipv6Addr};
use std::sync::Arc;
use tokio_util::codec::Encoder;

pub const RULE: &str = "bmp-stream / mrt-stream: cases = sequences of 1..6 monitoring messages through ONE codec instance: route monitoring / BGP4MP for every family with 0..~3 frames worth of NLRI, attribute blocks up to the size an extended-message peer can send, add-path on/off per message, IPv4 and IPv6 peers and next hops, \
pre/post-policy, Adj-RIB-Out and Loc-RIB flags; peer up with generated OPENs (capability lists of any size), peer down with every reason, initiation TLVs. table-dump: peer index tables and RIB records with 0..40 entries per prefix. converters: AdjRibIn/AdjRibOut/LocRib changes through the daemon's private converters + snapshot map flush, \
BGP4MP conversion and dump_table over a filled TableManager. Oracle: the stream tiles into records by the common-header / MRT-header lengths; per-peer and BGP4MP headers repeat the monitored peer (V flag / AFI match the addresses); each record embeds exactly one BGP PDU per monitored message \
(peer up: two OPENs); the PDUs, parsed by the repository's BGP parser with the add-path setting the record states, give the same multiset of (path id, prefix), next hop and attributes (modulo extended-length flag) and the same OPEN contents; TABLE_DUMP_V2 entry counts, peer indexes and attribute lengths are consistent and each entry's attributes re-parse to the path's attributes and next hop. No panic in either arithmetic profile. \
non-trivial := a sequence with an add-path change between consecutive messages of one family, or an update larger than one 4096-byte frame, or an IPv6 peer, or a non-IPv4-unicast family, or a table dump with >= 2 peers; distinct := distinct serialized case";

// ---------------------------------------------------------------------------
// specs
// ---------------------------------------------------------------------------

#[derive(Clone, Debug, Serialize, Deserialize, PartialEq)]
pub struct PeerSpec {
    pub v6: bool,
    pub addr: u32,
    pub asn: u32,
    pub id: u32,
    pub ts: u32,
}

impl PeerSpec {
    pub fn ip(&self) -> IpAddr {
        ip_of(self.v6, self.addr)
    }
}

fn ip_of(v6: bool, x: u32) -> IpAddr {
    if v6 { IpAddr::V6(Ipv6Addr::from(((0x2001_0db8u128) << 96) | (2u128 << 64) | x as u128)) } else { IpAddr::V4(Ipv4Addr::from(x | 0x0100_0000)) }
}

#[derive(Clone, Debug, Serialize, Deserialize, PartialEq)]
pub struct OpenSpec {
    pub asn: u32,
    pub hold: u16,
    pub id: u32,
    pub caps: CapSpec,
}

impl OpenSpec {
    fn build(&self) -> Message {
        Message::Open(bgp::Open { as_number: self.asn, holdtime: bgp::HoldTime::new(self.hold).unwrap_or(bgp::HoldTime::DISABLED), router_id: self.id, capability: self.caps.build() })
    }
}

#[derive(Clone, Debug, Serialize, Deserialize, PartialEq)]
pub enum MonMsg {
    /// kind: 0 pre-policy, 1 post-policy, 2 adj-rib-out pre, 3 adj-rib-out post, 4 loc-rib
    Route { peer: PeerSpec, kind: u8, update: MsgSpec, addpath: bool },
    PeerUp { peer: PeerSpec, local: u32, lport: u16, rport: u16, sent: OpenSpec, received: OpenSpec },
    /// reason 1..=5; (code, sub, data) for notifications, fsm code for 2
    PeerDown { peer: PeerSpec, reason: u8, code: u8, sub: u8, data: Vec<u8>, fsm: u16 },
    Initiation(Vec<(u16, Vec<u8>)>),
    Termination,
}

#[derive(Clone, Debug, Serialize, Deserialize)]
pub struct StreamCase {
    pub msgs: Vec<MonMsg>,
}

fn flags_of(kind: u8) -> (u8, u8) {
    // (per-peer flags given to PerPeerHeader::new, peer type)
    match kind % 5 {
        0 => (0, 0),
        1 => (bmp::Message::PEER_FLAG_POST_POLICY, 0),
        2 => (bmp::Message::PEER_FLAG_ADJ_RIB_OUT, 0),
        3 => (bmp::Message::PEER_FLAG_ADJ_RIB_OUT | bmp::Message::PEER_FLAG_POST_POLICY, 0),
        _ => (0, bmp::Message::PEER_TYPE_LOC_RIB),
    }
}

fn header_of(p: &PeerSpec, kind: u8) -> bmp::PerPeerHeader {
    let (flags, ptype) = flags_of(kind);
    let h = bmp::PerPeerHeader::new(flags, p.asn, Ipv4Addr::from(p.id), 0, p.ip(), p.ts);
    if ptype != 0 { h.with_peer_type(ptype) } else { h }
}

fn notification(code: u8, sub: u8, data: &[u8]) -> Message {
    Message::Notification(packet::Notification::from_notification(code, sub, data.to_vec()))
}

impl MonMsg {
    fn to_bmp(&self) -> bmp::Message {
        match self {
            MonMsg::Route { peer, kind, update, addpath } => bmp::Message::RouteMonitoring { header: header_of(peer, *kind), update: update.build(), addpath: *addpath },
            MonMsg::PeerUp { peer, local, lport, rport, sent, received } => bmp::Message::PeerUp { header: header_of(peer, 0), local_addr: ip_of(peer.v6, *local), local_port: *lport, remote_port: *rport, local_open: sent.build(), remote_open: received.build() },
            MonMsg::PeerDown { peer, reason, code, sub, data, fsm } => bmp::Message::PeerDown {
                header: header_of(peer, 0),
                reason: match reason % 5 {
                    0 => bmp::PeerDownReason::LocalNotification(notification(*code, *sub, data)),
                    1 => bmp::PeerDownReason::LocalFsm(*fsm),
                    2 => bmp::PeerDownReason::RemoteNotification(notification(*code, *sub, data)),
                    3 => bmp::PeerDownReason::RemoteUnexpected,
                    _ => bmp::PeerDownReason::Deconfigured,
                },
            },
            MonMsg::Initiation(t) => bmp::Message::Initiation(t.clone()),
            MonMsg::Termination => bmp::Message::Termination,
        }
    }
}

// ---------------------------------------------------------------------------
// embedded PDU oracle
// ---------------------------------------------------------------------------

#[derive(Default, Debug, Clone, PartialEq)]
struct Routes {
    reach: BTreeMap<String, usize>,
    unreach: BTreeMap<String, usize>,
    ctx: Vec<(Option<Nexthop>, Vec<(u8, u8, Option<u32>, Option<Vec<u8>>)>)>,
    eor: usize,
}

fn msg_str(m: &Message) -> String {
    match m {
        Message::Update(Update::Reach { family, entries, nexthop, attr }) => format!("Reach({family:?}, {entries:?}, {nexthop:?}, {attr:?})"),
        Message::Update(Update::Unreach { family, entries }) => format!("Unreach({family:?}, {entries:?})"),
        Message::Update(Update::EndOfRib(f)) => format!("EndOfRib({f:?})"),
        Message::Open(o) => format!("Open({}, {}, {}, {:?})", o.as_number, o.holdtime.seconds(), o.router_id, o.capability),
        Message::Notification(n) => format!("Notification({}, {})", n.notification_code(), n.notification_subcode()),
        Message::Keepalive => "Keepalive".into(),
        Message::RouteRefresh { family } => format!("RouteRefresh({family:?})"),
    }
}

fn attr_view(attrs: &[packet::Attribute]) -> Vec<(u8, u8, Option<u32>, Option<Vec<u8>>)> {
    let mut v: Vec<_> = attrs.iter().map(|a| (a.code(), a.flags() & !0x10, a.value(), a.binary().cloned())).collect();
    v.sort();
    v
}

fn key(e: &PathNlri, addpath: bool, withdraw: bool) -> String {
    let pid = if addpath { e.path_id } else { 0 };
    match (&e.nlri, withdraw) {
        (bgp::Nlri::LabeledV4(n), true) => format!("{pid}|labeled {}/{}", n.prefix.addr, n.prefix.mask),
        (bgp::Nlri::LabeledV6(n), true) => format!("{pid}|labeled {}/{}", n.prefix.addr, n.prefix.mask),
        (n, _) => format!("{pid}|{n:?}"),
    }
}

fn expected_routes(update: &Message, addpath: bool) -> (Option<Family>, Routes) {
    let mut r = Routes::default();
    let fam = match update {
        Message::Update(Update::Reach { family, entries, nexthop, attr }) => {
            for e in entries {
                *r.reach.entry(key(e, addpath, false)).or_default() += 1;
            }
            if !entries.is_empty() {
                r.ctx.push((*nexthop, attr_view(attr)));
            }
            Some(*family)
        }
        Message::Update(Update::Unreach { family, entries }) => {
            for e in entries {
                *r.unreach.entry(key(e, addpath, true)).or_default() += 1;
            }
            Some(*family)
        }
        Message::Update(Update::EndOfRib(f)) => {
            r.eor = 1;
            Some(*f)
        }
        _ => None,
    };
    (fam, r)
}

/// parse UPDATE PDUs as a monitoring station would: a four-octet-AS parser that knows the
/// family of the record and the add-path setting it states
fn parse_updates(pdus: &[Vec<u8>], family: Family, addpath: bool) -> Result<Routes, String> {
    let mut dec = PeerCodec::new();
    dec.extended_length = true;
    dec.set_family(family, bgp::FamilyState { addpath_rx: addpath, addpath_tx: addpath });
    let mut r = Routes::default();
    for (i, p) in pdus.iter().enumerate() {
        if p[18] != 2 {
            return Err(format!("PDU #{i} has type {} (expected UPDATE)", p[18]));
        }
        let mut buf = BytesMut::from(&p[..]);
        let parsed = match catch(|| dec.try_parse(&mut buf)) {
            Err(pn) => return Err(format!("the BGP parser panics on PDU #{i}: {}", pn.msg)),
            Ok(Err(n)) => return Err(format!("the BGP parser rejects PDU #{i}: {n:?}")),
            Ok(Ok(None)) => return Err(format!("PDU #{i} is incomplete for the BGP parser")),
            Ok(Ok(Some(m))) => m,
        };
        if !buf.is_empty() {
            return Err(format!("PDU #{i}: {} bytes left over", buf.len()));
        }
        let msgs = match catch(|| bgp::validate_message(parsed, false).map(|it| it.collect::<Vec<_>>())) {
            Err(pn) => return Err(format!("validate_message panics on PDU #{i}: {}", pn.msg)),
            Ok(Err(n)) => return Err(format!("validate_message rejects PDU #{i}: {n:?}")),
            Ok(Ok(v)) => v,
        };
        for m in msgs {
            match m {
                Message::Update(Update::Reach { family: f, entries, nexthop, attr }) => {
                    if f != family {
                        return Err(format!("PDU #{i} carries family {f:?}, monitored {family:?}"));
                    }
                    for e in &entries {
                        *r.reach.entry(key(e, addpath, false)).or_default() += 1;
                    }
                    let c = (nexthop, attr_view(&attr));
                    if !entries.is_empty() && !r.ctx.contains(&c) {
                        r.ctx.push(c);
                    }
                }
                Message::Update(Update::Unreach { family: f, entries }) => {
                    if f != family {
                        return Err(format!("PDU #{i} withdraws family {f:?}, monitored {family:?}"));
                    }
                    for e in &entries {
                        *r.unreach.entry(key(e, addpath, true)).or_default() += 1;
                    }
                }
                Message::Update(Update::EndOfRib(f)) => {
                    if f != family {
                        return Err(format!("PDU #{i} is an end-of-rib for {f:?}, monitored {family:?}"));
                    }
                    r.eor += 1;
                }
                other => return Err(format!("PDU #{i} parses as {}", msg_str(&other))),
            }
        }
    }
    Ok(r)
}

fn compare_routes(want: &Routes, got: &Routes) -> Result<(), String> {
    if want.reach != got.reach {
        let missing: Vec<_> = want.reach.iter().filter(|(k, v)| got.reach.get(*k) != Some(v)).take(2).collect();
        let extra: Vec<_> = got.reach.iter().filter(|(k, v)| want.reach.get(*k) != Some(v)).take(2).collect();
        return Err(format!("announced prefixes differ: {} monitored, {} parse back; e.g. monitored-not-embedded {missing:?}, embedded-not-monitored {extra:?}", want.reach.len(), got.reach.len()));
    }
    if want.unreach != got.unreach {
        return Err(format!("withdrawn prefixes differ: {} monitored, {} parse back", want.unreach.len(), got.unreach.len()));
    }
    if want.eor != got.eor {
        return Err(format!("end-of-rib markers: {} monitored, {} embedded", want.eor, got.eor));
    }
    if !want.reach.is_empty() && want.ctx != got.ctx {
        return Err(format!("next hop / attributes differ: monitored {:?}, embedded {:?}", want.ctx, got.ctx));
    }
    Ok(())
}

fn parse_open(pdu: &[u8]) -> Result<bgp::Open, String> {
    let mut dec = PeerCodec::new();
    let mut buf = BytesMut::from(pdu);
    match catch(|| dec.try_parse(&mut buf)) {
        Err(pn) => Err(format!("the BGP parser panics on the OPEN: {}", pn.msg)),
        Ok(Err(n)) => Err(format!("the BGP parser rejects the OPEN: {n:?}")),
        Ok(Ok(Some(bgp::ParsedMessage::Open(o)))) => Ok(o),
        Ok(Ok(_)) => Err("not an OPEN".into()),
    }
}

fn open_matches(want: &OpenSpec, pdu: &[u8]) -> Result<(), String> {
    let o = parse_open(pdu)?;
    let w = match want.build() {
        Message::Open(o) => o,
        _ => unreachable!(),
    };
    if o.as_number != w.as_number || o.holdtime.seconds() != w.holdtime.seconds() || o.router_id != w.router_id {
        return Err(format!("OPEN fixed fields differ: embedded as={} hold={} id={}, monitored as={} hold={} id={}", o.as_number, o.holdtime.seconds(), o.router_id, w.as_number, w.holdtime.seconds(), w.router_id));
    }
    if o.capability != w.capability {
        return Err(format!("OPEN capabilities differ: embedded {:?}, monitored {:?}", o.capability, w.capability));
    }
    Ok(())
}

fn peer_matches(kind: u8, p: &PeerSpec, got: &mon::BmpPeer, what: &str) -> Result<(), Failure> {
    let (flags, ptype) = flags_of(kind);
    let want_flags = flags | if p.v6 { 0x80 } else { 0 };
    let f = |m: String| Failure::new("bmp-header", format!("{what}: {m}")).with("msg", what.split(' ').next().unwrap_or("").to_string());
    if got.peer_type != ptype {
        return Err(f(format!("peer type {} != {}", got.peer_type, ptype)));
    }
    if got.flags != want_flags {
        return Err(f(format!("per-peer flags {:#04x}, expected {:#04x} (V flag must say {})", got.flags, want_flags, if p.v6 { "IPv6" } else { "IPv4" })));
    }
    if got.addr != p.ip() || got.asn != p.asn || got.id != Ipv4Addr::from(p.id) || got.ts != p.ts || got.distinguisher != 0 {
        return Err(f(format!("per-peer header says {got:?}, monitored peer is {p:?}")));
    }
    Ok(())
}

fn update_weight(u: &MsgSpec) -> (Option<u8>, usize, bool) {
    match u {
        MsgSpec::Reach { fam, count, pad_communities, .. } => (Some(*fam), *count as usize, *pad_communities > 900),
        MsgSpec::Unreach { fam, count, .. } => (Some(*fam), *count as usize, false),
        MsgSpec::Eor(f) => (Some(*f), 0, false),
        _ => (None, 0, false),
    }
}

// ---------------------------------------------------------------------------
// BMP stream
// ---------------------------------------------------------------------------

pub fn check_bmp(c: &StreamCase) -> CheckResult {
    let mut codec = bmp::BmpCodec::new();
    let mut info = CaseInfo::trivial();
    let mut last_addpath: BTreeMap<u8, bool> = BTreeMap::new();
    for (i, m) in c.msgs.iter().enumerate() {
        let msg = m.to_bmp();
        let mut buf = BytesMut::new();
        let what = match m {
            MonMsg::Route { .. } => "route-monitoring",
            MonMsg::PeerUp { .. } => "peer-up",
            MonMsg::PeerDown { .. } => "peer-down",
            MonMsg::Initiation(_) => "initiation",
            MonMsg::Termination => "termination",
        };
        match catch(|| codec.encode(&msg, &mut buf)) {
            Err(p) => {
                let (big_attr, n) = match m {
                    MonMsg::Route { update, .. } => (update_weight(update).2, update_weight(update).1),
                    _ => (false, 0),
                };
                return Err(p.into_failure("BmpCodec::encode").with("msg", what).with("big_attrs", big_attr).with("entries_gt_0", n > 0));
            }
            Ok(Err(_)) => {
                info.classes.push("encoder-refused");
                continue;
            }
            Ok(Ok(())) => {}
        }
        let recs = mon::read_bmp(&buf).map_err(|e| Failure::new("bmp-framing", format!("message #{i} ({what}): {e}")).with("msg", what))?;
        match m {
            MonMsg::Route { peer, kind, update, addpath } => {
                let u = update.build();
                let (fam, want) = expected_routes(&u, *addpath);
                let family = fam.unwrap();
                let (fi, n, big) = update_weight(update);
                if let Some(fi) = fi {
                    if let Some(prev) = last_addpath.insert(fi, *addpath)
                        && prev != *addpath
                    {
                        info.nontrivial = true;
                        info.classes.push("addpath-setting-changes-within-stream");
                    }
                }
                info.nontrivial |= peer.v6 || family != Family::IPV4 || big;
                // one BMP message per BGP PDU (RFC 7854 §4.6), all with the same per-peer header
                let mut pdus: Vec<Vec<u8>> = Vec::new();
                for r in &recs {
                    match r {
                        BmpBody::RouteMonitoring { peer: got, pdus: p } => {
                            peer_matches(*kind, peer, got, "route-monitoring header")?;
                            if p.len() != 1 {
                                return Err(Failure::new("bmp-rm-pdus", format!("message #{i}: a route monitoring message embeds {} BGP PDUs (RFC 7854 §4.6: one UPDATE PDU); a station reading one PDU per message loses {} of the {} monitored prefixes", p.len(), n.saturating_sub(1), n)).with("family", family_name(family)).with("pdus", if p.is_empty() { "0" } else { "many" }));
                            }
                            pdus.extend(p.iter().cloned());
                        }
                        other => return Err(Failure::new("bmp-framing", format!("message #{i}: a route monitoring message was emitted as {other:?}")).with("msg", what)),
                    }
                }
                if pdus.len() > 1 {
                    info.nontrivial = true;
                    info.classes.push("update-split-over-several-records");
                }
                let got = parse_updates(&pdus, family, *addpath).map_err(|e| Failure::new("bmp-embedded", format!("message #{i} (route monitoring, {family:?}, add-path {addpath}): {e}")).with("family", family_name(family)).with("addpath", *addpath).with("why", "unparsable"))?;
                compare_routes(&want, &got).map_err(|e| Failure::new("bmp-embedded", format!("message #{i} (route monitoring, {family:?}, add-path {addpath}): {e}")).with("family", family_name(family)).with("addpath", *addpath).with("why", "differs"))?;
                info.classes.push("route-monitoring");
            }
            MonMsg::PeerUp { peer, local, lport, rport, sent, received } => {
                if recs.len() != 1 {
                    return Err(Failure::new("bmp-framing", format!("message #{i}: peer up emitted as {} records", recs.len())).with("msg", what));
                }
                match &recs[0] {
                    BmpBody::PeerUp { peer: got, local: l, local_port, remote_port, sent_open, received_open, .. } => {
                        peer_matches(0, peer, got, "peer-up header")?;
                        if *l != ip_of(peer.v6, *local) || *local_port != *lport || *remote_port != *rport {
                            return Err(Failure::new("bmp-header", format!("peer up: local address/ports {l}:{local_port}/{remote_port} != monitored {}:{lport}/{rport}", ip_of(peer.v6, *local))).with("msg", "peer-up"));
                        }
                        open_matches(sent, sent_open).map_err(|e| Failure::new("bmp-embedded", format!("message #{i} peer up, sent OPEN: {e}")).with("family", "-").with("addpath", false).with("why", "open"))?;
                        open_matches(received, received_open).map_err(|e| Failure::new("bmp-embedded", format!("message #{i} peer up, received OPEN: {e}")).with("family", "-").with("addpath", false).with("why", "open"))?;
                    }
                    other => return Err(Failure::new("bmp-framing", format!("message #{i}: peer up emitted as {other:?}")).with("msg", what)),
                }
                info.nontrivial |= peer.v6;
                info.classes.push("peer-up");
            }
            MonMsg::PeerDown { peer, reason, code, sub, data, fsm } => {
                if recs.len() != 1 {
                    return Err(Failure::new("bmp-framing", format!("message #{i}: peer down emitted as {} records", recs.len())).with("msg", what));
                }
                match &recs[0] {
                    BmpBody::PeerDown { peer: got, reason: r, data: d } => {
                        peer_matches(0, peer, got, "peer-down header")?;
                        let want_reason = reason % 5 + 1;
                        if *r != want_reason {
                            return Err(Failure::new("bmp-header", format!("peer down reason {r} != {want_reason}")).with("msg", "peer-down"));
                        }
                        match want_reason {
                            1 | 3 => {
                                let n = packet::Notification::from_notification(*code, *sub, data.clone());
                                let mut dec = PeerCodec::new();
                                let mut b = BytesMut::from(&d[..]);
                                match catch(|| dec.try_parse(&mut b)) {
                                    Ok(Ok(Some(bgp::ParsedMessage::Notification(g)))) if g.notification_code() == n.notification_code() && g.notification_subcode() == n.notification_subcode() && g.notification_data() == n.notification_data() => {}
                                    other => return Err(Failure::new("bmp-embedded", format!("message #{i} peer down: the NOTIFICATION does not parse back to ({},{},{:?}): {:?}", n.notification_code(), n.notification_subcode(), n.notification_data(), other.map(|r| r.map(|o| o.is_some())))).with("family", "-").with("addpath", false).with("why", "notification")),
                                }
                            }
                            2 => {
                                if d != &fsm.to_be_bytes() {
                                    return Err(Failure::new("bmp-header", format!("peer down FSM code {d:?} != {fsm}")).with("msg", "peer-down"));
                                }
                            }
                            _ => {}
                        }
                    }
                    other => return Err(Failure::new("bmp-framing", format!("message #{i}: peer down emitted as {other:?}")).with("msg", what)),
                }
                info.classes.push("peer-down");
            }
            MonMsg::Initiation(t) => {
                if recs != vec![BmpBody::Initiation(t.clone())] {
                    return Err(Failure::new("bmp-framing", format!("message #{i}: initiation {t:?} emitted as {recs:?}")).with("msg", what));
                }
                info.classes.push("initiation");
            }
            MonMsg::Termination => {
                if recs != vec![BmpBody::Termination(vec![])] {
                    return Err(Failure::new("bmp-framing", format!("message #{i}: termination emitted as {recs:?}")).with("msg", what));
                }
            }
        }
    }
    Ok(info)
}

// ---------------------------------------------------------------------------
// MRT BGP4MP stream
// ---------------------------------------------------------------------------

#[derive(Clone, Debug, Serialize, Deserialize)]
pub struct MrtMsg {
    pub peer: PeerSpec,
    pub local: u32,
    pub local_asn: u32,
    pub update: MsgSpec,
    pub addpath: bool,
}

#[derive(Clone, Debug, Serialize, Deserialize)]
pub struct MrtCase {
    pub msgs: Vec<MrtMsg>,
}

pub fn check_mrt(c: &MrtCase) -> CheckResult {
    let mut codec = mrt::MrtCodec::new();
    let mut info = CaseInfo::trivial();
    let mut last_addpath: BTreeMap<u8, bool> = BTreeMap::new();
    for (i, m) in c.msgs.iter().enumerate() {
        let body = m.update.build();
        let header = mrt::MpHeader::new(m.peer.asn, m.local_asn, 0, m.peer.ip(), ip_of(m.peer.v6, m.local), true);
        let msg = mrt::Message::Mp { header, body: body.clone(), addpath: m.addpath };
        let mut buf = BytesMut::new();
        let (fi, n, big) = update_weight(&m.update);
        match catch(|| codec.encode(&msg, &mut buf)) {
            Err(p) => return Err(p.into_failure("MrtCodec::encode").with("msg", "bgp4mp").with("big_attrs", big).with("entries_gt_0", n > 0)),
            Ok(Err(_)) => {
                info.classes.push("encoder-refused");
                continue;
            }
            Ok(Ok(())) => {}
        }
        let recs = mon::read_mrt(&buf).map_err(|e| Failure::new("mrt-framing", format!("message #{i}: {e}")).with("msg", "bgp4mp"))?;
        let (fam, want) = expected_routes(&body, m.addpath);
        let family = fam.unwrap();
        if let Some(fi) = fi
            && let Some(prev) = last_addpath.insert(fi, m.addpath)
            && prev != m.addpath
        {
            info.nontrivial = true;
            info.classes.push("addpath-setting-changes-within-stream");
        }
        info.nontrivial |= m.peer.v6 || family != Family::IPV4 || big;
        let mut pdus = Vec::new();
        for (_, r) in &recs {
            match r {
                MrtRecord::Bgp4mp { subtype, peer_as, local_as, ifindex, afi, peer, local, pdus: p } => {
                    let want_sub = if m.addpath { 8 } else { 4 };
                    if *subtype != want_sub {
                        return Err(Failure::new("mrt-header", format!("message #{i}: BGP4MP subtype {subtype}, expected {want_sub} for add-path {}", m.addpath)).with("msg", "bgp4mp"));
                    }
                    if *peer_as != m.peer.asn || *local_as != m.local_asn || *ifindex != 0 || *afi != if m.peer.v6 { 2 } else { 1 } || *peer != m.peer.ip() || *local != ip_of(m.peer.v6, m.local) {
                        return Err(Failure::new("mrt-header", format!("message #{i}: BGP4MP header ({peer_as},{local_as},{afi},{peer},{local}) does not repeat the monitored session ({},{},{},{})", m.peer.asn, m.local_asn, m.peer.ip(), ip_of(m.peer.v6, m.local))).with("msg", "bgp4mp"));
                    }
                    if p.len() != 1 {
                        return Err(Failure::new("mrt-record-pdus", format!("message #{i}: a BGP4MP record embeds {} BGP messages (RFC 6396 §4.4.2: one BGP message); a reader taking one message per record loses {} of the {} monitored prefixes", p.len(), n.saturating_sub(1), n)).with("family", family_name(family)).with("pdus", if p.is_empty() { "0" } else { "many" }));
                    }
                    pdus.extend(p.iter().cloned());
                }
                other => return Err(Failure::new("mrt-framing", format!("message #{i}: emitted as {other:?}")).with("msg", "bgp4mp")),
            }
        }
        if pdus.len() > 1 {
            info.nontrivial = true;
            info.classes.push("update-split-over-several-records");
        }
        let got = parse_updates(&pdus, family, m.addpath).map_err(|e| Failure::new("mrt-embedded", format!("message #{i} (BGP4MP, {family:?}, add-path {}): {e}", m.addpath)).with("family", family_name(family)).with("addpath", m.addpath).with("why", "unparsable"))?;
        compare_routes(&want, &got).map_err(|e| Failure::new("mrt-embedded", format!("message #{i} (BGP4MP, {family:?}, add-path {}): {e}", m.addpath)).with("family", family_name(family)).with("addpath", m.addpath).with("why", "differs"))?;
        info.classes.push("bgp4mp");
    }
    Ok(info)
}

// ---------------------------------------------------------------------------
// TABLE_DUMP_V2
// ---------------------------------------------------------------------------

#[derive(Clone, Debug, Serialize, Deserialize)]
pub struct DumpEntry {
    pub peer_index: u16,
    pub originated: u32,
    pub nh: NhSpec,
    pub attrs: AttrSpec,
    pub pad_communities: u16,
}

#[derive(Clone, Debug, Serialize, Deserialize)]
pub struct DumpCase {
    pub router_id: u32,
    pub peers: Vec<PeerSpec>,
    /// (v6, seq, prefix, entries)
    pub ribs: Vec<(bool, u32, NlriSpec, Vec<DumpEntry>)>,
}

/// re-parse the attribute block of a RIB entry: rebuild an UPDATE around it (for IPv6 the
/// abbreviated MP_REACH of RFC 6396 §4.3.4 is completed with AFI/SAFI and the prefix)
fn reparse_entry(v6: bool, prefix_len: u8, prefix: &[u8], attrs: &[(u8, u8, Vec<u8>)]) -> Result<(Option<Nexthop>, Vec<(u8, u8, Option<u32>, Option<Vec<u8>>)>, Vec<bgp::Nlri>), String> {
    let mut block = Vec::new();
    let mut nlri = Vec::new();
    nlri.push(prefix_len);
    nlri.extend_from_slice(prefix);
    let mut saw_mp = false;
    for (flags, code, value) in attrs {
        let mut value = value.clone();
        if *code == 14 {
            if !v6 {
                return Err("MP_REACH in an IPv4 unicast RIB entry".into());
            }
            saw_mp = true;
            // RFC 6396 §4.3.4: only next hop length + next hop
            if value.is_empty() || value[0] as usize != value.len() - 1 {
                return Err(format!("abbreviated MP_REACH: next hop length octet {} does not match the {} bytes that follow", value.first().copied().unwrap_or(0), value.len().saturating_sub(1)));
            }
            let mut full = vec![0, 2, 1];
            full.extend_from_slice(&value);
            full.push(0);
            full.extend_from_slice(&nlri);
            value = full;
        }
        let ext = value.len() > 255;
        block.push((*flags & !0x10) | if ext { 0x10 } else { 0 });
        block.push(*code);
        if ext {
            block.extend_from_slice(&(value.len() as u16).to_be_bytes());
        } else {
            block.push(value.len() as u8);
        }
        block.extend_from_slice(&value);
    }
    let mut pdu = vec![0xffu8; 16];
    let body_len = 2 + 2 + block.len() + if v6 { 0 } else { nlri.len() };
    pdu.extend_from_slice(&((19 + body_len) as u16).to_be_bytes());
    pdu.push(2);
    pdu.extend_from_slice(&[0, 0]);
    pdu.extend_from_slice(&(block.len() as u16).to_be_bytes());
    pdu.extend_from_slice(&block);
    if !v6 {
        pdu.extend_from_slice(&nlri);
    } else if !saw_mp {
        return Ok((None, Vec::new(), Vec::new()));
    }
    if pdu.len() > 65535 {
        return Err("attribute block too large to re-parse".into());
    }
    let mut dec = PeerCodec::new();
    dec.extended_length = true;
    dec.set_family(if v6 { Family::IPV6 } else { Family::IPV4 }, bgp::FamilyState::default());
    let mut buf = BytesMut::from(&pdu[..]);
    let parsed = match catch(|| dec.try_parse(&mut buf)) {
        Err(p) => return Err(format!("BGP parser panics: {}", p.msg)),
        Ok(Err(n)) => return Err(format!("BGP parser rejects the entry's attributes: {n:?}")),
        Ok(Ok(None)) => return Err("incomplete".into()),
        Ok(Ok(Some(m))) => m,
    };
    let msgs = match catch(|| bgp::validate_message(parsed, false).map(|it| it.collect::<Vec<_>>())) {
        Err(p) => return Err(format!("validate_message panics: {}", p.msg)),
        Ok(Err(n)) => return Err(format!("validate_message rejects the entry's attributes: {n:?}")),
        Ok(Ok(v)) => v,
    };
    for m in msgs {
        if let Message::Update(Update::Reach { entries, nexthop, attr, .. }) = m {
            return Ok((nexthop, attr_view(&attr), entries.into_iter().map(|e| e.nlri).collect()));
        }
    }
    Err("the entry's attributes do not parse as an announcement (treated as withdraw)".into())
}

pub fn check_dump(c: &DumpCase) -> CheckResult {
    let mut info = CaseInfo::nt(c.peers.len() >= 2);
    let mut buf = BytesMut::new();
    let peers: Vec<mrt::PeerEntry> = c.peers.iter().map(|p| mrt::PeerEntry { bgp_id: Ipv4Addr::from(p.id), addr: p.ip(), asn: p.asn }).collect();
    catch(|| mrt::encode_table_dump(7, &mrt::TableDumpRecord::PeerIndexTable { router_id: Ipv4Addr::from(c.router_id), peers }, &mut buf)).map_err(|p| p.into_failure("encode_table_dump").with("record", "peer-index"))?.map_err(|e| Failure::new("mrt-framing", format!("peer index table refused: {e:?}")).with("msg", "peer-index"))?;
    let mut wants = Vec::new();
    for (v6, seq, pfx, entries) in &c.ribs {
        let prefix = pfx.build();
        let es: Vec<mrt::RibEntry> = entries
            .iter()
            .map(|e| {
                let mut a = e.attrs.clone();
                for i in 0..e.pad_communities as u32 {
                    a.communities.push((64999 << 16) | (i & 0xffff));
                }
                mrt::RibEntry { peer_index: e.peer_index, originated: e.originated, nexthop: e.nh.build(), attrs: Arc::new(a.build()) }
            })
            .collect();
        let want: Vec<_> = es.iter().map(|e| (e.peer_index, e.originated, e.nexthop, attr_view(&e.attrs))).collect();
        let big = entries.iter().any(|e| e.pad_communities > 900);
        let rec = if *v6 { mrt::TableDumpRecord::RibIpv6Unicast { seq: *seq, prefix: prefix.clone(), entries: es } } else { mrt::TableDumpRecord::RibIpv4Unicast { seq: *seq, prefix: prefix.clone(), entries: es } };
        catch(|| mrt::encode_table_dump(7, &rec, &mut buf)).map_err(|p| p.into_failure("encode_table_dump").with("record", "rib").with("big_attrs", big))?.map_err(|e| Failure::new("mrt-framing", format!("RIB record refused: {e:?}")).with("msg", "rib"))?;
        wants.push((*v6, *seq, prefix, want));
    }
    let recs = mon::read_mrt(&buf).map_err(|e| Failure::new("mrt-framing", format!("table dump: {e}")).with("msg", "table-dump"))?;
    if recs.len() != 1 + wants.len() {
        return Err(Failure::new("mrt-framing", format!("{} records written, {} read back", 1 + wants.len(), recs.len())).with("msg", "table-dump"));
    }
    match &recs[0].1 {
        MrtRecord::PeerIndex { collector, view, peers } => {
            let want: Vec<_> = c.peers.iter().map(|p| (Ipv4Addr::from(p.id), p.ip(), p.asn)).collect();
            if *collector != Ipv4Addr::from(c.router_id) || !view.is_empty() || *peers != want {
                return Err(Failure::new("mrt-header", format!("peer index table reads back as collector {collector} peers {peers:?}; written {want:?}")).with("msg", "peer-index"));
            }
        }
        other => return Err(Failure::new("mrt-framing", format!("first record is {other:?}")).with("msg", "table-dump")),
    }
    for ((_, r), (v6, seq, prefix, want)) in recs[1..].iter().zip(&wants) {
        let MrtRecord::Rib { v6: gv6, seq: gseq, prefix_len, prefix: pb, entries } = r else {
            return Err(Failure::new("mrt-framing", format!("RIB record reads back as {r:?}")).with("msg", "rib"));
        };
        if gv6 != v6 || gseq != seq {
            return Err(Failure::new("mrt-header", format!("RIB record subtype/sequence ({gv6},{gseq}) != written ({v6},{seq})")).with("msg", "rib"));
        }
        if entries.len() != want.len() {
            return Err(Failure::new("mrt-header", format!("RIB record holds {} entries, {} written", entries.len(), want.len())).with("msg", "rib"));
        }
        for (k, (e, (pi, orig, nh, attrs))) in entries.iter().zip(want).enumerate() {
            if e.peer_index != *pi || e.originated != *orig {
                return Err(Failure::new("mrt-header", format!("RIB entry {k}: peer index/originated ({},{}) != written ({pi},{orig})", e.peer_index, e.originated)).with("msg", "rib"));
            }
            if nh.is_none() {
                continue;
            }
            let wit = |f: Failure| f.with("v6", *v6).with("nh", match nh { Some(Nexthop::V4(_)) => "v4", Some(Nexthop::V6(_)) => "v6", Some(Nexthop::V6LinkLocal(..)) => "v6+ll", None => "none" });
            let (gnh, gattrs, nlris) = reparse_entry(*v6, *prefix_len, pb, &e.attrs).map_err(|m| wit(Failure::new("mrt-embedded", format!("RIB entry {k} of {prefix:?}: {m}")).with("why", "unparsable")))?;
            if nlris != vec![prefix.clone()] {
                return Err(wit(Failure::new("mrt-embedded", format!("RIB record prefix reads back as {nlris:?}, written {prefix:?}")).with("why", "prefix")));
            }
            if gnh != *nh {
                return Err(wit(Failure::new("mrt-embedded", format!("RIB entry {k} of {prefix:?}: next hop reads back as {gnh:?}, written {nh:?}")).with("why", "nexthop")));
            }
            if gattrs != *attrs {
                return Err(wit(Failure::new("mrt-embedded", format!("RIB entry {k} of {prefix:?}: attributes read back as {gattrs:?}, written {attrs:?}")).with("why", "attrs")));
            }
        }
        info.classes.push(if *v6 { "rib-ipv6" } else { "rib-ipv4" });
    }
    Ok(info)
}

// ---------------------------------------------------------------------------
// daemon converters
// ---------------------------------------------------------------------------

#[derive(Clone, Debug, Serialize, Deserialize)]
pub struct ChangeSpec {
    pub peer: PeerSpec,
    pub local: u32,
    pub update: MsgSpec,
    pub addpath: bool,
}

#[derive(Clone, Debug, Serialize, Deserialize)]
pub struct ConvCase {
    pub changes: Vec<ChangeSpec>,
    /// which peer's snapshot to flush
    pub flush: u16,
}

fn source_of(p: &PeerSpec, local: u32) -> Arc<table::Source> {
    Arc::new(table::Source::new(p.ip(), ip_of(p.v6, local), p.asn, 65000, Ipv4Addr::from(p.id), table::PeerRole::Ebgp))
}

fn change_of(c: &ChangeSpec) -> Option<AdjRibInChange> {
    let source = source_of(&c.peer, c.local);
    match c.update.build() {
        Message::Update(Update::Reach { family, entries, nexthop, attr }) => Some(AdjRibInChange { source, family, addpath: c.addpath, nlris: entries, attrs: Some(attr), nexthop, timestamp: c.peer.ts }),
        Message::Update(Update::Unreach { family, entries }) => Some(AdjRibInChange { source, family, addpath: c.addpath, nlris: entries, attrs: None, nexthop: None, timestamp: c.peer.ts }),
        _ => None,
    }
}

pub fn check_conv(c: &ConvCase) -> CheckResult {
    let mut info = CaseInfo::trivial();
    let mut bmp_msgs: Vec<(MonMsg, bmp::Message)> = Vec::new();
    let mut mrt_codec = mrt::MrtCodec::new();
    let mut snap = crate::bmp::verif::Snapshot::new();
    // net state model: peer -> (family, nlri-with-path-id) -> present
    let mut model: BTreeMap<String, BTreeMap<String, (Family, PathNlri, Option<Nexthop>, Vec<(u8, u8, Option<u32>, Option<Vec<u8>>)>)>> = BTreeMap::new();
    for ch in &c.changes {
        let Some(change) = change_of(ch) else { continue };
        if change.nlris.is_empty() {
            continue;
        }
        // live route monitoring, as BmpClient::serve wraps it
        let update = catch(|| crate::bmp::verif::adj_rib_in_update(&change)).map_err(|p| p.into_failure("adj_rib_in_to_bmp_update"))?;
        let want = ch.update.build();
        if msg_str(&update) != msg_str(&want) {
            return Err(Failure::new("conv-bmp", format!("adj_rib_in_to_bmp_update turns the change into {}, the change holds {}", msg_str(&update), msg_str(&want))));
        }
        bmp_msgs.push((MonMsg::Route { peer: ch.peer.clone(), kind: 0, update: ch.update.clone(), addpath: ch.addpath }, bmp::Message::RouteMonitoring { header: header_of(&ch.peer, 0), update, addpath: ch.addpath }));
        // BGP4MP
        let m = catch(|| crate::mrt::verif::adj_rib_in(&change)).map_err(|p| p.into_failure("adj_rib_in_to_mrt"))?;
        let mut buf = BytesMut::new();
        let (_, n, big) = update_weight(&ch.update);
        match catch(|| mrt_codec.encode(&m, &mut buf)) {
            Err(p) => return Err(p.into_failure("MrtCodec::encode").with("msg", "bgp4mp").with("big_attrs", big).with("entries_gt_0", n > 0)),
            Ok(Err(_)) => {}
            Ok(Ok(())) => {
                let recs = mon::read_mrt(&buf).map_err(|e| Failure::new("mrt-framing", format!("adj_rib_in_to_mrt: {e}")).with("msg", "bgp4mp"))?;
                for (_, r) in &recs {
                    if let MrtRecord::Bgp4mp { peer_as, local_as, peer, local, .. } = r
                        && (*peer_as != ch.peer.asn || *local_as != 65000 || *peer != ch.peer.ip() || *local != ip_of(ch.peer.v6, ch.local))
                    {
                        return Err(Failure::new("mrt-header", format!("adj_rib_in_to_mrt: header ({peer_as},{local_as},{peer},{local}) does not repeat the session of {:?}", ch.peer)).with("msg", "bgp4mp"));
                    }
                }
            }
        }
        // snapshot map
        let pm = model.entry(ch.peer.ip().to_string()).or_default();
        for e in &change.nlris {
            let k = format!("{:?}|{:?}", change.family, e);
            if let Some(a) = &change.attrs {
                pm.insert(k, (change.family, e.clone(), change.nexthop, attr_view(a)));
            } else {
                pm.remove(&k);
            }
        }
        let again = change_of(ch).unwrap();
        catch(|| snap.apply(again)).map_err(|p| p.into_failure("apply_snapshot"))?;
    }
    // the live messages through one codec, judged by the stream oracle
    {
        let mut codec = bmp::BmpCodec::new();
        for (i, (spec, msg)) in bmp_msgs.iter().enumerate() {
            let mut buf = BytesMut::new();
            let MonMsg::Route { update, .. } = spec else { unreachable!() };
            let (_, n, big) = update_weight(update);
            match catch(|| codec.encode(msg, &mut buf)) {
                Err(p) => return Err(p.into_failure("BmpCodec::encode").with("msg", "route-monitoring").with("big_attrs", big).with("entries_gt_0", n > 0)),
                Ok(_) => {}
            }
            let _ = i;
        }
    }
    // flush one peer
    if !c.changes.is_empty() {
        let ch = &c.changes[pick_idx(c.flush, c.changes.len())];
        let addr = ch.peer.ip();
        let header = header_of(&ch.peer, 0);
        let msgs = catch(|| snap.flush(addr, &header, 0)).map_err(|p| p.into_failure("flush_peer_snapshot"))?;
        let want = model.remove(&addr.to_string()).unwrap_or_default();
        let mut seen: BTreeMap<String, usize> = BTreeMap::new();
        let mut eors: Vec<Family> = Vec::new();
        let mut families: Vec<Family> = Vec::new();
        let mut eor_started = false;
        for m in &msgs {
            let bmp::Message::RouteMonitoring { update, .. } = m else {
                return Err(Failure::new("conv-bmp", "flush_peer_snapshot produced a message that is not route monitoring"));
            };
            match update {
                Message::Update(Update::Reach { family, entries, nexthop, attr }) => {
                    if eor_started {
                        return Err(Failure::new("conv-bmp", "flush_peer_snapshot: a route follows an end-of-rib marker"));
                    }
                    for e in entries {
                        let k = format!("{family:?}|{e:?}");
                        *seen.entry(k.clone()).or_default() += 1;
                        match want.get(&k) {
                            Some((_, _, nh, av)) if nh == nexthop && *av == attr_view(attr) => {}
                            other => return Err(Failure::new("conv-bmp", format!("flush_peer_snapshot announces {k} with next hop {nexthop:?}; the net state holds {other:?}"))),
                        }
                    }
                    if !families.contains(family) {
                        families.push(*family);
                    }
                }
                Message::Update(Update::EndOfRib(f)) => {
                    eor_started = true;
                    eors.push(*f);
                }
                other => return Err(Failure::new("conv-bmp", format!("flush_peer_snapshot produced {}", msg_str(other)))),
            }
        }
        if seen.len() != want.len() || seen.values().any(|n| *n != 1) {
            return Err(Failure::new("conv-bmp", format!("flush_peer_snapshot announces {} distinct routes ({} announced more than once); the net state of the peer holds {}", seen.len(), seen.values().filter(|n| **n > 1).count(), want.len())));
        }
        families.sort_by_key(|f| family_idx(*f));
        eors.sort_by_key(|f| family_idx(*f));
        if families != eors {
            return Err(Failure::new("conv-bmp", format!("flush_peer_snapshot: end-of-rib markers for {eors:?}, routes for {families:?}")));
        }
        info.nontrivial |= want.len() >= 2 || c.changes.iter().any(|x| matches!(x.update, MsgSpec::Unreach { .. }));
        info.classes.push("snapshot-flush");
    }
    Ok(info)
}

// ---------------------------------------------------------------------------
// generators
// ---------------------------------------------------------------------------

fn arb_peer() -> impl Strategy<Value = PeerSpec> {
    (any::<bool>(), 1u32..0x00ff_ffff, prop_oneof![Just(65001u32), Just(4_200_000_001u32), 1u32..70000], any::<u32>(), any::<u32>()).prop_map(|(v6, addr, asn, id, ts)| PeerSpec { v6, addr, asn, id, ts })
}

fn arb_update(max_count: u16) -> impl Strategy<Value = MsgSpec> {
    (0u8..19).prop_flat_map(move |f| arb_msg_for(f, false, max_count)).prop_map(|m| match m {
        // monitoring carries what peers sent: the pad may exceed one standard frame
        MsgSpec::Reach { fam, first, count, path_id, nh, attrs, pad_communities } => MsgSpec::Reach { fam, first, count, path_id, nh, attrs, pad_communities },
        other => other,
    })
    .prop_map(nonempty)
}

/// a monitored change always names at least one prefix
fn nonempty(m: MsgSpec) -> MsgSpec {
    match m {
        MsgSpec::Reach { fam, first, count, path_id, nh, attrs, pad_communities } => MsgSpec::Reach { fam, first, count: count.max(1), path_id, nh, attrs, pad_communities },
        MsgSpec::Unreach { fam, first, count, path_id } => MsgSpec::Unreach { fam, first, count: count.max(1), path_id },
        other => other,
    }
}

fn arb_open() -> impl Strategy<Value = OpenSpec> {
    (prop_oneof![Just(65001u32), Just(4_200_000_001u32), Just(64999u32)], prop_oneof![Just(0u16), Just(3), Just(90), Just(65535)], 1u32..0xdfff_ffff, arb_caps(8)).prop_map(|(asn, hold, id, mut caps)| {
        if asn > 65535 || caps.as4.is_some() {
            caps.as4 = Some(asn);
        }
        OpenSpec { asn, hold, id, caps }
    })
}

fn arb_mon_msg(max_count: u16) -> impl Strategy<Value = MonMsg> {
    prop_oneof![
        8 => (arb_peer(), 0u8..5, arb_update(max_count), any::<bool>()).prop_map(|(peer, kind, update, addpath)| MonMsg::Route { peer, kind, update, addpath }),
        2 => (arb_peer(), 1u32..0xffffff, any::<u16>(), any::<u16>(), arb_open(), arb_open()).prop_map(|(peer, local, lport, rport, sent, received)| MonMsg::PeerUp { peer, local, lport, rport, sent, received }),
        2 => (arb_peer(), 0u8..5, 1u8..7, 0u8..12, proptest::collection::vec(any::<u8>(), 0..20), any::<u16>()).prop_map(|(peer, reason, code, sub, data, fsm)| MonMsg::PeerDown { peer, reason, code, sub, data, fsm }),
        1 => proptest::collection::vec((0u16..4, proptest::collection::vec(any::<u8>(), 0..40)), 0..3).prop_map(MonMsg::Initiation),
    ]
}

pub fn arb_stream(max_count: u16) -> impl Strategy<Value = StreamCase> {
    // a shared peer and family make consecutive messages interact through the codec state
    (proptest::collection::vec(arb_mon_msg(max_count), 1..6), arb_peer(), 0u8..19, any::<bool>()).prop_map(|(mut msgs, peer, fam, share)| {
        if share {
            for m in msgs.iter_mut() {
                if let MonMsg::Route { peer: p, .. } = m {
                    *p = peer.clone();
                }
            }
        }
        let _ = fam;
        StreamCase { msgs }
    })
}

/// sequences in which the same family is monitored with add-path on and off
pub fn arb_stream_addpath(max_count: u16) -> impl Strategy<Value = StreamCase> {
    (0u8..19, arb_peer(), proptest::collection::vec((any::<bool>(), 0u8..5), 2..5)).prop_flat_map(move |(fam, peer, flips)| {
        let n = flips.len();
        (proptest::collection::vec(arb_msg_for(fam, false, max_count.min(40)).prop_map(nonempty), n..=n), Just(peer), Just(flips)).prop_map(|(ups, peer, flips)| StreamCase { msgs: ups.into_iter().zip(flips).map(|(update, (addpath, kind))| MonMsg::Route { peer: peer.clone(), kind, update, addpath }).collect() })
    })
}

pub fn arb_mrt(max_count: u16) -> impl Strategy<Value = MrtCase> {
    prop_oneof![
        2 => proptest::collection::vec((arb_peer(), 1u32..0xffffff, 1u32..70000, arb_update(max_count), any::<bool>()).prop_map(|(peer, local, local_asn, update, addpath)| MrtMsg { peer, local, local_asn, update, addpath }), 1..5).prop_map(|msgs| MrtCase { msgs }),
        1 => (0u8..19, arb_peer(), proptest::collection::vec(any::<bool>(), 2..5)).prop_flat_map(move |(fam, peer, flips)| {
            let n = flips.len();
            (proptest::collection::vec(arb_msg_for(fam, false, 40).prop_map(nonempty), n..=n), Just(peer), Just(flips)).prop_map(|(ups, peer, flips)| MrtCase { msgs: ups.into_iter().zip(flips).map(|(update, addpath)| MrtMsg { peer: peer.clone(), local: 9, local_asn: 65000, update, addpath }).collect() })
        }),
    ]
}

pub fn arb_dump() -> impl Strategy<Value = DumpCase> {
    (any::<u32>(), proptest::collection::vec(arb_peer(), 0..5)).prop_flat_map(|(router_id, peers)| {
        let np = peers.len().max(1) as u16;
        let entry = move |v6: bool| (0u16..np + 1, any::<u32>(), if v6 { arb_nh(Family::IPV6, false) } else { arb_nh(Family::IPV4, true) }, arb_wire_attrs(), prop_oneof![8 => Just(0u16), 2 => 0u16..64, 1 => 900u16..1010, 1 => 14000u16..15000]).prop_map(|(peer_index, originated, nh, attrs, pad_communities)| DumpEntry { peer_index, originated, nh, attrs, pad_communities });
        let rib = any::<bool>().prop_flat_map(move |v6| (Just(v6), any::<u32>(), arb_nlri(if v6 { Family::IPV6 } else { Family::IPV4 }), proptest::collection::vec(entry(v6), 0..6)));
        (Just(router_id), Just(peers), proptest::collection::vec(rib, 0..5)).prop_map(|(router_id, peers, ribs)| DumpCase { router_id, peers, ribs })
    })
}

pub fn arb_conv(max_count: u16) -> impl Strategy<Value = ConvCase> {
    (proptest::collection::vec(arb_peer(), 1..3), 0u8..19).prop_flat_map(move |(peers, fam)| {
        let np = peers.len();
        let peers2 = peers.clone();
        (proptest::collection::vec((0..np, 1u32..0xffffff, prop_oneof![3 => arb_msg_for(fam, false, max_count.min(12)).prop_map(nonempty).boxed(), 1 => arb_update(max_count).boxed()], any::<bool>()), 1..7), any::<u16>()).prop_map(move |(chs, flush)| ConvCase {
            changes: chs.into_iter().map(|(pi, local, update, addpath)| ChangeSpec { peer: peers2[pi].clone(), local, update, addpath }).collect(),
            flush,
        })
    })
}

// ---------------------------------------------------------------------------
// the daemon's TABLE_DUMP_V2 writer (daemon/src/mrt.rs dump_table) over a RIB built by a
// TableManager history: peer index table and RIB records read back with the independent
// reader and compared with the RIB's ranked paths
// ---------------------------------------------------------------------------

pub const DAEMON_DUMP_RULE: &str = "daemon-table-dump: a TableManager history (inserts / removes / peer loss / stale marking / import-policy soft reset / next-hop reports over 3 peers, IPv4 and IPv6 prefixes, 2 path ids) followed by the daemon's dump_table into a scratch file; read back with the independent MRT reader: first record = peer index table (collector id, every peer once, identifier / address / AS of a source in the RIB); then one RIB record per prefix that has exportable paths, sequence numbers 0.. per subtype, entries in the RIB's ranking order; each entry's peer index names the peer its path came from, and its prefix, next hop and attributes re-parse (RFC 6396 abbreviated MP_REACH re-expanded) to the path's. non-trivial := some prefix has paths from two peers";

#[derive(Clone, Debug, Serialize, Deserialize)]
pub struct DaemonDumpCase {
    pub ops: Vec<crate::props::tmrig::TmOp>,
}

static DUMP_SEQ: std::sync::atomic::AtomicU64 = std::sync::atomic::AtomicU64::new(0);

pub fn check_daemon_dump(c: &DaemonDumpCase) -> CheckResult {
    use crate::props::tmrig::Rig;
    let rig = Rig::new(false);
    for op in &c.ops {
        rig.apply(op);
    }
    let router_id = Ipv4Addr::new(1, 0, 0, 1);
    let path = std::env::temp_dir().join(format!("rbverif-dump-{}-{}.mrt", std::process::id(), DUMP_SEQ.fetch_add(1, std::sync::atomic::Ordering::Relaxed)));
    let rt = tokio::runtime::Builder::new_current_thread().enable_all().build().map_err(|e| Failure::new("harness", e.to_string()))?;
    let tm = rig.tm.clone();
    let bytes = rt.block_on(crate::mrt::verif::dump(router_id, &tm, &path));
    let _ = std::fs::remove_file(&path);
    let bytes = bytes.map_err(|e| Failure::new("mrt-framing", format!("dump_table failed: {e}")).with("msg", "daemon-dump"))?;
    let recs = mon::read_mrt(&bytes).map_err(|e| Failure::new("mrt-framing", format!("table dump: {e}")).with("msg", "daemon-dump"))?;
    let truth: Vec<(bool, Vec<table::NlriChange>)> = vec![(false, tm.collect_loc_rib_paths(Family::IPV4)), (true, tm.collect_loc_rib_paths(Family::IPV6))];
    let Some((_, MrtRecord::PeerIndex { collector, view: _, peers })) = recs.first() else {
        return Err(Failure::new("mrt-framing", format!("first record is {:?}", recs.first())).with("msg", "daemon-dump"));
    };
    if *collector != router_id {
        return Err(Failure::new("mrt-header", format!("collector identifier {collector}, the speaker's is {router_id}")).with("msg", "peer-index"));
    }
    let mut seen = std::collections::BTreeSet::new();
    for (_, addr, _) in peers {
        if !seen.insert(*addr) {
            return Err(Failure::new("mrt-header", format!("peer {addr} is listed twice in the peer index table {peers:?}")).with("msg", "peer-index"));
        }
    }
    let mut info = CaseInfo::trivial();
    let mut it = recs[1..].iter();
    for (v6, changes) in &truth {
        let mut seq = 0u32;
        for ch in changes {
            if ch.current_paths.is_empty() {
                continue;
            }
            let Some((_, MrtRecord::Rib { v6: gv6, seq: gseq, prefix_len, prefix: pb, entries })) = it.next() else {
                return Err(Failure::new("mrt-framing", format!("no RIB record for {:?} (the dump ends early or holds another record type)", ch.net)).with("msg", "daemon-dump"));
            };
            if gv6 != v6 || *gseq != seq {
                return Err(Failure::new("mrt-header", format!("RIB record for {:?}: subtype/sequence ({gv6},{gseq}), expected ({v6},{seq})", ch.net)).with("msg", "rib"));
            }
            seq += 1;
            if entries.len() != ch.current_paths.len() {
                return Err(Failure::new("mrt-header", format!("RIB record for {:?} holds {} entries, the RIB has {} exportable paths", ch.net, entries.len(), ch.current_paths.len())).with("msg", "rib"));
            }
            let npeers: std::collections::BTreeSet<IpAddr> = ch.current_paths.iter().map(|p| p.source.remote_addr).collect();
            if npeers.len() >= 2 {
                info.nontrivial = true;
                info.classes.push("prefix-with-paths-of-two-peers");
            }
            for (k, (e, p)) in entries.iter().zip(ch.current_paths.iter()).enumerate() {
                let Some(peer) = peers.get(e.peer_index as usize) else {
                    return Err(Failure::new("mrt-header", format!("RIB entry {k} of {:?}: peer index {} is outside the peer index table ({} peers)", ch.net, e.peer_index, peers.len())).with("msg", "rib"));
                };
                let want = (Ipv4Addr::from(p.source.router_id), p.source.remote_addr, p.source.remote_asn);
                if *peer != want {
                    return Err(Failure::new("mrt-peer", format!("RIB entry {k} of {:?}: peer index {} names {peer:?}, the path was learned from {want:?}", ch.net, e.peer_index)).with("msg", "rib"));
                }
                let (gnh, gattrs, nlris) = reparse_entry(*v6, *prefix_len, pb, &e.attrs).map_err(|m| Failure::new("mrt-embedded", format!("RIB entry {k} of {:?}: {m}", ch.net)).with("why", "unparsable"))?;
                if nlris != vec![ch.net.clone()] {
                    return Err(Failure::new("mrt-embedded", format!("RIB record prefix reads back as {nlris:?}, the RIB's is {:?}", ch.net)).with("why", "prefix"));
                }
                if p.nexthop.is_some() && gnh != p.nexthop {
                    return Err(Failure::new("mrt-embedded", format!("RIB entry {k} of {:?}: next hop reads back as {gnh:?}, the path's is {:?}", ch.net, p.nexthop)).with("why", "nexthop"));
                }
                if gattrs != attr_view(&p.attr) {
                    return Err(Failure::new("mrt-embedded", format!("RIB entry {k} of {:?}: attributes read back as {gattrs:?}, the path's are {:?}", ch.net, attr_view(&p.attr))).with("why", "attrs"));
                }
            }
            info.classes.push(if *v6 { "daemon-rib-ipv6" } else { "daemon-rib-ipv4" });
        }
    }
    if let Some(extra) = it.next() {
        return Err(Failure::new("mrt-framing", format!("the dump holds a record the RIB does not account for: {extra:?}")).with("msg", "daemon-dump"));
    }
    Ok(info)
}

fn arb_daemon_dump() -> impl Strategy<Value = DaemonDumpCase> {
    use crate::props::tmrig::TmOp;
    let op = prop_oneof![
        12 => (0u8..3, 0u8..8, 0u8..2, 0u8..6, 0u8..3).prop_map(|(peer, prefix, path_id, attrs, nh)| TmOp::Insert { peer, prefix, path_id, attrs, nh }),
        3 => (0u8..3, 0u8..8, 0u8..2).prop_map(|(peer, prefix, path_id)| TmOp::Remove { peer, prefix, path_id }),
        1 => (0u8..3).prop_map(|peer| TmOp::DropPeer { peer }),
        1 => (0u8..3).prop_map(|peer| TmOp::MarkStale { peer }),
        1 => (0u8..3, 0u8..3).prop_map(|(peer, policy)| TmOp::SoftResetIn { peer, policy }),
        1 => (0u8..3, any::<bool>()).prop_map(|(nh, reachable)| TmOp::NhReach { nh, reachable }),
    ];
    proptest::collection::vec(op, 1..24).prop_map(|ops| DaemonDumpCase { ops })
}

pub fn run(r: &Run) {
    r.set_rule(RULE);
    r.assume("monitored sessions have local and remote addresses of one address family (they are the two ends of one TCP connection)");
    r.assume("monitored updates are what a peer can send: any family, up to the extended-message size, next hops natural for the family");
    r.prop("bmp-stream", r.tier.pick(20_000, 600_000), || arb_stream(2500), check_bmp);
    r.prop("bmp-addpath-flips", r.tier.pick(10_000, 300_000), || arb_stream_addpath(40), check_bmp);
    r.prop("mrt-stream", r.tier.pick(15_000, 500_000), || arb_mrt(2500), check_mrt);
    r.prop("table-dump", r.tier.pick(15_000, 400_000), arb_dump, check_dump);
    r.prop("converters", r.tier.pick(10_000, 300_000), || arb_conv(r.tier.pick(600, 2500)), check_conv);
    r.assume(DAEMON_DUMP_RULE);
    r.prop("daemon-table-dump", r.tier.pick(6_000, 200_000), arb_daemon_dump, check_daemon_dump);
    // the records BmpClient::serve writes for real sessions (shared with C18): per-peer headers, Peer Up OPENs and
    // the Add-Path setting of each record are the daemon's, not generated
    r.assume(crate::props::c18e::RULE);
    r.slow(|| r.prop("bmp-station", r.tier.pick(1_500, 50_000), || crate::props::c18e::arb_case(r.tier.pick(16, 28)), crate::props::c18e::check));
}

pub fn replay(sub: &str, case: &Value) -> Result<CheckResult, String> {
    match sub {
        "bmp-stream" | "bmp-addpath-flips" => Ok(check_bmp(&decode_case(case)?)),
        "mrt-stream" => Ok(check_mrt(&decode_case(case)?)),
        "table-dump" => Ok(check_dump(&decode_case(case)?)),
        "converters" => Ok(check_conv(&decode_case(case)?)),
        "daemon-table-dump" => Ok(check_daemon_dump(&decode_case(case)?)),
        "bmp-station" => crate::props::c18e::replay(case),
        _ => Err(format!("unknown sub-check {sub}")),
    }
}
