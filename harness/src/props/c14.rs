//! C14 — routing policy evaluates as specified and can never crash on a route.
//!
//! (A) `eval`: a generated policy *program* (defined sets, statements, policies, an
//!     assignment) is loaded through the real `PolicyTable` API and evaluated on a
//!     generated route; a reference interpreter working on the config AST computes the
//!     expected disposition, attributes and next hop.
//! (B) `crud`: histories of add / replace / delete on sets, statements, policies and
//!     assignments; result classes are compared with a model, and after every step the
//!     referential invariant (every reference resolves to the object the table lists
//!     under that name) and "a live assignment evaluates the same before and after any
//!     successful call that did not target it" are checked.

use crate::cgen::*;
use crate::common::*;
use proptest::prelude::*;
use rustybgp_packet as packet;
use rustybgp_packet::bgp;
use rustybgp_table as table;
use serde::{Deserialize, Serialize};
use serde_json::Value;
use std::net::{IpAddr, Ipv4Addr};
use std::sync::Arc;
use table::{Actions, Comparison, ConditionConfig, DefinedSetConfig, Disposition, MatchOption, PolicyDirection, PolicyTable, PrefixConfig, TableError};

pub const RULE: &str = "cases: (A) a policy program over small defined sets (prefix sets with nested / overlapping / default-route entries and length ranges, neighbor sets, AS-path sets in the single-AS forms and ranges, community sets as N:M / integer / well-known name / regex, ext- and large-community sets), 1-4 statements with 0-3 conditions of different kinds and ANY/ALL/INVERT where legal, optional disposition, 0-3 actions, 1-2 policies, import or export assignment with a default; and a route (prefix from the same tree, attributes incl. AS_PATHs with every segment type and empty segments, peer, next hop, iBGP/eBGP/local source). \
Oracle: a reference interpreter over the configuration (statements in order, all conditions must hold, a prefix entry matches iff it covers the route prefix and the length is within its range - any entry, ANY/ALL/INVERT as named, first non-pass disposition wins, actions of passed statements accumulate); compared: disposition, next hop, every attribute. No panic in either arithmetic profile. \
(B) CRUD histories: result class (ok / not-found / still-in-use / invalid) vs model, referential integrity after every step, unchanged evaluation of a live assignment across unrelated successful calls. \
non-trivial := >= 2 statements with a passed action-carrying statement before the deciding one, or the route lies under two nested prefix entries, or the AS_PATH has a non-SEQUENCE or empty segment, or (B) a rejected delete of a referenced object; distinct := distinct serialized case";

// ---------------------------------------------------------------------------
// program AST
// ---------------------------------------------------------------------------

#[derive(Clone, Debug, Serialize, Deserialize, PartialEq)]
pub enum Opt {
    Any,
    All,
    Invert,
}

impl Opt {
    fn real(&self) -> MatchOption {
        match self {
            Opt::Any => MatchOption::Any,
            Opt::All => MatchOption::All,
            Opt::Invert => MatchOption::Invert,
        }
    }
}

#[derive(Clone, Debug, Serialize, Deserialize, PartialEq)]
pub enum AsPat {
    Include(u32),
    LeftMost(u32),
    Origin(u32),
    Only(u32),
    RangeInclude(u32, u32),
    RangeLeftMost(u32, u32),
    RangeOrigin(u32, u32),
    RangeOnly(u32, u32),
}

impl AsPat {
    fn text(&self) -> String {
        match self {
            AsPat::Include(v) => format!("_{v}_"),
            AsPat::LeftMost(v) => format!("^{v}_"),
            AsPat::Origin(v) => format!("_{v}$"),
            AsPat::Only(v) => format!("^{v}$"),
            AsPat::RangeInclude(a, b) => format!("_{a}-{b}_"),
            AsPat::RangeLeftMost(a, b) => format!("^{a}-{b}_"),
            AsPat::RangeOrigin(a, b) => format!("_{a}-{b}$"),
            AsPat::RangeOnly(a, b) => format!("^{a}-{b}$"),
        }
    }
}

#[derive(Clone, Debug, Serialize, Deserialize, PartialEq)]
pub enum CommPat {
    Exact(u32),
    Int(u32),
    WellKnown(u8),
    /// "^<hi>:.*$"
    HighRegex(u16),
}

const WELL_KNOWN: [(&str, u32); 4] = [("no-export", 0xffff_ff01), ("no-advertise", 0xffff_ff02), ("llgr-stale", 0xffff_0006), ("blackhole", 0xffff_029a)];

impl CommPat {
    fn text(&self) -> String {
        match self {
            CommPat::Exact(c) => format!("{}:{}", c >> 16, c & 0xffff),
            CommPat::Int(c) => format!("{c}"),
            CommPat::WellKnown(k) => WELL_KNOWN[*k as usize % 4].0.to_string(),
            CommPat::HighRegex(h) => format!("^{h}:.*$"),
        }
    }
    fn matches(&self, c: u32) -> bool {
        match self {
            CommPat::Exact(x) | CommPat::Int(x) => *x == c,
            CommPat::WellKnown(k) => WELL_KNOWN[*k as usize % 4].1 == c,
            CommPat::HighRegex(h) => (c >> 16) as u16 == *h,
        }
    }
}

#[derive(Clone, Debug, Serialize, Deserialize, PartialEq)]
pub enum Cond {
    PrefixSet(u8, Opt),
    NeighborSet(u8, Opt),
    AsPathSet(u8, Opt),
    CommunitySet(u8, Opt),
    ExtCommunitySet(u8, Opt),
    LargeCommunitySet(u8, Opt),
    AsPathLength(u8, u32),
    Nexthop(Vec<u8>),
    LocalPrefEq(u32),
    MedEq(u32),
    Origin(u8),
    RouteType(u8),
    CommunityCount(u8, u32),
    AfiSafiIn(Vec<u8>),
}

impl Cond {
    fn kind(&self) -> u8 {
        match self {
            Cond::PrefixSet(..) => 0,
            Cond::NeighborSet(..) => 1,
            Cond::AsPathSet(..) => 2,
            Cond::CommunitySet(..) => 3,
            Cond::ExtCommunitySet(..) => 4,
            Cond::LargeCommunitySet(..) => 5,
            Cond::AsPathLength(..) => 6,
            Cond::Nexthop(..) => 7,
            Cond::LocalPrefEq(..) => 8,
            Cond::MedEq(..) => 9,
            Cond::Origin(..) => 10,
            Cond::RouteType(..) => 11,
            Cond::CommunityCount(..) => 12,
            Cond::AfiSafiIn(..) => 13,
        }
    }
}

#[derive(Clone, Debug, Default, Serialize, Deserialize, PartialEq)]
pub struct Act {
    /// 0 address(k) 1 self 2 peer-address 3 unchanged
    pub nexthop: Option<(u8, u8)>,
    /// (0 add / 1 remove / 2 replace, values)
    pub community: Option<(u8, Vec<u32>)>,
    pub local_pref: Option<u32>,
    /// (mod?, value)
    pub med: Option<(bool, i64)>,
    /// (asn, repeat, use_left_most)
    pub as_prepend: Option<(u32, u8, bool)>,
    pub ext_community: Option<(u8, Vec<u64>)>,
    pub large_community: Option<(u8, Vec<(u32, u32, u32)>)>,
    pub origin: Option<u8>,
}

#[derive(Clone, Debug, Serialize, Deserialize, PartialEq)]
pub struct Stmt {
    pub conds: Vec<Cond>,
    /// None / Some(true)=accept / Some(false)=reject
    pub disp: Option<bool>,
    pub act: Act,
}

#[derive(Clone, Debug, Serialize, Deserialize)]
pub struct Program {
    /// (prefix idx into the tree, min, max)
    pub prefix_sets: Vec<Vec<(u8, u8, u8)>>,
    pub neighbor_sets: Vec<Vec<u8>>,
    pub aspath_sets: Vec<Vec<AsPat>>,
    pub comm_sets: Vec<Vec<CommPat>>,
    pub ext_sets: Vec<Vec<u64>>,
    pub large_sets: Vec<Vec<(u32, u32, u32)>>,
    pub stmts: Vec<Stmt>,
    pub policies: Vec<Vec<u8>>,
    pub assign: Vec<u8>,
    pub default_accept: bool,
    pub export: bool,
    pub is_confed: bool,
}

#[derive(Clone, Debug, Serialize, Deserialize)]
pub struct Route {
    pub prefix: u8,
    pub attrs: AttrSpec,
    pub peer: u8,
    pub nh: u8,
    /// 0 eBGP, 1 iBGP, 2 local
    pub src: u8,
}

#[derive(Clone, Debug, Serialize, Deserialize)]
pub struct Case {
    pub prog: Program,
    pub route: Route,
}

// the prefix tree: nested, sibling and default entries, v4 and v6
const TREE: [(&str, u8); 12] = [
    ("0.0.0.0", 0),
    ("10.0.0.0", 8),
    ("10.1.0.0", 16),
    ("10.1.2.0", 24),
    ("10.1.2.128", 25),
    ("10.2.0.0", 15),
    ("10.1.3.0", 24),
    ("192.168.0.0", 16),
    ("::", 0),
    ("2001:db8::", 32),
    ("2001:db8:1::", 48),
    ("2001:db8:1:2::", 64),
];

fn tree_net(i: u8) -> (IpAddr, u8) {
    let (a, l) = TREE[i as usize % TREE.len()];
    (a.parse().unwrap(), l)
}

fn tree_nlri(i: u8) -> packet::Nlri {
    let (a, l) = tree_net(i);
    match a {
        IpAddr::V4(a) => packet::Nlri::V4(bgp::Ipv4Net { addr: a, mask: l }),
        IpAddr::V6(a) => packet::Nlri::V6(bgp::Ipv6Net { addr: a, mask: l }),
    }
}

fn covers(entry: u8, route: u8) -> bool {
    let (ea, el) = tree_net(entry);
    let (ra, rl) = tree_net(route);
    match (ea, ra) {
        (IpAddr::V4(e), IpAddr::V4(r)) => el <= rl && (el == 0 || (u32::from(e) >> (32 - el as u32)) == (u32::from(r) >> (32 - el as u32))),
        (IpAddr::V6(e), IpAddr::V6(r)) => el <= rl && (el == 0 || (u128::from(e) >> (128 - el as u32)) == (u128::from(r) >> (128 - el as u32))),
        _ => false,
    }
}

fn peer_ip(k: u8) -> IpAddr {
    IpAddr::V4(Ipv4Addr::new(10, 0, 0, 1 + k % 4))
}

fn nh_ip(k: u8) -> IpAddr {
    IpAddr::V4(Ipv4Addr::new(192, 168, 0, 1 + k % 4))
}

const LOCAL_ADDR: IpAddr = IpAddr::V4(Ipv4Addr::new(10, 0, 0, 254));

fn ext_text(v: u64) -> String {
    // two-octet-AS route target: rt:<asn>:<local>
    format!("rt:{}:{}", (v >> 32) & 0xffff, v & 0xffff_ffff)
}

fn ext_bytes(v: u64) -> [u8; 8] {
    let mut b = [0u8; 8];
    b[0] = 0x00;
    b[1] = 0x02;
    b[2..4].copy_from_slice(&(((v >> 32) & 0xffff) as u16).to_be_bytes());
    b[4..8].copy_from_slice(&((v & 0xffff_ffff) as u32).to_be_bytes());
    b
}

fn cmp_of(k: u8) -> Comparison {
    match k % 3 {
        0 => Comparison::Eq,
        1 => Comparison::Ge,
        _ => Comparison::Le,
    }
}

fn cmp_eval(k: u8, a: u32, b: u32) -> bool {
    match k % 3 {
        0 => a == b,
        1 => a >= b,
        _ => a <= b,
    }
}

const FAMS: [bgp::Family; 3] = [bgp::Family::IPV4, bgp::Family::IPV6, bgp::Family::L2VPN_EVPN];

// ---------------------------------------------------------------------------
// loading a program into the real PolicyTable
// ---------------------------------------------------------------------------

fn cond_cfg(c: &Cond) -> ConditionConfig {
    match c {
        Cond::PrefixSet(i, o) => ConditionConfig::PrefixSet(format!("ps{i}"), o.real()),
        Cond::NeighborSet(i, o) => ConditionConfig::NeighborSet(format!("ns{i}"), o.real()),
        Cond::AsPathSet(i, o) => ConditionConfig::AsPathSet(format!("as{i}"), o.real()),
        Cond::CommunitySet(i, o) => ConditionConfig::CommunitySet(format!("cs{i}"), o.real()),
        Cond::ExtCommunitySet(i, o) => ConditionConfig::ExtCommunitySet(format!("es{i}"), o.real()),
        Cond::LargeCommunitySet(i, o) => ConditionConfig::LargeCommunitySet(format!("ls{i}"), o.real()),
        Cond::AsPathLength(k, v) => ConditionConfig::AsPathLength(cmp_of(*k), *v),
        Cond::Nexthop(v) => ConditionConfig::Nexthop(v.iter().map(|k| nh_ip(*k)).collect()),
        Cond::LocalPrefEq(v) => ConditionConfig::LocalPrefEq(*v),
        Cond::MedEq(v) => ConditionConfig::MedEq(*v),
        Cond::Origin(v) => ConditionConfig::Origin(*v % 3),
        Cond::RouteType(k) => ConditionConfig::RouteType(match k % 3 {
            0 => table::RouteType::External,
            1 => table::RouteType::Internal,
            _ => table::RouteType::Local,
        }),
        Cond::CommunityCount(k, v) => ConditionConfig::CommunityCount(cmp_of(*k), *v),
        Cond::AfiSafiIn(v) => ConditionConfig::AfiSafiIn(v.iter().map(|k| FAMS[*k as usize % 3]).collect()),
    }
}

fn act_real(a: &Act) -> Actions {
    let ct = |k: u8| match k % 3 {
        0 => table::CommunityActionType::Add,
        1 => table::CommunityActionType::Remove,
        _ => table::CommunityActionType::Replace,
    };
    Actions {
        nexthop: a.nexthop.map(|(k, x)| match k % 4 {
            0 => table::NexthopAction::Address(nh_ip(x)),
            1 => table::NexthopAction::PeerSelf,
            2 => table::NexthopAction::PeerAddress,
            _ => table::NexthopAction::Unchanged,
        }),
        community: a.community.as_ref().map(|(k, v)| table::CommunityAction { action_type: ct(*k), communities: v.clone() }),
        local_pref: a.local_pref.map(|v| table::LocalPrefAction { value: v }),
        med: a.med.map(|(m, v)| table::MedAction { action_type: if m { table::MedActionType::Mod } else { table::MedActionType::Replace }, value: v }),
        as_prepend: a.as_prepend.map(|(asn, n, l)| table::AsPrependAction { asn, repeat: n as u32, use_left_most: l }),
        ext_community: a.ext_community.as_ref().map(|(k, v)| table::ExtCommunityAction { action_type: ct(*k), communities: v.iter().map(|x| ext_bytes(*x)).collect() }),
        large_community: a.large_community.as_ref().map(|(k, v)| table::LargeCommunityAction { action_type: ct(*k), communities: v.clone() }),
        origin: a.origin.map(|o| table::OriginAction { origin: o % 3 }),
    }
}

fn set_cfgs(p: &Program) -> Vec<DefinedSetConfig> {
    let mut v = Vec::new();
    for (i, s) in p.prefix_sets.iter().enumerate() {
        v.push(DefinedSetConfig::Prefix {
            name: format!("ps{i}"),
            prefixes: s.iter().map(|(k, min, max)| {
                let (a, l) = tree_net(*k);
                PrefixConfig { ip_prefix: format!("{a}/{l}"), mask_length_min: *min, mask_length_max: *max }
            }).collect(),
        });
    }
    for (i, s) in p.neighbor_sets.iter().enumerate() {
        v.push(DefinedSetConfig::Neighbor { name: format!("ns{i}"), neighbors: s.iter().map(|k| format!("{}/32", peer_ip(*k))).collect() });
    }
    for (i, s) in p.aspath_sets.iter().enumerate() {
        v.push(DefinedSetConfig::AsPath { name: format!("as{i}"), patterns: s.iter().map(|x| x.text()).collect() });
    }
    for (i, s) in p.comm_sets.iter().enumerate() {
        v.push(DefinedSetConfig::Community { name: format!("cs{i}"), patterns: s.iter().map(|x| x.text()).collect() });
    }
    for (i, s) in p.ext_sets.iter().enumerate() {
        v.push(DefinedSetConfig::ExtCommunity { name: format!("es{i}"), patterns: s.iter().map(|x| format!("^{}$", ext_text(*x))).collect() });
    }
    for (i, s) in p.large_sets.iter().enumerate() {
        v.push(DefinedSetConfig::LargeCommunity { name: format!("ls{i}"), patterns: s.iter().map(|(a, b, c)| format!("^{a}:{b}:{c}$")).collect() });
    }
    v
}

pub(crate) fn load(p: &Program) -> Result<(PolicyTable, Arc<table::PolicyAssignment>), String> {
    let mut t = PolicyTable::new();
    for cfg in set_cfgs(p) {
        t.add_defined_set(cfg).map_err(|e| format!("add_defined_set: {e:?}"))?;
    }
    for (i, s) in p.stmts.iter().enumerate() {
        let disp = s.disp.map(|a| if a { Disposition::Accept } else { Disposition::Reject });
        t.add_statement(&format!("st{i}"), s.conds.iter().map(cond_cfg).collect(), disp, act_real(&s.act)).map_err(|e| format!("add_statement st{i}: {e:?}"))?;
    }
    for (i, pol) in p.policies.iter().enumerate() {
        t.add_policy(&format!("pol{i}"), pol.iter().map(|k| format!("st{}", *k as usize % p.stmts.len())).collect()).map_err(|e| format!("add_policy: {e:?}"))?;
    }
    let names: Vec<String> = p.assign.iter().map(|k| format!("pol{}", *k as usize % p.policies.len())).collect();
    let dir = if p.export { PolicyDirection::Export } else { PolicyDirection::Import };
    let a = t.build_assignment(None, "global", dir, if p.default_accept { Disposition::Accept } else { Disposition::Reject }, names).map_err(|e| format!("build_assignment: {e:?}"))?;
    Ok((t, a))
}

// ---------------------------------------------------------------------------
// reference interpreter
// ---------------------------------------------------------------------------

#[derive(Clone, Debug, PartialEq)]
struct MAttrs {
    origin: Option<u32>,
    segs: Option<Vec<(u8, Vec<u32>)>>,
    med: Option<u32>,
    local_pref: Option<u32>,
    communities: Vec<u32>,
    ext: Vec<[u8; 8]>,
    large: Vec<(u32, u32, u32)>,
    nexthop: Option<IpAddr>,
}

struct Amb(bool);

fn hops(segs: &[(u8, Vec<u32>)]) -> u32 {
    segs.iter().map(|(t, v)| match *t { 2 => v.len() as u32, 1 => 1, _ => 0 }).sum()
}

fn as_match(p: &AsPat, segs: &[(u8, Vec<u32>)], amb: &mut Amb) -> bool {
    let all: Vec<u32> = segs.iter().flat_map(|(_, v)| v.iter().copied()).collect();
    let inr = |a: &u32, b: &u32, x: u32| x >= *a && x <= *b;
    match p {
        AsPat::Include(v) => all.contains(v),
        AsPat::RangeInclude(a, b) => all.iter().any(|x| inr(a, b, *x)),
        AsPat::LeftMost(_) | AsPat::RangeLeftMost(..) => {
            let Some((_, first)) = segs.first() else { return false };
            if first.is_empty() {
                amb.0 = true; // "leftmost AS" with an empty leading segment is not fixed by the statement
                return false;
            }
            match p {
                AsPat::LeftMost(v) => first[0] == *v,
                AsPat::RangeLeftMost(a, b) => inr(a, b, first[0]),
                _ => unreachable!(),
            }
        }
        AsPat::Origin(_) | AsPat::RangeOrigin(..) => {
            let Some((_, last)) = segs.last() else { return false };
            if last.is_empty() {
                amb.0 = true;
                return false;
            }
            let x = *last.last().unwrap();
            match p {
                AsPat::Origin(v) => x == *v,
                AsPat::RangeOrigin(a, b) => inr(a, b, x),
                _ => unreachable!(),
            }
        }
        AsPat::Only(_) | AsPat::RangeOnly(..) => {
            if segs.iter().any(|(_, v)| v.is_empty()) {
                amb.0 = true;
            }
            if segs.len() != 1 || segs[0].1.len() != 1 {
                return false;
            }
            let x = segs[0].1[0];
            match p {
                AsPat::Only(v) => x == *v,
                AsPat::RangeOnly(a, b) => inr(a, b, x),
                _ => unreachable!(),
            }
        }
    }
}

fn opt3(opt: &Opt, per_pattern: &[bool]) -> bool {
    match opt {
        Opt::Any => per_pattern.iter().any(|b| *b),
        Opt::All => per_pattern.iter().all(|b| *b),
        Opt::Invert => !per_pattern.iter().any(|b| *b),
    }
}

fn eval_cond(c: &Cond, p: &Program, r: &Route, a: &MAttrs, amb: &mut Amb) -> bool {
    match c {
        Cond::PrefixSet(i, o) => {
            let set = &p.prefix_sets[*i as usize % p.prefix_sets.len()];
            let (_, rl) = tree_net(r.prefix);
            let m = set.iter().any(|(k, min, max)| covers(*k, r.prefix) && *min <= rl && rl <= *max);
            if *o == Opt::Invert { !m } else { m }
        }
        Cond::NeighborSet(i, o) => {
            let set = &p.neighbor_sets[*i as usize % p.neighbor_sets.len()];
            // import policy sees the source's own address (unspecified for locally originated routes)
            let peer = if !p.export && r.src % 3 == 2 { IpAddr::V4(Ipv4Addr::UNSPECIFIED) } else { peer_ip(r.peer) };
            let m = set.iter().any(|k| peer_ip(*k) == peer);
            if *o == Opt::Invert { !m } else { m }
        }
        Cond::AsPathSet(i, o) => {
            let set = &p.aspath_sets[*i as usize % p.aspath_sets.len()];
            match &a.segs {
                // no AS_PATH attribute at all: nothing can match
                None => opt3(o, &vec![false; set.len()]),
                Some(segs) => {
                    let v: Vec<bool> = set.iter().map(|pat| as_match(pat, segs, amb)).collect();
                    opt3(o, &v)
                }
            }
        }
        Cond::CommunitySet(i, o) => {
            let set = &p.comm_sets[*i as usize % p.comm_sets.len()];
            let v: Vec<bool> = set.iter().map(|pat| a.communities.iter().any(|c| pat.matches(*c))).collect();
            opt3(o, &v)
        }
        Cond::ExtCommunitySet(i, o) => {
            let set = &p.ext_sets[*i as usize % p.ext_sets.len()];
            let v: Vec<bool> = set.iter().map(|pat| a.ext.iter().any(|c| *c == ext_bytes(*pat))).collect();
            opt3(o, &v)
        }
        Cond::LargeCommunitySet(i, o) => {
            let set = &p.large_sets[*i as usize % p.large_sets.len()];
            let v: Vec<bool> = set.iter().map(|pat| a.large.contains(pat)).collect();
            opt3(o, &v)
        }
        Cond::AsPathLength(k, v) => match &a.segs {
            None => false,
            Some(s) => cmp_eval(*k, hops(s), *v),
        },
        Cond::Nexthop(v) => a.nexthop.is_some_and(|n| v.iter().any(|k| nh_ip(*k) == n)),
        Cond::LocalPrefEq(v) => a.local_pref == Some(*v),
        Cond::MedEq(v) => a.med == Some(*v),
        Cond::Origin(v) => a.origin == Some((*v % 3) as u32),
        Cond::RouteType(k) => match k % 3 {
            0 => r.src % 3 == 0,
            1 => r.src % 3 == 1,
            _ => r.src % 3 == 2,
        },
        Cond::CommunityCount(k, v) => cmp_eval(*k, a.communities.len() as u32, *v),
        Cond::AfiSafiIn(v) => {
            let fam = if matches!(tree_net(r.prefix).0, IpAddr::V4(_)) { 0 } else { 1 };
            v.iter().any(|k| *k as usize % 3 == fam)
        }
    }
}

fn list_action<T: Clone + PartialEq>(k: u8, cur: &mut Vec<T>, vals: &[T]) {
    match k % 3 {
        0 => cur.extend_from_slice(vals),
        1 => cur.retain(|c| !vals.contains(c)),
        _ => *cur = vals.to_vec(),
    }
}

fn apply_act(act: &Act, p: &Program, r: &Route, a: &mut MAttrs, original_nh: Option<IpAddr>, amb: &mut Amb) {
    if let Some((k, x)) = act.nexthop {
        match k % 4 {
            0 => a.nexthop = Some(nh_ip(x)),
            1 => a.nexthop = Some(LOCAL_ADDR),
            2 => a.nexthop = Some(peer_ip(r.peer)),
            _ => {
                if let Some(o) = original_nh {
                    a.nexthop = Some(o);
                }
            }
        }
    }
    if let Some((k, v)) = &act.community {
        list_action(*k, &mut a.communities, v);
    }
    if let Some(v) = act.local_pref {
        a.local_pref = Some(v);
    }
    if let Some((m, v)) = act.med {
        let cur = a.med.unwrap_or(0) as i64;
        a.med = Some(if m { (cur + v).clamp(0, u32::MAX as i64) as u32 } else { v.clamp(0, u32::MAX as i64) as u32 });
    }
    if let Some((asn, n, left)) = act.as_prepend
        && n > 0
    {
        let segs = a.segs.get_or_insert_with(Vec::new);
        let asn = if left {
            match segs.first() {
                Some((_, v)) if !v.is_empty() => v[0],
                Some(_) => {
                    amb.0 = true;
                    asn
                }
                None => asn,
            }
        } else {
            asn
        };
        let t = if p.is_confed && p.export { 3 } else { 2 };
        for _ in 0..n {
            segs.insert(0, (t, vec![asn]));
        }
    }
    if let Some((k, v)) = &act.ext_community {
        let vals: Vec<[u8; 8]> = v.iter().map(|x| ext_bytes(*x)).collect();
        list_action(*k, &mut a.ext, &vals);
    }
    if let Some((k, v)) = &act.large_community {
        list_action(*k, &mut a.large, v);
    }
    if let Some(o) = act.origin {
        a.origin = Some((o % 3) as u32);
    }
}

/// merge adjacent segments of the same ordered type (segmentation is not semantics)
fn norm_segs(segs: &[(u8, Vec<u32>)]) -> Vec<(u8, Vec<u32>)> {
    let mut out: Vec<(u8, Vec<u32>)> = Vec::new();
    for (t, v) in segs {
        if let Some(last) = out.last_mut()
            && last.0 == *t
            && (*t == 2 || *t == 3)
        {
            last.1.extend_from_slice(v);
            continue;
        }
        out.push((*t, v.clone()));
    }
    out
}

fn mattrs_of_spec(s: &AttrSpec, nh: Option<IpAddr>) -> MAttrs {
    MAttrs {
        origin: s.origin.map(|o| o as u32),
        segs: s.as_path.as_ref().map(|p| p.iter().map(|x| (x.t, x.asn_list())).collect()),
        med: s.med,
        local_pref: s.local_pref,
        communities: s.communities.clone(),
        ext: s.ext_communities.iter().map(|x| x.to_be_bytes()).collect(),
        large: s.large_communities.clone(),
        nexthop: nh,
    }
}

fn mattrs_of_real(attrs: &[packet::Attribute], nh: Option<bgp::Nexthop>) -> MAttrs {
    let find = |c: u8| attrs.iter().find(|a| a.code() == c);
    let segs = find(2).map(|a| bgp::AsPathIter::new(a).collect::<Vec<_>>());
    // AsPathIter loses the segment type: re-read it from the binary
    let segs = match (segs, find(2).and_then(|a| a.binary())) {
        (Some(v), Some(b)) => {
            let mut types = Vec::new();
            let mut pos = 0;
            while pos + 2 <= b.len() {
                types.push(b[pos]);
                pos += 2 + 4 * b[pos + 1] as usize;
            }
            Some(v.into_iter().zip(types).map(|(v, t)| (t, v)).collect::<Vec<_>>())
        }
        _ => None,
    };
    MAttrs {
        origin: find(1).and_then(|a| a.value()),
        segs,
        med: find(4).and_then(|a| a.value()),
        local_pref: find(5).and_then(|a| a.value()),
        communities: find(8).and_then(|a| a.binary()).map(|b| b.chunks_exact(4).map(|c| u32::from_be_bytes(c.try_into().unwrap())).collect()).unwrap_or_default(),
        ext: find(16).and_then(|a| a.binary()).map(|b| b.chunks_exact(8).map(|c| c.try_into().unwrap()).collect()).unwrap_or_default(),
        large: find(32).and_then(|a| a.binary()).map(|b| b.chunks_exact(12).map(|c| (u32::from_be_bytes(c[0..4].try_into().unwrap()), u32::from_be_bytes(c[4..8].try_into().unwrap()), u32::from_be_bytes(c[8..12].try_into().unwrap()))).collect()).unwrap_or_default(),
        nexthop: nh.map(|n| n.addr()),
    }
}

/// (accept?, final attrs, ambiguous, passed-with-action-before-decision)
fn interpret(p: &Program, r: &Route) -> (bool, MAttrs, bool, bool) {
    let nh = Some(nh_ip(r.nh));
    let mut a = mattrs_of_spec(&r.attrs, nh);
    let mut amb = Amb(false);
    let mut passed_action = false;
    for pi in &p.assign {
        let pol = &p.policies[*pi as usize % p.policies.len()];
        for si in pol {
            let s = &p.stmts[*si as usize % p.stmts.len()];
            let m = s.conds.iter().all(|c| eval_cond(c, p, r, &a, &mut amb));
            if !m {
                continue;
            }
            apply_act(&s.act, p, r, &mut a, nh, &mut amb);
            match s.disp {
                Some(d) => return (d, a, amb.0, passed_action),
                None => {
                    if s.act != Act::default() {
                        passed_action = true;
                    }
                }
            }
        }
    }
    (p.default_accept, a, amb.0, passed_action)
}

fn source_of(r: &Route) -> Arc<table::Source> {
    match r.src % 3 {
        2 => table::Source::local(),
        k => Arc::new(table::Source::new(peer_ip(r.peer), LOCAL_ADDR, if k == 1 { 65000 } else { 65100 }, 65000, Ipv4Addr::new(1, 1, 1, 1), if k == 1 { table::PeerRole::Ibgp } else { table::PeerRole::Ebgp })),
    }
}

pub fn check_eval(c: &Case) -> CheckResult {
    let p = &c.prog;
    if p.stmts.is_empty() || p.policies.is_empty() {
        return Ok(CaseInfo::trivial());
    }
    let (_t, assignment) = match catch(|| load(p)) {
        Err(pn) => return Err(pn.into_failure("policy-load")),
        Ok(Err(e)) => return Err(Failure::new("load-rejected", format!("a well-formed program was rejected: {e}")).with("what", e.split(':').next().unwrap_or("").to_string())),
        Ok(Ok(x)) => x,
    };
    let r = &c.route;
    let source = source_of(r);
    let net = tree_nlri(r.prefix);
    let attrs = Arc::new(r.attrs.build());
    let nh0 = Some(bgp::Nexthop::V4(match nh_ip(r.nh) { IpAddr::V4(a) => a, _ => unreachable!() }));
    let (want_accept, want, ambiguous, passed_action) = interpret(p, r);

    let (got_accept, got_attrs, got_nh) = if p.export {
        let mut a = attrs.clone();
        let mut nh = nh0;
        let d = catch(|| table::apply_export(&assignment, None, &source, &net, &mut a, &mut nh, nh0, p.is_confed, LOCAL_ADDR, peer_ip(r.peer))).map_err(|pn| pn.into_failure("apply_export"))?;
        (d != Disposition::Reject, a, nh)
    } else {
        let mut nh = nh0;
        // import: local_addr / peer_addr come from the source
        let (filtered, a) = catch(|| table::apply_import(&assignment, None, &source, &net, &attrs, &mut nh)).map_err(|pn| pn.into_failure("apply_import"))?;
        (!filtered, a, nh)
    };

    let nested = {
        let (_, rl) = tree_net(r.prefix);
        p.prefix_sets.iter().any(|s| s.iter().filter(|(k, _, _)| covers(*k, r.prefix)).count() >= 2 && s.iter().any(|(k, min, max)| covers(*k, r.prefix) && *min <= rl && rl <= *max))
    };
    let odd_path = r.attrs.as_path.as_ref().is_some_and(|s| s.iter().any(|x| x.t != 2 || x.asn_list().is_empty()));
    let info = CaseInfo::nt((p.stmts.len() >= 2 && passed_action) || nested || odd_path)
        .class_if(nested, "nested-prefix-entries")
        .class_if(odd_path, "as-path-with-non-seq-or-empty-segment")
        .class_if(passed_action, "actions-accumulated-before-decision")
        .class_if(p.export, "export")
        .class_if(!p.export, "import")
        .class_if(ambiguous, "ambiguous-skipped");
    if ambiguous {
        return Ok(info);
    }
    let used_kinds: Vec<u8> = p.stmts.iter().flat_map(|s| s.conds.iter().map(|c| c.kind())).collect();
    let wit = |f: Failure| {
        f.with("export", p.export)
            .with("nested_prefix_entries", nested)
            .with("uses_prefix_set", used_kinds.contains(&0))
            .with("uses_aspath_set", used_kinds.contains(&2))
            .with("aspath_all", p.stmts.iter().any(|s| s.conds.iter().any(|c| matches!(c, Cond::AsPathSet(_, Opt::All)))))
    };
    if got_accept != want_accept {
        return Err(wit(Failure::new("disposition", format!("policy result is {}, the reference semantics give {}", if got_accept { "accept" } else { "reject" }, if want_accept { "accept" } else { "reject" }))));
    }
    if !want_accept {
        return Ok(info.class("rejected"));
    }
    let got = mattrs_of_real(&got_attrs, got_nh);
    let mut want_n = want.clone();
    let mut got_n = got.clone();
    want_n.segs = want_n.segs.map(|s| norm_segs(&s));
    got_n.segs = got_n.segs.map(|s| norm_segs(&s));
    if want_n != got_n {
        let what = if want_n.nexthop != got_n.nexthop { "nexthop" } else if want_n.segs != got_n.segs { "as-path" } else if want_n.communities != got_n.communities { "community" } else if want_n.med != got_n.med { "med" } else if want_n.local_pref != got_n.local_pref { "local-pref" } else if want_n.origin != got_n.origin { "origin" } else if want_n.ext != got_n.ext { "ext-community" } else { "large-community" };
        return Err(wit(Failure::new("attributes", format!("accepted route differs from the reference in {what}: got {:?}, want {:?}", got_n, want_n)).with("what", what)));
    }
    Ok(info.class("accepted"))
}

// ---------------------------------------------------------------------------
// (B) CRUD histories
// ---------------------------------------------------------------------------

#[derive(Clone, Debug, Serialize, Deserialize)]
pub enum Crud {
    AddSet { kind: u8, idx: u8, replace: bool },
    DeleteSet { kind: u8, idx: u8, all: bool },
    AddStmt { idx: u8, conds: Vec<Cond>, disp: Option<bool> },
    DeleteStmt { idx: u8 },
    AddPolicy { idx: u8, stmts: Vec<u8> },
    DeletePolicy { idx: u8, preserve: bool },
    SetAssign { export: bool, pols: Vec<u8> },
    DeleteAssign { export: bool },
    Eval(Route),
}

#[derive(Clone, Debug, Serialize, Deserialize)]
pub struct CrudCase {
    pub ops: Vec<Crud>,
}

#[derive(Default)]
struct CModel {
    sets: std::collections::BTreeSet<(u8, u8)>,
    stmts: std::collections::BTreeMap<u8, Vec<Cond>>,
    policies: std::collections::BTreeMap<u8, Vec<u8>>,
    assign: [Option<Vec<u8>>; 2],
}

#[derive(Debug, PartialEq, Clone, Copy)]
enum Rc {
    Ok,
    NotFound,
    InUse,
    Invalid,
}

fn rc_of<T>(r: &Result<T, TableError>) -> Rc {
    match r {
        Ok(_) => Rc::Ok,
        Err(TableError::NotFound) => Rc::NotFound,
        Err(TableError::StillInUse(_)) => Rc::InUse,
        Err(_) => Rc::Invalid,
    }
}

fn set_name(kind: u8, idx: u8) -> String {
    format!("{}{}", ["ps", "ns", "as", "cs", "es", "ls"][kind as usize % 6], idx % 3)
}

fn set_cfg(kind: u8, idx: u8, variant: u8) -> DefinedSetConfig {
    let name = set_name(kind, idx);
    match kind % 6 {
        0 => DefinedSetConfig::Prefix { name, prefixes: vec![PrefixConfig { ip_prefix: "10.0.0.0/8".into(), mask_length_min: 8, mask_length_max: 24 + variant % 8 }] },
        1 => DefinedSetConfig::Neighbor { name, neighbors: vec![format!("10.0.0.{}/32", 1 + variant % 4)] },
        2 => DefinedSetConfig::AsPath { name, patterns: vec![format!("_{}_", 65001 + variant as u32 % 3)] },
        3 => DefinedSetConfig::Community { name, patterns: vec![format!("65000:{}", variant % 4)] },
        4 => DefinedSetConfig::ExtCommunity { name, patterns: vec![format!("^rt:65000:{}$", variant % 4)] },
        _ => DefinedSetConfig::LargeCommunity { name, patterns: vec![format!("^65000:1:{}$", variant % 4)] },
    }
}

fn cond_set_ref(c: &Cond) -> Option<(u8, u8)> {
    match c {
        Cond::PrefixSet(i, _) => Some((0, i % 3)),
        Cond::NeighborSet(i, _) => Some((1, i % 3)),
        Cond::AsPathSet(i, _) => Some((2, i % 3)),
        Cond::CommunitySet(i, _) => Some((3, i % 3)),
        Cond::ExtCommunitySet(i, _) => Some((4, i % 3)),
        Cond::LargeCommunitySet(i, _) => Some((5, i % 3)),
        _ => None,
    }
}

fn crud_cond_cfg(c: &Cond) -> ConditionConfig {
    match c {
        Cond::PrefixSet(i, o) => ConditionConfig::PrefixSet(set_name(0, *i), o.real()),
        Cond::NeighborSet(i, o) => ConditionConfig::NeighborSet(set_name(1, *i), o.real()),
        Cond::AsPathSet(i, o) => ConditionConfig::AsPathSet(set_name(2, *i), o.real()),
        Cond::CommunitySet(i, o) => ConditionConfig::CommunitySet(set_name(3, *i), o.real()),
        Cond::ExtCommunitySet(i, o) => ConditionConfig::ExtCommunitySet(set_name(4, *i), o.real()),
        Cond::LargeCommunitySet(i, o) => ConditionConfig::LargeCommunitySet(set_name(5, *i), o.real()),
        other => cond_cfg(other),
    }
}

fn eval_live(t: &PolicyTable, r: &Route) -> Result<Vec<String>, Failure> {
    let mut out = Vec::new();
    for (dir, a) in t.iter_assignments(0) {
        let source = source_of(r);
        let net = tree_nlri(r.prefix);
        let mut attrs = Arc::new(r.attrs.build());
        let nh0 = Some(bgp::Nexthop::V4(Ipv4Addr::new(192, 168, 0, 1)));
        let mut nh = nh0;
        let d = catch(|| table::apply_export(a, None, &source, &net, &mut attrs, &mut nh, nh0, false, LOCAL_ADDR, peer_ip(r.peer))).map_err(|p| p.into_failure("apply-live-assignment"))?;
        out.push(format!("{dir}:{:?}:{:?}:{:?}", d, attrs, nh));
    }
    Ok(out)
}

pub fn check_crud(c: &CrudCase) -> CheckResult {
    let mut t = PolicyTable::new();
    let mut m = CModel::default();
    let mut info = CaseInfo::trivial();
    let probe = Route { prefix: 3, attrs: AttrSpec { origin: Some(0), as_path: Some(vec![Seg { t: 2, n: 2, base: 65001, asns: vec![] }]), communities: vec![(65000 << 16) | 1], ..Default::default() }, peer: 0, nh: 0, src: 0 };
    for (step, op) in c.ops.iter().enumerate() {
        let before = eval_live(&t, &probe)?;
        let mut touches_assignment = false;
        let (got, want): (Rc, Rc) = match op {
            Crud::AddSet { kind, idx, replace } => {
                let key = (kind % 6, idx % 3);
                let in_use = m.stmts.values().any(|cs| cs.iter().any(|c| cond_set_ref(c) == Some(key)));
                let exists = m.sets.contains(&key);
                let want = if exists && in_use { Rc::InUse } else { Rc::Ok };
                let cfg = set_cfg(*kind, *idx, step as u8);
                let r = catch(|| if *replace { t.replace_defined_set(cfg) } else { t.add_defined_set(cfg) }).map_err(|p| p.into_failure("add_defined_set"))?;
                if *replace && in_use && !exists {
                    // replace of an absent set referenced by nobody is a plain create
                }
                if rc_of(&r) == Rc::Ok {
                    m.sets.insert(key);
                }
                (rc_of(&r), if *replace && !exists { Rc::Ok } else { want })
            }
            Crud::DeleteSet { kind, idx, all } => {
                let key = (kind % 6, idx % 3);
                let in_use = m.stmts.values().any(|cs| cs.iter().any(|c| cond_set_ref(c) == Some(key)));
                let exists = m.sets.contains(&key);
                let want = if in_use { Rc::InUse } else if !exists { Rc::NotFound } else { Rc::Ok };
                let cfg = set_cfg(*kind, *idx, step as u8);
                let r = catch(|| t.delete_defined_set(cfg, *all)).map_err(|p| p.into_failure("delete_defined_set"))?;
                if rc_of(&r) == Rc::Ok && *all {
                    m.sets.remove(&key);
                }
                if want == Rc::InUse {
                    info.nontrivial = true;
                    info = info.class("delete-of-referenced-set-rejected");
                }
                (rc_of(&r), want)
            }
            Crud::AddStmt { idx, conds, disp } => {
                let idx = idx % 4;
                // one condition per kind
                let mut cs: Vec<Cond> = Vec::new();
                for c in conds {
                    if !cs.iter().any(|x| x.kind() == c.kind()) && !matches!(c, Cond::PrefixSet(_, Opt::All) | Cond::NeighborSet(_, Opt::All)) {
                        cs.push(c.clone());
                    }
                }
                let missing = cs.iter().filter_map(cond_set_ref).any(|k| !m.sets.contains(&k));
                let exists = m.stmts.contains_key(&idx);
                let in_use = m.policies.values().any(|p| p.contains(&idx));
                let want = if missing { Rc::Invalid } else if exists && in_use { Rc::InUse } else if exists { Rc::Invalid /* merge: may clash */ } else { Rc::Ok };
                let d = disp.map(|a| if a { Disposition::Accept } else { Disposition::Reject });
                let r = catch(|| t.add_statement(&format!("st{idx}"), cs.iter().map(crud_cond_cfg).collect(), d, Actions::default())).map_err(|p| p.into_failure("add_statement"))?;
                let got = rc_of(&r);
                if got == Rc::Ok {
                    let e = m.stmts.entry(idx).or_default();
                    e.extend(cs);
                }
                // merging into an existing unused statement may succeed or clash on a kind: both fine
                let want = if exists && !in_use && !missing { got } else { want };
                (got, want)
            }
            Crud::DeleteStmt { idx } => {
                let idx = idx % 4;
                let in_use = m.policies.values().any(|p| p.contains(&idx));
                let exists = m.stmts.contains_key(&idx);
                let want = if in_use { Rc::InUse } else if !exists { Rc::NotFound } else { Rc::Ok };
                let r = catch(|| t.delete_statement(&format!("st{idx}"), true, vec![], None, Actions::default())).map_err(|p| p.into_failure("delete_statement"))?;
                if rc_of(&r) == Rc::Ok {
                    m.stmts.remove(&idx);
                }
                if want == Rc::InUse {
                    info.nontrivial = true;
                    info = info.class("delete-of-referenced-statement-rejected");
                }
                (rc_of(&r), want)
            }
            Crud::AddPolicy { idx, stmts } => {
                let idx = idx % 3;
                let ss: Vec<u8> = stmts.iter().map(|s| s % 4).collect();
                let missing = ss.iter().any(|s| !m.stmts.contains_key(s));
                let exists = m.policies.contains_key(&idx);
                let in_use = m.assign.iter().any(|a| a.as_ref().is_some_and(|v| v.contains(&idx)));
                let want = if missing { Rc::Invalid } else if exists && in_use { Rc::InUse } else { Rc::Ok };
                let r = catch(|| t.add_policy(&format!("pol{idx}"), ss.iter().map(|s| format!("st{s}")).collect())).map_err(|p| p.into_failure("add_policy"))?;
                if rc_of(&r) == Rc::Ok {
                    m.policies.entry(idx).or_default().extend(ss);
                }
                (rc_of(&r), want)
            }
            Crud::DeletePolicy { idx, preserve } => {
                let idx = idx % 3;
                let in_use = m.assign.iter().any(|a| a.as_ref().is_some_and(|v| v.contains(&idx)));
                let exists = m.policies.contains_key(&idx);
                let want = if in_use { Rc::InUse } else if !exists { Rc::NotFound } else { Rc::Ok };
                let r = catch(|| t.delete_policy(&format!("pol{idx}"), *preserve, true, vec![])).map_err(|p| p.into_failure("delete_policy"))?;
                if rc_of(&r) == Rc::Ok {
                    let removed = m.policies.remove(&idx).unwrap_or_default();
                    if !*preserve {
                        for s in removed {
                            if !m.policies.values().any(|p| p.contains(&s)) {
                                m.stmts.remove(&s);
                            }
                        }
                    }
                }
                if want == Rc::InUse {
                    info.nontrivial = true;
                    info = info.class("delete-of-assigned-policy-rejected");
                }
                (rc_of(&r), want)
            }
            Crud::SetAssign { export, pols } => {
                touches_assignment = true;
                let ps: Vec<u8> = {
                    let mut v: Vec<u8> = Vec::new();
                    for p in pols {
                        if !v.contains(&(p % 3)) {
                            v.push(p % 3);
                        }
                    }
                    v
                };
                let missing = ps.iter().any(|p| !m.policies.contains_key(p));
                let want = if missing { Rc::Invalid } else { Rc::Ok };
                let dir = if *export { PolicyDirection::Export } else { PolicyDirection::Import };
                let r = catch(|| t.set_policy_assignment("global", dir, Disposition::Accept, ps.iter().map(|p| format!("pol{p}")).collect())).map_err(|p| p.into_failure("set_policy_assignment"))?;
                if rc_of(&r) == Rc::Ok {
                    m.assign[*export as usize] = Some(ps);
                }
                (rc_of(&r), want)
            }
            Crud::DeleteAssign { export } => {
                touches_assignment = true;
                let dir = if *export { PolicyDirection::Export } else { PolicyDirection::Import };
                let r = catch(|| t.delete_policy_assignment(dir, &[], true)).map_err(|p| p.into_failure("delete_policy_assignment"))?;
                m.assign[*export as usize] = None;
                (rc_of(&r), Rc::Ok)
            }
            Crud::Eval(r) => {
                eval_live(&t, r)?;
                (Rc::Ok, Rc::Ok)
            }
        };
        if got != want {
            return Err(Failure::new("crud-result", format!("step {step} {op:?}: call returned {got:?}, the model expects {want:?}")).with("op", format!("{op:?}").split([' ', '{', '(']).next().unwrap_or("").to_string()).with("got", format!("{got:?}")).with("want", format!("{want:?}")));
        }
        // referential invariant
        for s in t.iter_statements(String::new()) {
            for c in &s.conditions {
                let ok = match c {
                    table::Condition::Prefix(n, _, set) => t.iter_defined_sets().any(|d| matches!(d, table::DefinedSetRef::Prefix(name, x) if name == n && std::ptr::eq(x, set.as_ref()))),
                    table::Condition::Neighbor(n, _, set) => t.iter_defined_sets().any(|d| matches!(d, table::DefinedSetRef::Neighbor(name, x) if name == n && std::ptr::eq(x, set.as_ref()))),
                    table::Condition::AsPath(n, _, set) => t.iter_defined_sets().any(|d| matches!(d, table::DefinedSetRef::AsPath(name, x) if name == n && std::ptr::eq(x, set.as_ref()))),
                    table::Condition::Community(n, _, set) => t.iter_defined_sets().any(|d| matches!(d, table::DefinedSetRef::Community(name, x) if name == n && std::ptr::eq(x, set.as_ref()))),
                    table::Condition::ExtCommunity(n, _, set) => t.iter_defined_sets().any(|d| matches!(d, table::DefinedSetRef::ExtCommunity(name, x) if name == n && std::ptr::eq(x, set.as_ref()))),
                    table::Condition::LargeCommunity(n, _, set) => t.iter_defined_sets().any(|d| matches!(d, table::DefinedSetRef::LargeCommunity(name, x) if name == n && std::ptr::eq(x, set.as_ref()))),
                    _ => true,
                };
                if !ok {
                    return Err(Failure::new("dangling-reference", format!("step {step} {op:?}: statement {} references a defined set that is no longer the one listed under that name", s.name)).with("level", "statement->set"));
                }
            }
        }
        for p in t.iter_policies(String::new()) {
            for s in &p.statements {
                if !t.iter_statements(s.name.to_string()).any(|x| std::ptr::eq(x, s.as_ref())) {
                    return Err(Failure::new("dangling-reference", format!("step {step} {op:?}: policy {} references statement {} which is no longer the one listed under that name", p.name, s.name)).with("level", "policy->statement"));
                }
            }
        }
        for (_, a) in t.iter_assignments(0) {
            for p in &a.policies {
                if !t.iter_policies(p.name.to_string()).any(|x| std::ptr::eq(x, p.as_ref())) {
                    return Err(Failure::new("dangling-reference", format!("step {step} {op:?}: an assignment references policy {} which is no longer the one listed under that name", p.name)).with("level", "assignment->policy"));
                }
            }
        }
        // a live assignment evaluates identically across a call that did not target it
        if !touches_assignment {
            let after = eval_live(&t, &probe)?;
            if after != before {
                return Err(Failure::new("assignment-changed", format!("step {step} {op:?}: evaluation of the live assignment changed although the call did not target it (result {got:?})")));
            }
        }
    }
    Ok(info)
}

// ---------------------------------------------------------------------------
// generators
// ---------------------------------------------------------------------------

fn arb_opt(all_ok: bool) -> BoxedStrategy<Opt> {
    if all_ok { prop_oneof![3 => Just(Opt::Any), 2 => Just(Opt::All), 2 => Just(Opt::Invert)].boxed() } else { prop_oneof![3 => Just(Opt::Any), 2 => Just(Opt::Invert)].boxed() }
}

fn arb_asn() -> impl Strategy<Value = u32> {
    prop_oneof![Just(65001u32), Just(65002u32), Just(65003u32), Just(70000u32)]
}

fn arb_aspat() -> impl Strategy<Value = AsPat> {
    prop_oneof![
        arb_asn().prop_map(AsPat::Include),
        arb_asn().prop_map(AsPat::LeftMost),
        arb_asn().prop_map(AsPat::Origin),
        arb_asn().prop_map(AsPat::Only),
        (65001u32..65003, 65002u32..65004).prop_map(|(a, b)| AsPat::RangeInclude(a.min(b), a.max(b))),
        (65001u32..65003, 65002u32..65004).prop_map(|(a, b)| AsPat::RangeLeftMost(a.min(b), a.max(b))),
        (65001u32..65003, 65002u32..65004).prop_map(|(a, b)| AsPat::RangeOrigin(a.min(b), a.max(b))),
        (65001u32..65003, 65002u32..65004).prop_map(|(a, b)| AsPat::RangeOnly(a.min(b), a.max(b))),
    ]
}

fn arb_comm() -> impl Strategy<Value = u32> {
    prop_oneof![4 => (0u32..3).prop_map(|k| (65000 << 16) | k), 1 => (0u32..2).prop_map(|k| (65001 << 16) | k), 1 => Just(0xffff_ff01u32), 1 => Just(0xffff_0006u32)]
}

fn arb_commpat() -> impl Strategy<Value = CommPat> {
    prop_oneof![4 => arb_comm().prop_map(CommPat::Exact), 1 => arb_comm().prop_map(CommPat::Int), 1 => (0u8..4).prop_map(CommPat::WellKnown), 1 => prop_oneof![Just(65000u16), Just(65001u16)].prop_map(CommPat::HighRegex)]
}

fn arb_ext() -> impl Strategy<Value = u64> {
    (0u64..2, 0u64..3).prop_map(|(a, l)| ((65000 + a) << 32) | l)
}

fn arb_large() -> impl Strategy<Value = (u32, u32, u32)> {
    (0u32..2, 0u32..2).prop_map(|(a, b)| (65000, a, b))
}

fn arb_cond(export: bool) -> impl Strategy<Value = Cond> {
    let _ = export;
    prop_oneof![
        5 => (0u8..2, arb_opt(false)).prop_map(|(i, o)| Cond::PrefixSet(i, o)),
        2 => (0u8..2, arb_opt(false)).prop_map(|(i, o)| Cond::NeighborSet(i, o)),
        4 => (0u8..2, arb_opt(true)).prop_map(|(i, o)| Cond::AsPathSet(i, o)),
        4 => (0u8..2, arb_opt(true)).prop_map(|(i, o)| Cond::CommunitySet(i, o)),
        1 => (0u8..2, arb_opt(true)).prop_map(|(i, o)| Cond::ExtCommunitySet(i, o)),
        1 => (0u8..2, arb_opt(true)).prop_map(|(i, o)| Cond::LargeCommunitySet(i, o)),
        2 => (0u8..3, 0u32..4).prop_map(|(k, v)| Cond::AsPathLength(k, v)),
        1 => proptest::collection::vec(0u8..3, 1..3).prop_map(Cond::Nexthop),
        1 => prop_oneof![Just(100u32), Just(200u32)].prop_map(Cond::LocalPrefEq),
        1 => prop_oneof![Just(0u32), Just(10u32), Just(20u32)].prop_map(Cond::MedEq),
        1 => (0u8..3).prop_map(Cond::Origin),
        1 => (0u8..3).prop_map(Cond::RouteType),
        1 => (0u8..3, 0u32..3).prop_map(|(k, v)| Cond::CommunityCount(k, v)),
        1 => proptest::collection::vec(0u8..3, 1..3).prop_map(Cond::AfiSafiIn),
    ]
}

fn arb_act(export: bool) -> impl Strategy<Value = Act> {
    (
        if export { proptest::option::weighted(0.2, (0u8..4, 0u8..3)).boxed() } else { Just(None).boxed() },
        proptest::option::weighted(0.35, (0u8..3, proptest::collection::vec(arb_comm(), 0..3))),
        proptest::option::weighted(0.2, prop_oneof![Just(100u32), Just(200u32)]),
        proptest::option::weighted(0.25, (any::<bool>(), prop_oneof![Just(-15i64), Just(10i64), Just(20i64), Just(5_000_000_000i64), Just(-1i64)])),
        proptest::option::weighted(0.25, (arb_asn(), 0u8..3, any::<bool>())),
        proptest::option::weighted(0.1, (0u8..3, proptest::collection::vec(arb_ext(), 0..2))),
        proptest::option::weighted(0.1, (0u8..3, proptest::collection::vec(arb_large(), 0..2))),
        proptest::option::weighted(0.15, 0u8..3),
    )
        .prop_map(|(nexthop, community, local_pref, med, as_prepend, ext_community, large_community, origin)| Act { nexthop, community, local_pref, med, as_prepend, ext_community, large_community, origin })
}

fn arb_route() -> impl Strategy<Value = Route> {
    let seg = (prop_oneof![5 => Just(2u8), 2 => Just(1u8), 1 => Just(3u8), 1 => Just(4u8)], proptest::collection::vec(arb_asn(), 0..3)).prop_map(|(t, asns)| Seg { t, n: asns.len() as u16, base: 0, asns });
    (
        0u8..12,
        prop_oneof![1 => Just(None), 1 => Just(Some(vec![])), 8 => proptest::collection::vec(seg, 1..4).prop_map(Some)],
        proptest::option::of(0u8..3),
        proptest::option::weighted(0.4, prop_oneof![Just(0u32), Just(10u32), Just(20u32), Just(4_294_967_290u32)]),
        proptest::option::weighted(0.4, prop_oneof![Just(100u32), Just(200u32)]),
        proptest::collection::vec(arb_comm(), 0..3),
        proptest::collection::vec(arb_ext(), 0..2),
        proptest::collection::vec(arb_large(), 0..2),
        (0u8..4, 0u8..3, 0u8..3),
    )
        .prop_map(|(prefix, as_path, origin, med, local_pref, communities, ext, large, (peer, nh, src))| {
            // a Seg with explicit (possibly empty) AS list
            let as_path = as_path.map(|v| v.into_iter().map(|mut s| { if s.asns.is_empty() { s.n = 0; } s }).collect());
            Route {
                prefix,
                attrs: AttrSpec { origin, as_path, med, local_pref, communities, ext_communities: ext.into_iter().map(|x| u64::from_be_bytes(ext_bytes(x))).collect(), large_communities: large, ..Default::default() },
                peer,
                nh,
                src,
            }
        })
}

pub fn arb_eval_case() -> impl Strategy<Value = Case> {
    any::<bool>().prop_flat_map(|export| {
        let stmt = (proptest::collection::vec(arb_cond(export), 0..4), prop_oneof![2 => Just(None), 2 => Just(Some(true)), 2 => Just(Some(false))], arb_act(export)).prop_map(|(conds, disp, act)| {
            let mut cs: Vec<Cond> = Vec::new();
            for c in conds {
                if !cs.iter().any(|x| x.kind() == c.kind()) {
                    cs.push(c);
                }
            }
            Stmt { conds: cs, disp, act }
        });
        let pentry = (0u8..12, 0u8..4, 0u8..10).prop_map(|(k, dmin, dmax)| {
            let (_, l) = tree_net(k);
            let w = if matches!(tree_net(k).0, IpAddr::V4(_)) { 32 } else { 128 };
            let min = (l + dmin).min(w);
            let max = (min + dmax * if w == 128 { 8 } else { 1 }).min(w);
            (k, min, max)
        });
        (
            (proptest::collection::vec(proptest::collection::vec(pentry, 1..5), 2), proptest::collection::vec(proptest::collection::vec(0u8..4, 1..3), 2), proptest::collection::vec(proptest::collection::vec(arb_aspat(), 1..4), 2)),
            (proptest::collection::vec(proptest::collection::vec(arb_commpat(), 1..4), 2), proptest::collection::vec(proptest::collection::vec(arb_ext(), 1..3), 2), proptest::collection::vec(proptest::collection::vec(arb_large(), 1..3), 2)),
            proptest::collection::vec(stmt, 1..5),
            proptest::collection::vec(proptest::collection::vec(0u8..5, 1..4), 1..3),
            proptest::collection::vec(0u8..2, 1..3),
            any::<bool>(),
            Just(export),
            prop::bool::weighted(0.2),
            arb_route(),
        )
    })
    .prop_map(|((prefix_sets, neighbor_sets, aspath_sets), (comm_sets, ext_sets, large_sets), stmts, policies, assign, default_accept, export, is_confed, route)| {
        // an entry appears once per set (the real table keys entries by prefix)
        let prefix_sets = prefix_sets.into_iter().map(|s| { let mut seen = Vec::new(); s.into_iter().filter(|(k, _, _)| { let k = *k % 12; if seen.contains(&k) { false } else { seen.push(k); true } }).collect() }).collect();
        let mut assign = assign;
        assign.dedup();
        let n = policies.len() as u8;
        let mut seen = Vec::new();
        assign.retain(|a| { let k = a % n; if seen.contains(&k) { false } else { seen.push(k); true } });
        Case { prog: Program { prefix_sets, neighbor_sets, aspath_sets, comm_sets, ext_sets, large_sets, stmts, policies, assign, default_accept, export, is_confed }, route }
    })
}

pub fn arb_crud_case(max_ops: usize) -> impl Strategy<Value = CrudCase> {
    let op = prop_oneof![
        6 => (0u8..6, 0u8..3, prop::bool::weighted(0.3)).prop_map(|(kind, idx, replace)| Crud::AddSet { kind, idx, replace }),
        3 => (0u8..6, 0u8..3, any::<bool>()).prop_map(|(kind, idx, all)| Crud::DeleteSet { kind, idx, all }),
        6 => (0u8..4, proptest::collection::vec(arb_cond(true), 0..3), proptest::option::of(any::<bool>())).prop_map(|(idx, conds, disp)| Crud::AddStmt { idx, conds, disp }),
        2 => (0u8..4).prop_map(|idx| Crud::DeleteStmt { idx }),
        5 => (0u8..3, proptest::collection::vec(0u8..4, 1..3)).prop_map(|(idx, stmts)| Crud::AddPolicy { idx, stmts }),
        2 => (0u8..3, any::<bool>()).prop_map(|(idx, preserve)| Crud::DeletePolicy { idx, preserve }),
        4 => (any::<bool>(), proptest::collection::vec(0u8..3, 1..3)).prop_map(|(export, pols)| Crud::SetAssign { export, pols }),
        1 => any::<bool>().prop_map(|export| Crud::DeleteAssign { export }),
        2 => arb_route().prop_map(Crud::Eval),
    ];
    (proptest::collection::vec(op, 1..=max_ops), any::<bool>()).prop_map(|(mut ops, prelude)| {
        if prelude {
            // most histories start from a table that already has one set of each kind,
            // so that statements referencing sets (and the in-use checks) are frequent
            for kind in (0u8..6).rev() {
                ops.insert(0, Crud::AddSet { kind, idx: 0, replace: false });
                ops.insert(0, Crud::AddSet { kind, idx: 1, replace: false });
            }
        }
        CrudCase { ops }
    })
}

// ---------------------------------------------------------------------------
// export policy as the session's export pipeline applies it (process_nlri_change hands the
// policy its local / peer addresses, in the non-Add-Path and in the Add-Path branch)
// ---------------------------------------------------------------------------

pub const GLUE_RULE: &str = "export-glue: one path learned from an eBGP peer, an eBGP receiver (its address inside or outside the policy's neighbour sets, Add-Path send or not) and an export policy {statement 1: neighbour-set condition (ANY / INVERT) -> reject; statement 2: accept with a next-hop action address / self / peer-address / unchanged}, through the daemon's process_nlri_change. Expected: the route is advertised iff the RECEIVER's address does not satisfy statement 1; the advertised next hop is the given address, the local address of the session (self, and the eBGP default without an action), the receiver's address (peer-address) or the received one (unchanged). non-trivial := the receiver has Add-Path send";

#[derive(Clone, Debug, Serialize, Deserialize)]
pub struct GlueCase {
    pub receiver: u8,
    pub addpath: bool,
    pub set: u8,
    pub invert: bool,
    pub nh_action: Option<(u8, u8)>,
}

pub fn check_glue(c: &GlueCase) -> CheckResult {
    use crate::event::verif::{NeighborParams, export_once};
    // addresses: local = peer_ip(0), receivers peer_ip(1) / peer_ip(3), source peer_ip(2)
    let local = peer_ip(0);
    let receiver = if c.receiver % 2 == 0 { peer_ip(1) } else { peer_ip(3) };
    let prog = Program {
        prefix_sets: vec![vec![(1, 8, 32)]],
        // set 0 = {receiver peer_ip(1)}, set 1 = {the local address}, set 2 = {the source}
        neighbor_sets: vec![vec![1], vec![0], vec![2]],
        aspath_sets: vec![vec![AsPat::Include(1)]],
        comm_sets: vec![vec![CommPat::Exact(1)]],
        ext_sets: vec![vec![1]],
        large_sets: vec![vec![(1, 2, 3)]],
        stmts: vec![Stmt { conds: vec![Cond::NeighborSet(c.set % 3, if c.invert { Opt::Invert } else { Opt::Any })], disp: Some(false), act: Act::default() }, Stmt { conds: vec![], disp: Some(true), act: Act { nexthop: c.nh_action, ..Act::default() } }],
        policies: vec![vec![0, 1]],
        assign: vec![0],
        default_accept: true,
        export: true,
        is_confed: false,
    };
    let (_t, policy) = load(&prog).map_err(|e| Failure::new("harness", format!("policy load: {e}")))?;
    let source = Arc::new(table::Source::new(peer_ip(2), local, 65102, 65000, Ipv4Addr::new(2, 2, 2, 2), table::PeerRole::Ebgp));
    let attrs = Arc::new(AttrSpec { origin: Some(0), as_path: Some(vec![Seg { t: 2, n: 1, base: 65102, asns: vec![] }]), ..Default::default() }.build());
    let net = v4(10, 9, 0, 0, 16);
    let path = table::Path { local_path_id: 1, source, attr: attrs.clone(), nexthop: Some(bgp::Nexthop::V4(Ipv4Addr::new(192, 0, 2, 7))) };
    let update = table::NlriChange { family: packet::Family::IPV4, net: net.clone(), dest_id: 1, best_changed: true, any_changed: true, replaced_path_id: None, current_paths: Arc::new(vec![path]) };
    let params = NeighborParams { remote_addr: receiver, role: table::PeerRole::Ebgp, local_asn: 65000, local_addr: local, confederation_id: 0, cluster_id: None, families: vec![packet::Family::IPV4], effective_max: if c.addpath { 2 } else { 1 }, export_policy: Some(policy) };
    let got = catch(|| export_once(&update, &params)).map_err(|p| p.into_failure("process_nlri_change"))?;
    let in_set = match c.set % 3 {
        0 => receiver == peer_ip(1),
        1 => receiver == peer_ip(0),
        _ => receiver == peer_ip(2),
    };
    let rejected = in_set != c.invert;
    let wit = |f: Failure| f.with("addpath", c.addpath).with("set", c.set % 3).with("invert", c.invert);
    if rejected != got.reach.is_empty() {
        return Err(wit(Failure::new("export-glue", format!("receiver {receiver} (Add-Path send: {}): statement 1 ({} neighbour set {}) {} for it, yet the route is {}", c.addpath, if c.invert { "INVERT" } else { "ANY" }, c.set % 3, if rejected { "holds: reject" } else { "does not hold" }, if got.reach.is_empty() { "not advertised" } else { "advertised" })).with("what", "disposition")));
    }
    if !rejected {
        let want = match c.nh_action {
            Some((k, x)) if k % 4 == 0 => nh_ip(x),
            Some((k, _)) if k % 4 == 2 => receiver,
            // "unchanged" keeps the received next hop instead of the eBGP default
            Some((k, _)) if k % 4 == 3 => IpAddr::V4(Ipv4Addr::new(192, 0, 2, 7)),
            _ => local,
        };
        let got_nh = got.reach[0].2.map(|n| n.addr());
        if got_nh != Some(want) {
            return Err(wit(Failure::new("export-glue", format!("receiver {receiver} (Add-Path send: {}): next-hop action {:?} must give {want}, the advertisement carries {got_nh:?}", c.addpath, c.nh_action)).with("what", "nexthop")));
        }
    }
    Ok(CaseInfo::nt(c.addpath).class_if(rejected, "export-glue/rejected").class_if(!rejected, "export-glue/advertised"))
}

pub fn arb_glue_case() -> impl Strategy<Value = GlueCase> {
    (0u8..2, any::<bool>(), 0u8..3, any::<bool>(), proptest::option::of((0u8..4, 0u8..4))).prop_map(|(receiver, addpath, set, invert, nh_action)| GlueCase { receiver, addpath, set, invert, nh_action })
}

pub fn run(r: &Run) {
    r.set_rule(RULE);
    r.assume("prefix / neighbor sets take ANY or INVERT only (the API rejects ALL for them); import programs carry no next-hop action (rejected at load time)");
    r.assume("AS-path sets use the single-AS and range forms; 'leftmost' / 'origin' / 'only' on a path whose relevant segment is empty are not judged (the statement does not define them) but must not panic; adjacent AS_SEQUENCE segments are compared merged (segmentation is not semantics)");
    r.assume("ext-community sets use two-octet-AS route targets, large-community sets exact triples; RPKI conditions are covered by C12");
    r.prop("eval", r.tier.pick(120_000, 3_000_000), arb_eval_case, check_eval);
    r.prop("crud", r.tier.pick(40_000, 1_000_000), || arb_crud_case(r.tier.pick(25, 60)), check_crud);
    r.assume(GLUE_RULE);
    r.prop("export-glue", r.tier.pick(4_000, 40_000), arb_glue_case, check_glue);
    r.assume(super::c14p::RULE);
    r.prop("policy-users", r.tier.pick(60_000, 1_500_000), super::c14p::arb_case, super::c14p::check);
    // the one condition whose outcome depends on a table outside the route: "a statement applies when all its conditions hold"
    // where the export path of a live session evaluates it (shared with C12)
    r.assume(crate::props::rpkiexp::RULE);
    r.prop("export-rpki", r.tier.pick(30_000, 600_000), || crate::props::rpkiexp::arb_case(r.tier.pick(20, 36)), crate::props::rpkiexp::check);
}

pub fn replay(sub: &str, case: &Value) -> Result<CheckResult, String> {
    if sub == "crud" {
        let c: CrudCase = decode_case(case)?;
        return Ok(check_crud(&c));
    }
    if sub == "export-glue" {
        return Ok(check_glue(&decode_case(case)?));
    }
    if sub == "policy-users" {
        return super::c14p::replay(case);
    }
    if sub == "export-rpki" {
        return crate::props::rpkiexp::replay(case);
    }
    let c: Case = decode_case(case)?;
    Ok(check_eval(&c))
}
