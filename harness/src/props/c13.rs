//! C13 — the installed VRPs always equal what the RPKI cache has announced so far.
//!
//! The real `RpkiClient::serve_inner` runs over an in-memory duplex stream; the harness
//! plays one or two conforming RTR caches following a generated script (full response,
//! incremental rounds, cache reset, serial notify, error report, router-key PDUs,
//! arbitrary chunking, session loss at the end or in mid-conversation) and folds the script into the expected VRP set.

use crate::common::*;
use crate::rpki::verif as hook;
use crate::table_manager::TableManager;
use proptest::prelude::*;
use rustybgp_packet as packet;
use serde::{Deserialize, Serialize};
use serde_json::Value;
use std::collections::BTreeSet;
use std::net::{IpAddr, Ipv4Addr};
use std::sync::Arc;
use tokio::io::{AsyncReadExt, AsyncWriteExt};

pub const RULE: &str = "cases: scripts of one or two conforming RTR caches (v0 / v1; session id incl. 0, first serial 0 or 1): a full response to the reset query (cache response, IPv4/IPv6 prefix announcements, router-key PDUs in v1, end of data), then 0-4 further rounds, each either an incremental update (client is poked to send a serial query; response with announcements and withdrawals), a cache reset answered by a new full set (under a new serial or under the one the client already has), a serial notify, or an error report; every PDU stream is cut into generated chunk sizes; the session may be closed at the end, or lost in mid-conversation before any round (right after a Serial Notify with a new serial, right after a Cache Reset, in the middle of a response before End-of-Data, while the client is told to poll, or idle) without the cache reading what the client still sends. \
Oracle after every end-of-data (once the client is idle): VRPs installed for that cache == fold of the script, the other cache's VRPs untouched; the client has consumed every PDU (end-of-data counter == number sent); a cache reset is answered by a reset query; after the session ends the cache's VRPs are gone. \
non-trivial := at least one incremental round containing a withdrawal, or an unused PDU type (router key / unknown) in mid-stream, or a second cache, or a session lost in mid-conversation; distinct := distinct serialized case";

#[derive(Clone, Debug, Serialize, Deserialize, PartialEq, Eq, PartialOrd, Ord, Hash)]
pub struct Vrp {
    pub v6: bool,
    pub addr: u32,
    pub len: u8,
    pub max: u8,
    pub asn: u32,
}

#[derive(Clone, Debug, Serialize, Deserialize)]
pub enum Round {
    /// serial query is provoked; response carries these deltas (announce?, vrp)
    Incremental { deltas: Vec<(bool, Vrp)>, router_keys: u8 },
    /// the cache answers the serial query with Cache Reset; after the client's reset
    /// query it sends this full set
    CacheReset {
        full: Vec<Vrp>,
        /// the full set is sent under the serial the client already has (the cache lost its deltas, not its data)
        #[serde(default)]
        same_serial: bool,
    },
    /// unsolicited serial notify (same serial: nothing to do)
    NotifySame,
    /// error report with text (non-fatal code), nothing else
    ErrorReport { code: u16, text: u8 },
}

/// the session is lost in mid-conversation (the cache's end of the connection goes away
/// without reading what the client may still send)
#[derive(Clone, Debug, Serialize, Deserialize)]
pub enum LossKind {
    /// Serial Notify with a new serial, then gone: the client's Serial Query meets a closed connection
    AfterNotifyNew,
    /// the polled cache answers Cache Reset, then gone: the client's Reset Query meets a closed connection
    AfterCacheReset,
    /// the polled cache sends Cache Response and these announcements / withdrawals, no End-of-Data, then gone
    MidResponse(Vec<(bool, Vrp)>),
    /// gone while the client is told to poll (its Serial Query meets a closed connection)
    WhilePolled,
    /// gone while idle
    Idle,
}

#[derive(Clone, Debug, Serialize, Deserialize)]
pub struct Loss {
    /// before this round (capped at the number of rounds)
    pub round: u8,
    pub kind: LossKind,
}

#[derive(Clone, Debug, Serialize, Deserialize)]
pub struct CacheScript {
    #[serde(default)]
    pub loss: Option<Loss>,
    pub v1: bool,
    pub session_id: u16,
    pub initial: Vec<Vrp>,
    pub initial_router_keys: u8,
    pub rounds: Vec<Round>,
    pub chunks: Vec<u8>,
    pub close: bool,
    /// the cache's first serial number is 0 (else 1)
    #[serde(default)]
    pub serial0: bool,
}

#[derive(Clone, Debug, Serialize, Deserialize)]
pub struct Case {
    pub caches: Vec<CacheScript>,
}

fn hdr(v1: bool, t: u8, sid: u16, len: u32) -> Vec<u8> {
    let mut b = vec![v1 as u8, t];
    b.extend_from_slice(&sid.to_be_bytes());
    b.extend_from_slice(&len.to_be_bytes());
    b
}

fn vrp_norm(v: &Vrp) -> Vrp {
    let w = if v.v6 { 128 } else { 32 };
    let len = v.len.min(if v.v6 { 64 } else { 32 });
    Vrp { v6: v.v6, addr: if len == 0 { 0 } else if v.v6 { v.addr } else { v.addr & (!0u32 << (32 - len.min(32))) }, len, max: v.max.clamp(len, w), asn: v.asn }
}

fn vrp_pdu(v1: bool, announce: bool, v: &Vrp) -> Vec<u8> {
    let v = vrp_norm(v);
    let mut b = hdr(v1, if v.v6 { 6 } else { 4 }, 0, if v.v6 { 32 } else { 20 });
    b.extend_from_slice(&[announce as u8, v.len, v.max, 0]);
    if v.v6 {
        // 2001:db8:<addr>::/len  (len <= 64)
        let a: u128 = ((0x2001_0db8u128) << 96) | ((v.addr as u128) << 64);
        let a = if v.len == 0 { 0 } else { a & (!0u128 << (128 - v.len as u32)) };
        b.extend_from_slice(&a.to_be_bytes());
    } else {
        b.extend_from_slice(&v.addr.to_be_bytes());
    }
    b.extend_from_slice(&v.asn.to_be_bytes());
    b
}

fn vrp_key(v: &Vrp) -> (String, u8, u32) {
    let v = vrp_norm(v);
    let net = if v.v6 {
        let a: u128 = ((0x2001_0db8u128) << 96) | ((v.addr as u128) << 64);
        let a = if v.len == 0 { 0 } else { a & (!0u128 << (128 - v.len as u32)) };
        format!("{}/{}", std::net::Ipv6Addr::from(a), v.len)
    } else {
        format!("{}/{}", Ipv4Addr::from(v.addr), v.len)
    };
    (net, v.max, v.asn)
}

fn eod(v1: bool, sid: u16, serial: u32) -> Vec<u8> {
    if v1 {
        let mut b = hdr(true, 7, sid, 24);
        b.extend_from_slice(&serial.to_be_bytes());
        b.extend_from_slice(&[0, 0, 14, 16, 0, 0, 2, 88, 0, 0, 28, 32]);
        b
    } else {
        let mut b = hdr(false, 7, sid, 12);
        b.extend_from_slice(&serial.to_be_bytes());
        b
    }
}

fn router_key(n: u8) -> Vec<u8> {
    let body = vec![0x5au8; 20 + 4 + 10 + n as usize % 30];
    let mut b = hdr(true, 9, 0x0100, 8 + body.len() as u32);
    b.extend_from_slice(&body);
    b
}

struct Conn {
    io: tokio::io::DuplexStream,
    client: hook::Client,
    addr: Arc<IpAddr>,
    chunk_i: usize,
    eods_sent: i64,
    rx: Vec<u8>,
}

async fn settle(c: &Conn) {
    // the client only does in-memory work: let it run until its counters stop moving
    let mut last = hook::progress(&c.client.state);
    let mut stable = 0;
    for _ in 0..10_000 {
        tokio::task::yield_now().await;
        let now = hook::progress(&c.client.state);
        if now == last {
            stable += 1;
            if stable >= 8 {
                break;
            }
        } else {
            stable = 0;
            last = now;
        }
    }
}

async fn send(c: &mut Conn, bytes: &[u8], chunks: &[u8]) -> bool {
    let mut pos = 0;
    while pos < bytes.len() {
        let n = if chunks.is_empty() { bytes.len() } else { (chunks[c.chunk_i % chunks.len()] as usize).max(1) };
        c.chunk_i += 1;
        let end = (pos + n).min(bytes.len());
        if c.io.write_all(&bytes[pos..end]).await.is_err() {
            return false;
        }
        pos = end;
        tokio::task::yield_now().await;
    }
    settle(c).await;
    true
}

/// read whatever the client has sent so far (queries), return PDU types seen
async fn drain_queries(c: &mut Conn) -> Vec<u8> {
    let mut types = Vec::new();
    let mut buf = [0u8; 256];
    loop {
        match tokio::time::timeout(std::time::Duration::from_millis(0), c.io.read(&mut buf)).await {
            Ok(Ok(n)) if n > 0 => c.rx.extend_from_slice(&buf[..n]),
            _ => break,
        }
    }
    while c.rx.len() >= 8 {
        let l = u32::from_be_bytes([c.rx[4], c.rx[5], c.rx[6], c.rx[7]]) as usize;
        if l < 8 || c.rx.len() < l {
            break;
        }
        types.push(c.rx[1]);
        c.rx.drain(..l);
    }
    types
}

fn installed(tables: &TableManager, addr: &IpAddr) -> BTreeSet<(String, u8, u32)> {
    let mut s = BTreeSet::new();
    for fam in [packet::Family::IPV4, packet::Family::IPV6] {
        for (net, roa) in tables.collect_roa(fam) {
            if &*roa.source == addr {
                s.insert((format!("{net}"), roa.max_length, roa.as_number));
            }
        }
    }
    s
}

fn installed_count(tables: &TableManager, addr: &IpAddr) -> usize {
    let mut n = 0;
    for fam in [packet::Family::IPV4, packet::Family::IPV6] {
        n += tables.collect_roa(fam).iter().filter(|(_, r)| &*r.source == addr).count();
    }
    n
}

async fn run_case(c: &Case) -> CheckResult {
    let tables = Arc::new(TableManager::new(1));
    let mut info = CaseInfo::trivial();
    let mut conns: Vec<Conn> = Vec::new();
    let mut models: Vec<BTreeSet<(String, u8, u32)>> = Vec::new();
    for (i, _) in c.caches.iter().enumerate().take(2) {
        let (a, b) = tokio::io::duplex(1 << 20);
        let addr = Arc::new(IpAddr::V4(Ipv4Addr::new(192, 0, 2, 10 + i as u8)));
        let client = hook::spawn_client(b, addr.clone(), tables.clone());
        conns.push(Conn { io: a, client, addr, chunk_i: 0, eods_sent: 0, rx: Vec::new() });
        models.push(BTreeSet::new());
    }
    if conns.len() >= 2 {
        info.nontrivial = true;
        info = info.class("two-caches");
    }

    macro_rules! check_state {
        ($what:expr) => {{
            for (i, conn) in conns.iter().enumerate() {
                let got = installed(&tables, &conn.addr);
                let n = installed_count(&tables, &conn.addr);
                if got != models[i] || n != models[i].len() {
                    let missing: Vec<_> = models[i].difference(&got).take(3).collect();
                    let extra: Vec<_> = got.difference(&models[i]).take(3).collect();
                    return Err(Failure::new("vrp-set", format!("{}: cache {i} has {} VRPs installed ({} records), the script folds to {}; missing {:?}, unexpected {:?}", $what, got.len(), n, models[i].len(), missing, extra))
                        .with("what", $what.split(':').next().unwrap_or("").to_string())
                        .with("missing", !missing.is_empty())
                        .with("unexpected", !extra.is_empty()));
                }
                let e = conn.client.state.end_of_data.load(std::sync::atomic::Ordering::Relaxed);
                if e != conn.eods_sent {
                    return Err(Failure::new("no-progress", format!("{}: cache {i} sent {} End-of-Data PDUs, the client has consumed {e}", $what, conn.eods_sent)).with("what", $what.split(':').next().unwrap_or("").to_string()));
                }
            }
        }};
    }

    // ---- initial full responses -------------------------------------------
    for (i, s) in c.caches.iter().enumerate().take(2) {
        settle(&conns[i]).await;
        let q = drain_queries(&mut conns[i]).await;
        if !q.contains(&2) {
            return Err(Failure::new("no-reset-query", format!("cache {i}: the client did not start with a Reset Query (saw PDU types {q:?})")));
        }
        let mut bytes = hdr(s.v1, 3, s.session_id, 8);
        let mut set = BTreeSet::new();
        for (k, v) in s.initial.iter().enumerate() {
            bytes.extend(vrp_pdu(s.v1, true, v));
            set.insert(vrp_key(v));
            if s.v1 && (k as u8) < s.initial_router_keys {
                bytes.extend(router_key(k as u8));
                info.nontrivial = true;
                info = info.class("router-key-in-stream");
            }
        }
        bytes.extend(eod(s.v1, s.session_id, if s.serial0 { 0 } else { 1 }));
        conns[i].eods_sent += 1;
        if !send(&mut conns[i], &bytes, &s.chunks).await {
            return Err(Failure::new("session-died", format!("cache {i}: the client closed the session during a well-formed initial response")).with("phase", "initial"));
        }
        models[i] = set;
        check_state!(format!("initial: after End-of-Data of cache {i}"));
    }

    // ---- rounds -------------------------------------------------------------
    let max_rounds = c.caches.iter().map(|s| s.rounds.len()).max().unwrap_or(0);
    let mut serial: Vec<u32> = (0..conns.len()).map(|i| if c.caches.get(i).is_some_and(|s| s.serial0) { 0 } else { 1 }).collect();
    let mut lost = vec![false; conns.len()];
    for r in 0..=max_rounds {
        for (i, s) in c.caches.iter().enumerate().take(2) {
            if lost[i] {
                continue;
            }
            if let Some(l) = &s.loss
                && (l.round as usize).min(s.rounds.len()) == r
            {
                // ---- session loss in mid-conversation -------------------------
                let kind = match &l.kind {
                    LossKind::AfterNotifyNew => {
                        let mut bytes = hdr(s.v1, 0, s.session_id, 12);
                        bytes.extend_from_slice(&(serial[i] + 1).to_be_bytes());
                        let _ = conns[i].io.write_all(&bytes).await;
                        "after-notify"
                    }
                    LossKind::AfterCacheReset | LossKind::MidResponse(_) => {
                        conns[i].client.soft_reset.notify_one();
                        settle(&conns[i]).await;
                        let _ = drain_queries(&mut conns[i]).await;
                        if let LossKind::MidResponse(deltas) = &l.kind {
                            let mut bytes = hdr(s.v1, 3, s.session_id, 8);
                            let mut m = models[i].clone();
                            for (announce, v) in deltas {
                                let key = vrp_key(v);
                                if (*announce && m.insert(key.clone())) || (!*announce && m.remove(&key)) {
                                    bytes.extend(vrp_pdu(s.v1, *announce, v));
                                }
                            }
                            let _ = conns[i].io.write_all(&bytes).await;
                            "mid-response"
                        } else {
                            let _ = conns[i].io.write_all(&hdr(s.v1, 8, 0, 8)).await;
                            "after-cache-reset"
                        }
                    }
                    LossKind::WhilePolled => {
                        conns[i].client.soft_reset.notify_one();
                        "while-polled"
                    }
                    LossKind::Idle => "idle",
                };
                // the cache's end goes away at once, nothing the client sends is read
                let (dead, _) = tokio::io::duplex(16);
                drop(std::mem::replace(&mut conns[i].io, dead));
                lost[i] = true;
                if tokio::time::timeout(std::time::Duration::from_secs(30), &mut conns[i].client.task).await.is_err() {
                    return Err(Failure::new("client-hangs", format!("cache {i}: the client task did not end within 30 s of the connection loss ({kind})")).with("loss", kind));
                }
                models[i].clear();
                let left = installed_count(&tables, &conns[i].addr);
                if left != 0 {
                    return Err(Failure::new("vrp-after-close", format!("{left} VRPs of {} remain installed after its session was lost ({kind})", conns[i].addr)).with("loss", kind));
                }
                for (j, other) in conns.iter().enumerate() {
                    if j != i && installed(&tables, &other.addr) != models[j] {
                        return Err(Failure::new("vrp-set", format!("losing another cache's session changed the VRPs of {}", other.addr)).with("what", "close").with("missing", true).with("unexpected", false));
                    }
                }
                info.nontrivial = true;
                info = info.class("session-lost").class(match kind {
                    "after-notify" => "lost/after-notify",
                    "mid-response" => "lost/mid-response",
                    "after-cache-reset" => "lost/after-cache-reset",
                    "while-polled" => "lost/while-polled",
                    _ => "lost/idle",
                });
                continue;
            }
            let Some(round) = s.rounds.get(r) else { continue };
            match round {
                Round::Incremental { deltas, router_keys } => {
                    conns[i].client.soft_reset.notify_one();
                    settle(&conns[i]).await;
                    let q = drain_queries(&mut conns[i]).await;
                    if !q.contains(&1) {
                        // the client may decline to poll; a conforming cache then sends nothing
                        info = info.class("no-serial-query");
                        continue;
                    }
                    serial[i] += 1;
                    let mut bytes = hdr(s.v1, 3, s.session_id, 8);
                    for (k, (announce, v)) in deltas.iter().enumerate() {
                        let key = vrp_key(v);
                        // a conforming cache only withdraws what it announced and vice versa
                        if *announce {
                            if !models[i].insert(key) {
                                continue;
                            }
                        } else if !models[i].remove(&key) {
                            continue;
                        } else {
                            info.nontrivial = true;
                            info = info.class("incremental-withdraw");
                        }
                        bytes.extend(vrp_pdu(s.v1, *announce, v));
                        if s.v1 && (k as u8) < *router_keys {
                            bytes.extend(router_key(k as u8));
                            info = info.class("router-key-in-stream");
                        }
                    }
                    bytes.extend(eod(s.v1, s.session_id, serial[i]));
                    conns[i].eods_sent += 1;
                    if !send(&mut conns[i], &bytes, &s.chunks).await {
                        return Err(Failure::new("session-died", format!("cache {i}: the client closed the session during a well-formed incremental response")).with("phase", "incremental"));
                    }
                    info = info.class("incremental-round");
                    check_state!(format!("incremental: after End-of-Data #{} of cache {i}", conns[i].eods_sent));
                }
                Round::CacheReset { full, same_serial } => {
                    conns[i].client.soft_reset.notify_one();
                    settle(&conns[i]).await;
                    let q = drain_queries(&mut conns[i]).await;
                    if !q.contains(&1) {
                        info = info.class("no-serial-query");
                        continue;
                    }
                    let bytes = hdr(s.v1, 8, 0, 8);
                    if !send(&mut conns[i], &bytes, &s.chunks).await {
                        return Err(Failure::new("session-died", format!("cache {i}: the client closed the session on Cache Reset")).with("phase", "cache-reset"));
                    }
                    let q = drain_queries(&mut conns[i]).await;
                    info = info.class("cache-reset");
                    if !q.contains(&2) {
                        return Err(Failure::new("cache-reset-ignored", format!("cache {i}: Cache Reset was not answered with a Reset Query (client sent {q:?}); the session can make no further progress")));
                    }
                    if !*same_serial {
                        serial[i] += 1;
                    } else {
                        info = info.class("full-set-under-the-same-serial");
                    }
                    let mut bytes = hdr(s.v1, 3, s.session_id, 8);
                    let mut set = BTreeSet::new();
                    for v in full {
                        bytes.extend(vrp_pdu(s.v1, true, v));
                        set.insert(vrp_key(v));
                    }
                    bytes.extend(eod(s.v1, s.session_id, serial[i]));
                    conns[i].eods_sent += 1;
                    if !send(&mut conns[i], &bytes, &s.chunks).await {
                        return Err(Failure::new("session-died", format!("cache {i}: the client closed the session during the full response after Cache Reset")).with("phase", "cache-reset"));
                    }
                    models[i] = set;
                    info.nontrivial = true;
                    check_state!(format!("cache-reset: after the new full set of cache {i}"));
                }
                Round::NotifySame => {
                    let mut bytes = hdr(s.v1, 0, s.session_id, 12);
                    bytes.extend_from_slice(&serial[i].to_be_bytes());
                    if !send(&mut conns[i], &bytes, &s.chunks).await {
                        return Err(Failure::new("session-died", format!("cache {i}: the client closed the session on Serial Notify")).with("phase", "notify"));
                    }
                    let _ = drain_queries(&mut conns[i]).await;
                    check_state!(format!("notify: after Serial Notify of cache {i}"));
                }
                Round::ErrorReport { code, text } => {
                    // "No Data Available" (2) is the non-fatal code a cache may send
                    let _ = code;
                    let txt = vec![b'x'; *text as usize % 40];
                    let mut bytes = hdr(s.v1, 10, 2, 16 + txt.len() as u32);
                    bytes.extend_from_slice(&0u32.to_be_bytes());
                    bytes.extend_from_slice(&(txt.len() as u32).to_be_bytes());
                    bytes.extend_from_slice(&txt);
                    let alive = send(&mut conns[i], &bytes, &s.chunks).await;
                    let _ = alive;
                    info = info.class("error-report-with-text");
                    check_state!(format!("error-report: after Error Report of cache {i}"));
                }
            }
        }
    }

    // ---- session end --------------------------------------------------------
    for i in 0..conns.len() {
        if lost[i] || !c.caches[i].close {
            continue;
        }
        let addr = conns[i].addr.clone();
        let (dead, _) = tokio::io::duplex(16);
        drop(std::mem::replace(&mut conns[i].io, dead));
        lost[i] = true;
        let _ = tokio::time::timeout(std::time::Duration::from_secs(5), &mut conns[i].client.task).await;
        models[i].clear();
        let left = installed_count(&tables, &addr);
        if left != 0 {
            return Err(Failure::new("vrp-after-close", format!("{left} VRPs of {addr} remain installed after its session ended")).with("loss", "end"));
        }
        // the others are untouched
        for (j, other) in conns.iter().enumerate() {
            if j != i && installed(&tables, &other.addr) != models[j] {
                return Err(Failure::new("vrp-set", format!("closing another cache's session changed the VRPs of {}", other.addr)).with("what", "close").with("missing", true).with("unexpected", false));
            }
        }
        info = info.class("session-closed");
    }
    for (i, conn) in conns.into_iter().enumerate() {
        if lost[i] {
            continue;
        }
        conn.client.cancel.cancel();
        let _ = tokio::time::timeout(std::time::Duration::from_secs(5), conn.client.task).await;
    }
    Ok(info)
}

pub fn check(c: &Case) -> CheckResult {
    let rt = tokio::runtime::Builder::new_current_thread().enable_all().build().unwrap();
    rt.block_on(run_case(c))
}

fn arb_vrp() -> impl Strategy<Value = Vrp> {
    (prop::bool::weighted(0.3), prop_oneof![Just(0x0a00_0000u32), Just(0x0a01_0000u32), Just(0x0a01_0200u32), Just(0xc0a8_0000u32), 0u32..4], prop_oneof![Just(8u8), Just(16), Just(24), Just(20), Just(0), Just(32)], 0u8..4, prop_oneof![Just(64500u32), Just(64501u32), Just(0u32)])
        .prop_map(|(v6, addr, len, dm, asn)| Vrp { v6, addr, len, max: len.saturating_add(dm * 4), asn })
}

fn arb_round() -> impl Strategy<Value = Round> {
    prop_oneof![
        6 => (proptest::collection::vec((prop::bool::weighted(0.5), arb_vrp()), 0..6), 0u8..3).prop_map(|(deltas, router_keys)| Round::Incremental { deltas, router_keys }),
        1 => (proptest::collection::vec(arb_vrp(), 0..5), any::<bool>()).prop_map(|(full, same_serial)| Round::CacheReset { full, same_serial }),
        1 => Just(Round::NotifySame),
        1 => (0u16..9, any::<u8>()).prop_map(|(code, text)| Round::ErrorReport { code, text }),
    ]
}

fn arb_loss() -> impl Strategy<Value = Option<Loss>> {
    let kind = prop_oneof![
        3 => Just(LossKind::AfterNotifyNew),
        2 => Just(LossKind::AfterCacheReset),
        3 => proptest::collection::vec((prop::bool::weighted(0.6), arb_vrp()), 0..5).prop_map(LossKind::MidResponse),
        2 => Just(LossKind::WhilePolled),
        1 => Just(LossKind::Idle),
    ];
    prop_oneof![3 => Just(None), 2 => (0u8..6, kind).prop_map(|(round, kind)| Some(Loss { round, kind }))]
}

fn arb_script() -> impl Strategy<Value = CacheScript> {
    (arb_loss(), any::<bool>(), prop_oneof![1 => Just(0u16), 4 => any::<u16>()], proptest::collection::vec(arb_vrp(), 0..7), 0u8..3, proptest::collection::vec(arb_round(), 0..5), proptest::collection::vec(prop_oneof![1u8..8, 8u8..40, Just(255u8)], 0..4), prop::bool::weighted(0.4), prop::bool::weighted(0.3))
        .prop_map(|(loss, v1, session_id, initial, initial_router_keys, mut rounds, chunks, close, serial0)| {
            // incremental withdrawals should hit: retarget half of them at known VRPs
            let mut known: Vec<Vrp> = initial.clone();
            for r in rounds.iter_mut() {
                if let Round::Incremental { deltas, .. } = r {
                    for (k, (announce, v)) in deltas.iter_mut().enumerate() {
                        if !*announce && !known.is_empty() && k % 3 != 2 {
                            *v = known[(v.asn as usize + k) % known.len()].clone();
                        }
                        if *announce {
                            known.push(v.clone());
                        }
                    }
                }
            }
            CacheScript { loss, v1, session_id, initial, initial_router_keys, rounds, chunks, close, serial0 }
        })
}

pub fn arb_case() -> impl Strategy<Value = Case> {
    proptest::collection::vec(arb_script(), 1..3).prop_map(|caches| Case { caches })
}

pub fn run(r: &Run) {
    r.set_rule(RULE);
    r.assume("the cache is conforming: a full response carries only announcements, it withdraws only what it announced, VRPs are canonical; the incremental exchange is provoked through the client's own soft-reset hook (a client that declines to poll is not judged on that round)");
    r.assume("'idle' = the client's receive counters stopped moving over several scheduler yields on a single-threaded runtime with in-memory I/O (no timers are involved in serve_inner)");
    r.prop("cache-scripts", r.tier.pick(20_000, 400_000), arb_case, check);
}

pub fn replay(_sub: &str, case: &Value) -> Result<CheckResult, String> {
    let c: Case = decode_case(case)?;
    Ok(check(&c))
}
