//! A real `TableManager` (several shards) driven by generated histories, with the
//! schedule owned by the harness: `nested` runs another complete call at the k-th
//! scheduling point (guarded hook `table_manager::verif::sched`) reached by `op`.
//! Shared by C18 (subscribers) and C20 (kernel FIB / next-hop tracking).

use crate::cgen::*;
use crate::common::*;
use crate::table_manager::verif as tmv;
use crate::table_manager::{BgpEvent, PeerDownData, Subscription, TableManager};
use rustybgp_kernel as kernel;
use rustybgp_packet as packet;
use rustybgp_packet::bgp::{self, Family, Nexthop, PathNlri};
use rustybgp_table as table;
use serde::{Deserialize, Serialize};
use std::cell::{Cell, RefCell};
use std::collections::BTreeMap;
use std::net::{IpAddr, Ipv4Addr, Ipv6Addr};
use std::rc::Rc;
use std::sync::Arc;

pub const N_SHARDS: usize = 3;
pub const N_PEERS: u8 = 3;
pub const N_PREFIX: u8 = 10;
pub const N_NH: u8 = 4;

#[derive(Clone, Debug, Serialize, Deserialize, PartialEq)]
pub enum TmOp {
    /// attrs: variant index (local-pref / as-path length / community / med differ)
    Insert { peer: u8, prefix: u8, path_id: u8, attrs: u8, nh: u8 },
    Remove { peer: u8, prefix: u8, path_id: u8 },
    /// session loss without graceful restart: unregister_peer(drop all families), then the PeerDown event
    DropPeer { peer: u8 },
    /// session loss with graceful restart: routes of the peer become stale
    MarkStale { peer: u8 },
    /// graceful restart purge of what is still stale
    DropStale { peer: u8 },
    /// install import policy variant `policy`, then soft_reset_in(peer)
    SoftResetIn { peer: u8, policy: u8 },
    /// next-hop tracking report
    NhReach { nh: u8, reachable: bool },
    Subscribe,
    Unsubscribe(u8),
    /// a path from the API (kind 0, Source::local) or from the kernel (kind 1, Source::kernel)
    InsertLocal { kind: u8, prefix: u8, attrs: u8, nh: u8 },
    RemoveLocal { kind: u8, prefix: u8 },
    /// the restart timer of a peer in helper mode expired with LLGR negotiated: its stale routes become
    /// LLGR-stale and those carrying NO_LLGR are dropped
    MarkLlgrStale { peer: u8 },
    /// the LLGR stale time of the peer expired
    DropLlgrStale { peer: u8 },
}

#[derive(Clone, Debug, Serialize, Deserialize, PartialEq)]
pub struct Step {
    pub op: TmOp,
    /// (k, op): run `op` at the k-th scheduling point reached inside `self.op`
    pub nested: Option<(u8, TmOp)>,
}

pub const LOCAL_ASN: u32 = 65000;

/// (role, remote AS) for role code `r` of peer `i`
pub fn role_of(r: u8, i: u8) -> (table::PeerRole, u32) {
    match r % 5 {
        0 => (table::PeerRole::Ebgp, 65100 + i as u32),
        1 => (table::PeerRole::Ibgp, LOCAL_ASN),
        2 => (table::PeerRole::IbgpRrClient, LOCAL_ASN),
        3 => (table::PeerRole::RsClient, 65100 + i as u32),
        _ => (table::PeerRole::ConfedEbgp, 64600 + i as u32),
    }
}

pub fn peer_ip(i: u8) -> IpAddr {
    match i % N_PEERS {
        2 => IpAddr::V6("2001:db8:ffff::2".parse::<Ipv6Addr>().unwrap()),
        k => IpAddr::V4(Ipv4Addr::new(10, 0, 0, 2 + k)),
    }
}

/// first index of the VPNv4 prefixes (C20's VRF distribution); indexes below it are taken modulo N_PREFIX
pub const VPN_PREFIX_BASE: u8 = 200;
pub const N_VPN_PREFIX: u8 = 4;

/// route targets used by the VRFs of `Rig::with_vrfs` (8-octet extended communities)
pub fn route_target(n: u8) -> [u8; 8] {
    [0x00, 0x02, 0xfd, 0xe8, 0, 0, 0, n]
}

/// first index of the FlowSpec prefixes (routes without a next hop)
pub const FLOWSPEC_PREFIX_BASE: u8 = 230;

pub fn prefix(i: u8) -> (Family, packet::Nlri) {
    if i >= FLOWSPEC_PREFIX_BASE {
        let k = (i - FLOWSPEC_PREFIX_BASE) % 3;
        let spec = crate::cgen::nlri::NlriSpec::Flowspec { v6: false, rd: None, comps: vec![crate::cgen::nlri::FsComp::Prefix { src: false, addr: crate::cgen::nlri::u128v(((10u128) << 24) | ((70 + k as u128) << 16)), len: 16, offset: 0 }] };
        return (Family::IPV4_FLOWSPEC, spec.build());
    }
    if i >= VPN_PREFIX_BASE {
        // one route distinguisher per prefix: what a VRF should hold when two VPN routes map
        // to the same VRF prefix is not fixed by any statement here
        let k = (i - VPN_PREFIX_BASE) % N_VPN_PREFIX;
        let n = packet::vpn::VpnV4Nlri { labels: packet::mpls::MplsLabelStack::new(vec![packet::mpls::MplsLabel::new(100 + k as u32)]), rd: packet::rd::RouteDistinguisher::TwoOctetAs { admin: 65000, assigned: 1 + k as u32 }, prefix: bgp::Ipv4Net { addr: Ipv4Addr::new(10, 50 + k, 0, 0), mask: 16 } };
        return (Family::IPV4_VPN, packet::Nlri::VpnV4(n));
    }
    let i = i % N_PREFIX;
    if i < 7 {
        (Family::IPV4, v4(10, 1 + i, 0, 0, 16 + i))
    } else {
        (Family::IPV6, packet::Nlri::V6(bgp::Ipv6Net { addr: Ipv6Addr::from(((0x2001_0db8u128) << 96) | ((i as u128) << 64)), mask: 64 }))
    }
}

pub fn nh_addr(k: u8, v6: bool) -> Nexthop {
    if v6 { Nexthop::V6(Ipv6Addr::from(((0x2001_0db8u128) << 96) | (0xaa << 16) | (k % N_NH) as u128 + 1)) } else { Nexthop::V4(Ipv4Addr::new(192, 0, 2, 1 + k % N_NH)) }
}

pub fn attrs_variant(v: u8) -> Arc<Vec<packet::Attribute>> {
    if (50..56).contains(&v) {
        // variant v - 50 with the NO_LLGR community (RFC 9494)
        let mut attrs = (*attrs_variant(v - 50)).clone();
        let mut comms: Vec<u8> = attrs.iter().find(|a| a.code() == 8).and_then(|a| a.binary().cloned()).unwrap_or_default();
        comms.extend_from_slice(&[0xff, 0xff, 0x00, 0x07]);
        attrs.retain(|a| a.code() != 8);
        attrs.push(packet::Attribute::new_with_bin(packet::Attribute::COMMUNITY, comms).unwrap());
        attrs.sort_by_key(|a| a.code());
        return Arc::new(attrs);
    }
    if (60..66).contains(&v) {
        // variant v - 60 with an empty AS_PATH (no origin AS: a route originated inside the local AS)
        let mut attrs = (*attrs_variant(v - 60)).clone();
        attrs.retain(|a| a.code() != packet::Attribute::AS_PATH);
        attrs.push(packet::Attribute::new_with_bin(packet::Attribute::AS_PATH, Vec::new()).unwrap());
        attrs.sort_by_key(|a| a.code());
        return Arc::new(attrs);
    }
    if v >= 100 {
        // VPN routes: base variant (v - 100) % 3, route targets by ((v - 100) / 3) % 4: {1}, {2}, {1, 2}, none
        let k = v - 100;
        let mut attrs = (*attrs_variant(k % 3)).clone();
        let rts: Vec<u8> = match (k / 3) % 4 {
            0 => vec![1],
            1 => vec![2],
            2 => vec![1, 2],
            _ => vec![],
        };
        if !rts.is_empty() {
            let bin: Vec<u8> = rts.iter().flat_map(|n| route_target(*n)).collect();
            attrs.push(packet::Attribute::new_with_bin(packet::Attribute::EXTENDED_COMMUNITY, bin).unwrap());
            attrs.sort_by_key(|a| a.code());
        }
        return Arc::new(attrs);
    }
    let v = v % 6;
    let spec = AttrSpec {
        origin: Some(0),
        as_path: Some(vec![Seg { t: SEG_SEQ, n: 1 + (v % 2) as u16, base: 65100, asns: vec![] }]),
        med: if v == 2 { Some(50) } else { None },
        local_pref: if v == 3 { Some(200) } else { None },
        communities: if v >= 4 { vec![0xfde8_0001] } else { vec![] },
        ..AttrSpec::default()
    };
    Arc::new(spec.build())
}

pub struct Sub {
    pub sub: Option<Subscription>,
    pub pre: BTreeMap<String, (Option<Nexthop>, Arc<Vec<packet::Attribute>>)>,
    pub post: BTreeMap<String, (Option<Nexthop>, Arc<Vec<packet::Attribute>>)>,
    pub end_of_snapshot: u32,
    pub events: u64,
    pub snapshot_events: u64,
    pub active: bool,
    /// born inside another call (nested) or while another call was suspended
    pub concurrent: bool,
}

pub struct Rig {
    /// per-peer prefix-limit counters of the current sessions and the configured maximum (C15 tm-limits)
    pub limits: RefCell<Option<(u32, Vec<Arc<std::sync::atomic::AtomicU64>>)>>,
    /// the peer whose insert was refused for its limit by the last op
    pub exceeded: Cell<Option<u8>>,
    pub tm: Arc<TableManager>,
    pub sources: Vec<Arc<table::Source>>,
    pub subs: RefCell<Vec<Sub>>,
    pub policies: Vec<Option<Arc<table::PolicyAssignment>>>,
    pub fired: Cell<u32>,
    pub in_nested: Cell<bool>,
    pub kernel_rx: RefCell<Option<kernel::verif::VerifReceiver>>,
    _policy_tables: Vec<table::PolicyTable>,
}

fn policy_variants() -> (Vec<Option<Arc<table::PolicyAssignment>>>, Vec<table::PolicyTable>) {
    use super::c14::*;
    let mk = |stmts: Vec<Stmt>| Program {
        prefix_sets: vec![vec![(1, 8, 32)], vec![(0, 0, 32)]],
        neighbor_sets: vec![vec![0], vec![1]],
        aspath_sets: vec![vec![AsPat::Include(65100)], vec![AsPat::Include(1)]],
        comm_sets: vec![vec![CommPat::Exact(0xfde8_0001)], vec![CommPat::Exact(1)]],
        ext_sets: vec![vec![1], vec![2]],
        large_sets: vec![vec![(1, 2, 3)], vec![(1, 2, 4)]],
        policies: vec![(0..stmts.len() as u8).collect()],
        stmts,
        assign: vec![0],
        default_accept: true,
        export: false,
        is_confed: false,
    };
    let p1 = mk(vec![Stmt { conds: vec![Cond::CommunitySet(0, Opt::Any)], disp: Some(false), act: Act::default() }]);
    let p2 = mk(vec![Stmt { conds: vec![Cond::AsPathLength(0, 2)], disp: Some(false), act: Act::default() }, Stmt { conds: vec![], disp: Some(true), act: Act { local_pref: Some(300), ..Act::default() } }]);
    let mut out = vec![None];
    let mut keep = Vec::new();
    for p in [p1, p2] {
        let (t, a) = load(&p).expect("rig policy loads");
        out.push(Some(a));
        keep.push(t);
    }
    (out, keep)
}

impl Rig {
    pub fn new(with_kernel: bool) -> Rc<Rig> {
        Self::with_roles(with_kernel, [0, 0, 0])
    }

    /// roles: 0 eBGP, 1 iBGP, 2 iBGP route-reflector client, 3 route-server client, 4 confederation eBGP
    pub fn with_roles(with_kernel: bool, roles: [u8; 3]) -> Rc<Rig> {
        let tm = Arc::new(TableManager::new(N_SHARDS));
        let sources = (0..N_PEERS)
            .map(|i| {
                let a = peer_ip(i);
                let local = if a.is_ipv4() { IpAddr::V4(Ipv4Addr::new(10, 0, 0, 1)) } else { IpAddr::V6("2001:db8:ffff::1".parse().unwrap()) };
                let (role, asn) = role_of(roles[i as usize], i);
                Arc::new(table::Source::new(a, local, asn, LOCAL_ASN, Ipv4Addr::new(1, 1, 1, 10 + i), role))
            })
            .collect();
        let (policies, keep) = policy_variants();
        let mut kernel_rx = None;
        if with_kernel {
            let (h, rx) = kernel::verif::handle();
            tm.kernel_handle.store(Some(Arc::new(h)));
            kernel_rx = Some(rx);
        }
        Rc::new(Rig { limits: RefCell::new(None), exceeded: Cell::new(None), tm, sources, subs: RefCell::new(Vec::new()), policies, fired: Cell::new(0), in_nested: Cell::new(false), kernel_rx: RefCell::new(kernel_rx), _policy_tables: keep })
    }

    /// `with_roles(true, ..)` plus three VRFs: "a" (table 10, imports RT 1), "b" (table 20, imports RT 1 and 2),
    /// "c" (no kernel table, imports RT 2)
    pub fn with_vrfs() -> Rc<Rig> {
        let rig = Self::with_roles(true, [0, 0, 0]);
        let rd = |n: u32| packet::rd::RouteDistinguisher::TwoOctetAs { admin: 65000, assigned: 100 + n };
        let _ = rig.tm.add_vrf("a".into(), rd(1), [route_target(1)].into_iter().collect(), vec![route_target(1)], 10);
        let _ = rig.tm.add_vrf("b".into(), rd(2), [route_target(1), route_target(2)].into_iter().collect(), vec![route_target(2)], 20);
        let _ = rig.tm.add_vrf("c".into(), rd(3), [route_target(2)].into_iter().collect(), vec![], 0);
        rig
    }

    pub fn apply(self: &Rc<Self>, op: &TmOp) {
        match op {
            TmOp::Insert { peer, prefix: p, path_id, attrs, nh } => {
                let (family, nlri) = prefix(*p);
                let src = self.sources[(*peer % N_PEERS) as usize].clone();
                let limit = self.limits.borrow().as_ref().map(|(max, c)| (*max, c[(*peer % N_PEERS) as usize].clone()));
                // FlowSpec routes carry no next hop
                let nexthop = if family == Family::IPV4_FLOWSPEC { None } else { Some(nh_addr(*nh, family == Family::IPV6)) };
                if self.tm.insert_route(src, family, PathNlri { path_id: (*path_id % 2) as u32, nlri }, nexthop, attrs_variant(*attrs), limit, 1) {
                    self.exceeded.set(Some(*peer % N_PEERS));
                }
            }
            TmOp::Remove { peer, prefix: p, path_id } => {
                let (family, nlri) = prefix(*p);
                let src = self.sources[(*peer % N_PEERS) as usize].clone();
                let counter = self.limits.borrow().as_ref().map(|(_, c)| c[(*peer % N_PEERS) as usize].clone());
                self.tm.remove_route(src, family, PathNlri { path_id: (*path_id % 2) as u32, nlri }, counter, 2);
            }
            TmOp::MarkLlgrStale { peer } => {
                let src = &self.sources[(*peer % N_PEERS) as usize];
                self.tm.mark_llgr_stale(src.remote_addr, &[Family::IPV4, Family::IPV6]);
            }
            TmOp::DropLlgrStale { peer } => {
                let src = &self.sources[(*peer % N_PEERS) as usize];
                self.tm.drop_llgr_stale_families(src.remote_addr, &[Family::IPV4, Family::IPV6]);
            }
            TmOp::InsertLocal { kind, prefix: p, attrs, nh } => {
                let (family, nlri) = prefix(*p);
                let src = if kind % 2 == 0 { table::Source::local() } else { table::Source::kernel() };
                let _ = self.tm.insert_route(src, family, PathNlri { path_id: 0, nlri }, Some(nh_addr(*nh, family == Family::IPV6)), attrs_variant(*attrs), None, 1);
            }
            TmOp::RemoveLocal { kind, prefix: p } => {
                let (family, nlri) = prefix(*p);
                let src = if kind % 2 == 0 { table::Source::local() } else { table::Source::kernel() };
                self.tm.remove_route(src, family, PathNlri { path_id: 0, nlri }, None, 2);
            }
            TmOp::DropPeer { peer } => {
                let src = &self.sources[(*peer % N_PEERS) as usize];
                // the daemon's order on session loss (PeerSession::run): routes first, then the event
                self.tm.unregister_peer(src.remote_addr, &[Family::IPV4, Family::IPV6, Family::IPV4_VPN, Family::IPV4_FLOWSPEC], &[]);
                // the next session of the peer starts with a counter of its own
                if let Some((_, c)) = self.limits.borrow_mut().as_mut() {
                    c[(*peer % N_PEERS) as usize] = Arc::new(std::sync::atomic::AtomicU64::new(0));
                }
                self.tm.peer_down(PeerDownData { peer_addr: src.remote_addr, peer_asn: src.remote_asn, peer_id: src.router_id, uptime: 0, reason: packet::bmp::PeerDownReason::RemoteUnexpected });
            }
            TmOp::MarkStale { peer } => {
                let src = &self.sources[(*peer % N_PEERS) as usize];
                self.tm.unregister_peer(src.remote_addr, &[], &[Family::IPV4, Family::IPV6, Family::IPV4_VPN]);
            }
            TmOp::DropStale { peer } => {
                let src = &self.sources[(*peer % N_PEERS) as usize];
                self.tm.drop_stale_families(src.remote_addr, &[Family::IPV4, Family::IPV6, Family::IPV4_VPN]);
            }
            TmOp::SoftResetIn { peer, policy } => {
                let pol = self.policies[*policy as usize % self.policies.len()].clone();
                self.tm.import_policy.store(pol);
                self.tm.soft_reset_in(peer_ip(*peer));
            }
            TmOp::NhReach { nh, reachable } => {
                self.tm.update_nexthop_validity(nh_addr(*nh, false).addr(), *reachable);
            }
            TmOp::Subscribe => {
                let s = self.tm.subscribe(true);
                self.subs.borrow_mut().push(Sub { sub: Some(s), pre: BTreeMap::new(), post: BTreeMap::new(), end_of_snapshot: 0, events: 0, snapshot_events: 0, active: true, concurrent: self.in_nested.get() });
            }
            TmOp::Unsubscribe(k) => {
                let mut subs = self.subs.borrow_mut();
                let n = subs.len();
                if n > 0 {
                    let s = &mut subs[*k as usize % n];
                    if s.active {
                        if let Some(sub) = &s.sub {
                            self.tm.unsubscribe(sub.id);
                        }
                        s.active = false;
                    }
                }
            }
        }
    }

    /// run one step; returns whether the nested call was reached
    pub fn step(self: &Rc<Self>, st: &Step) -> bool {
        let fired = Rc::new(Cell::new(false));
        if let Some((k, nested)) = &st.nested {
            let me = self.clone();
            let nested = nested.clone();
            let k = *k;
            let mut n = 0u8;
            let f2 = fired.clone();
            tmv::set_hook(Some(Box::new(move |_point| {
                if n == k {
                    me.in_nested.set(true);
                    me.apply(&nested);
                    me.in_nested.set(false);
                    f2.set(true);
                }
                n = n.saturating_add(1);
            })));
        }
        self.apply(&st.op);
        tmv::set_hook(None);
        if fired.get() {
            self.fired.set(self.fired.get() + 1);
            // a subscription created by `op` itself while a nested writer ran is concurrent too
            if matches!(st.op, TmOp::Subscribe)
                && let Some(s) = self.subs.borrow_mut().last_mut()
            {
                s.concurrent = true;
            }
        }
        fired.get()
    }

    /// deliver everything queued so far to the subscribers' folds
    pub fn drain(&self) {
        for s in self.subs.borrow_mut().iter_mut() {
            let Some(sub) = s.sub.as_mut() else { continue };
            while let Ok(ev) = sub.rx.try_recv() {
                s.events += 1;
                if s.end_of_snapshot == 0 {
                    s.snapshot_events += 1;
                }
                match ev {
                    BgpEvent::AdjRibIn(ch) => fold(&mut s.pre, ch),
                    BgpEvent::AdjRibInPost(ch) => fold(&mut s.post, ch),
                    BgpEvent::PeerDown(d) => {
                        // RFC 7854 §4.9: a peer down withdraws everything learned from the peer
                        let p = format!("{}|", d.peer_addr);
                        s.pre.retain(|k, _| !k.starts_with(&p));
                        s.post.retain(|k, _| !k.starts_with(&p));
                    }
                    BgpEvent::EndOfSnapshot => s.end_of_snapshot += 1,
                    _ => {}
                }
            }
        }
    }
}

fn fold(m: &mut BTreeMap<String, (Option<Nexthop>, Arc<Vec<packet::Attribute>>)>, ch: crate::table_manager::AdjRibInChange) {
    for n in &ch.nlris {
        let k = format!("{}|{:?}|{:?}", ch.source.remote_addr, ch.family, n);
        match &ch.attrs {
            Some(a) => {
                m.insert(k, (ch.nexthop, a.clone()));
            }
            None => {
                m.remove(&k);
            }
        }
    }
}

impl Drop for Rig {
    fn drop(&mut self) {
        tmv::set_hook(None);
    }
}
