pub mod c12;
