pub mod c04;
pub mod c02;
pub mod c06;
pub mod c07;
pub mod c08;
pub mod c12;
pub mod c15;
pub mod tablehist;
