pub mod c02;
pub mod c12;
