//! C11 — a restarting speaker selects nothing until all helpers sent EOR or the timer fires.
//!
//! The real `RestartingDeferral` machine is driven together with a real `Table` through
//! a mirror of the daemon's glue (`process_restarting_outputs`: DeferFamilies ->
//! start_deferral, FamilyDeferralComplete / EndDeferral -> end_deferral). A reference
//! blocker set written from the statement says when a family may and must be released.

use crate::cgen::*;
use crate::common::*;
use crate::gr::{RestartingDeferral, RestartingInput, RestartingOutput};
use fnv::FnvHashMap;
use proptest::prelude::*;
use rustybgp_packet as packet;
use rustybgp_table as table;
use serde::{Deserialize, Serialize};
use serde_json::Value;
use std::collections::{BTreeMap, BTreeSet};
use std::net::{IpAddr, Ipv4Addr};
use std::sync::Arc;
use std::time::Duration;

pub const RULE: &str = "cases: up to 3 configured helper peers with graceful-restart family subsets of {ipv4, ipv6, vpnv4} (plus a peer without GR), timer enabled or disabled, and a sequence of peer-established (with any subset of the peer's configured families, incl. empty), End-of-RIB (incl. duplicates, unknown peers, families not pending), peer-withdrawn and timer-expired events interleaved with route insertions/removals into the deferred tables. \
Oracle: reference blocker set (a configured peer blocks family f from its last establishment with f - or from start - until it sends EOR(f), is withdrawn or re-establishes without f); a family is released (table deferral ended, routes announced) only when its blocker set is empty or the timer fired, is released as soon as that holds, at most once, and its release announces every prefix present exactly once with nothing announced before; is_completed() <=> everything released. \
non-trivial := at least two peers share a family and the family's release is decided by a different mechanism than the first blocker removal (EOR + withdrawal, EOR + re-establish without it, timer); distinct := distinct serialized case";

#[derive(Clone, Debug, Serialize, Deserialize)]
pub enum Ev {
    Established { peer: u8, fams: u8 },
    Eor { peer: u8, fam: u8 },
    Withdrawn { peer: u8 },
    TimerExpired,
    Insert { fam: u8, prefix: u8, peer: u8 },
    Remove { fam: u8, prefix: u8, peer: u8 },
}

#[derive(Clone, Debug, Serialize, Deserialize)]
pub struct Case {
    /// configured GR family mask per peer (bit i = family i); 0 = no GR
    pub cfg: Vec<u8>,
    pub timer: bool,
    pub evs: Vec<Ev>,
}

const FAMS: [packet::Family; 3] = [packet::Family::IPV4, packet::Family::IPV6, packet::Family::IPV4_VPN];

fn fam_idx(f: packet::Family) -> usize {
    FAMS.iter().position(|x| *x == f).unwrap_or(0)
}

fn paddr(p: u8) -> IpAddr {
    IpAddr::V4(Ipv4Addr::new(10, 0, 0, 1 + p))
}

fn net_of(fam: usize, k: u8) -> packet::Nlri {
    match fam {
        0 => v4(10, k % 4, 0, 0, 16),
        1 => v6_prefix(k % 3),
        _ => packet::Nlri::VpnV4(packet::vpn::VpnV4Nlri { labels: packet::mpls::MplsLabelStack::new(vec![packet::mpls::MplsLabel::new(100)]), rd: packet::rd::RouteDistinguisher::TwoOctetAs { admin: 65000, assigned: 1 }, prefix: packet::bgp::Ipv4Net { addr: Ipv4Addr::new(10, k % 4, 0, 0), mask: 16 } }),
    }
}

pub fn check(c: &Case) -> CheckResult {
    let npeer = c.cfg.len().min(4);
    let cfg: Vec<BTreeSet<usize>> = c.cfg.iter().take(npeer).map(|m| (0..3).filter(|i| m & (1 << i) != 0).collect()).collect();
    let gr_peers: FnvHashMap<IpAddr, Vec<packet::Family>> = cfg.iter().enumerate().map(|(p, s)| (paddr(p as u8), s.iter().map(|i| FAMS[*i]).collect())).collect();
    let deferred: BTreeSet<usize> = cfg.iter().flatten().copied().collect();
    let (mut machine, outs) = RestartingDeferral::new(gr_peers, if c.timer { Some(Duration::from_secs(360)) } else { None });

    let mut t = table::Table::new(0);
    let sources: Vec<Arc<table::Source>> = (0..4).map(|p| Arc::new(table::Source::new(paddr(p), IpAddr::V4(Ipv4Addr::new(10, 0, 0, 254)), 65100 + p as u32, 65000, Ipv4Addr::new(1, 1, 1, p + 1), table::PeerRole::Ebgp))).collect();
    let attr = Arc::new(AttrSpec { origin: Some(0), as_path: Some(vec![]), ..Default::default() }.build());

    // model
    let mut blockers: Vec<BTreeSet<usize>> = vec![BTreeSet::new(); 3]; // per family: peers blocking
    for (p, s) in cfg.iter().enumerate() {
        for f in s {
            blockers[*f].insert(p);
        }
    }
    // peers that MAY legitimately block again (re-established with the family after an
    // End-of-RIB or after having been withdrawn): the statement does not fix this case
    let mut may: Vec<BTreeSet<usize>> = vec![BTreeSet::new(); 3];
    let mut done_once: BTreeSet<(usize, usize)> = BTreeSet::new(); // (peer, family) unblocked before
    let mut released: BTreeMap<usize, usize> = BTreeMap::new(); // family -> times released
    let mut timer_armed = false;
    let mut timer_fired = false;
    let mut announced: BTreeMap<(usize, String), usize> = BTreeMap::new();
    let mut removal_mechanisms: Vec<BTreeSet<&'static str>> = vec![BTreeSet::new(); 3];
    let mut completed_seen = false;
    let mut up = [false; 4];
    // families of the peer's latest establishment for which no End-of-RIB arrived yet
    let mut owes: Vec<BTreeSet<usize>> = vec![BTreeSet::new(); 4];
    let mut info = CaseInfo::trivial();

    // glue mirror
    let mut apply = |outs: Vec<RestartingOutput>, t: &mut table::Table, released: &mut BTreeMap<usize, usize>, timer_armed: &mut bool, announced: &mut BTreeMap<(usize, String), usize>, step: usize| -> Result<(), Failure> {
        let mut to_end: Vec<packet::Family> = Vec::new();
        for o in outs {
            match o {
                RestartingOutput::DeferFamilies(fs) => {
                    for f in fs {
                        t.start_deferral(f);
                    }
                }
                RestartingOutput::StartDeferralTimer(d) => {
                    if d.is_some() {
                        *timer_armed = true;
                    }
                }
                RestartingOutput::FamilyDeferralComplete(f) => to_end.push(f),
                RestartingOutput::EndDeferral(rem) => to_end.extend(rem),
            }
        }
        for f in to_end {
            let fi = fam_idx(f);
            *released.entry(fi).or_default() += 1;
            let present: BTreeSet<String> = t.collect_loc_rib_paths(&f).iter().map(|c| c.net.to_string()).collect();
            let chs = t.end_deferral(f);
            let mut seen = BTreeSet::new();
            for ch in &chs {
                if !seen.insert(ch.net.to_string()) {
                    return Err(Failure::new("release-duplicate", format!("step {step}: release of {:?} announces {} twice", f, ch.net)));
                }
                *announced.entry((fi, ch.net.to_string())).or_default() += 1;
            }
            if seen != present {
                return Err(Failure::new("release-incomplete", format!("step {step}: release of {:?} announced {} prefixes, {} are present", f, seen.len(), present.len())));
            }
        }
        Ok(())
    };
    apply(outs, &mut t, &mut released, &mut timer_armed, &mut announced, 0)?;

    for (i, ev) in c.evs.iter().enumerate() {
        let step = i + 1;
        let mut machine_outs: Vec<RestartingOutput> = Vec::new();
        match ev {
            Ev::Established { peer, fams } => {
                let p = *peer as usize % 4;
                up[p] = true;
                owes[p] = if p < npeer { (0..3).filter(|i| fams & (1 << i) != 0 && cfg[p].contains(i)).collect() } else { BTreeSet::new() };
                // negotiated families are a subset of what the peer is configured with
                let s: BTreeSet<usize> = if p < npeer { (0..3).filter(|i| fams & (1 << i) != 0 && cfg[p].contains(i)).collect() } else { BTreeSet::new() };
                machine_outs = machine.process(RestartingInput::PeerEstablished(paddr(p as u8), s.iter().map(|i| FAMS[*i]).collect()));
                if p < npeer && !cfg[p].is_empty() && !completed_seen {
                    for f in 0..3 {
                        if s.contains(&f) {
                            if !released.contains_key(&f) && deferred.contains(&f) && !blockers[f].contains(&p) {
                                // blocked before and unblocked since: may block again
                                if done_once.contains(&(p, f)) {
                                    may[f].insert(p);
                                }
                            }
                        } else {
                            may[f].remove(&p);
                            if blockers[f].remove(&p) {
                                done_once.insert((p, f));
                                removal_mechanisms[f].insert("re-established-without");
                            }
                        }
                    }
                }
            }
            Ev::Eor { peer, fam } => {
                let p = *peer as usize % 4;
                let f = *fam as usize % 3;
                if !up[p] {
                    continue; // End-of-RIB only arrives on an established session
                }
                machine_outs = machine.process(RestartingInput::EorReceived(paddr(p as u8), FAMS[f]));
                may[f].remove(&p);
                owes[p].remove(&f);
                if blockers[f].remove(&p) {
                    done_once.insert((p, f));
                    removal_mechanisms[f].insert("eor");
                }
            }
            Ev::Withdrawn { peer } => {
                let p = *peer as usize % 4;
                up[p] = false;
                owes[p].clear();
                machine_outs = machine.process(RestartingInput::PeerWithdrawn(paddr(p as u8)));
                for f in 0..3 {
                    may[f].remove(&p);
                    if blockers[f].remove(&p) {
                        done_once.insert((p, f));
                        removal_mechanisms[f].insert("withdrawn");
                    }
                }
            }
            Ev::TimerExpired => {
                if !timer_armed || timer_fired {
                    continue;
                }
                timer_fired = true;
                machine_outs = machine.process(RestartingInput::TimerExpired);
                for f in 0..3 {
                    if !blockers[f].is_empty() {
                        removal_mechanisms[f].insert("timer");
                    }
                }
            }
            Ev::Insert { fam, prefix, peer } => {
                let f = *fam as usize % 3;
                let r = t.insert(sources[*peer as usize % 4].clone(), FAMS[f], net_of(f, *prefix), 0, Some(nexthop(0)), attr.clone(), None, false, false, None, step as u32);
                if let table::InsertResult::Changed(ch) = r {
                    if deferred.contains(&f) && !released.contains_key(&f) {
                        return Err(Failure::new("announced-while-held", format!("step {step}: insert into held family {:?} produced a routing change for {}", FAMS[f], ch.net)).with("op", "insert"));
                    }
                    *announced.entry((f, ch.net.to_string())).or_default() += 1;
                }
            }
            Ev::Remove { fam, prefix, peer } => {
                let f = *fam as usize % 3;
                let (ch, _) = t.remove(sources[*peer as usize % 4].clone(), FAMS[f], net_of(f, *prefix), 0, None);
                if let Some(ch) = ch
                    && deferred.contains(&f)
                    && !released.contains_key(&f)
                {
                    return Err(Failure::new("announced-while-held", format!("step {step}: remove in held family {:?} produced a routing change for {}", FAMS[f], ch.net)).with("op", "remove"));
                }
            }
        }
        let before: BTreeMap<usize, usize> = released.clone();
        apply(machine_outs, &mut t, &mut released, &mut timer_armed, &mut announced, step)?;

        // ---- oracle ----------------------------------------------------------
        for f in deferred.iter().copied() {
            let n = released.get(&f).copied().unwrap_or(0);
            if n > 1 {
                return Err(Failure::new("released-twice", format!("step {step} {ev:?}: family {:?} was released {n} times (its routes are announced again)", FAMS[f])).with("event", ev_name(ev)));
            }
            let newly = n == 1 && before.get(&f).copied().unwrap_or(0) == 0;
            if newly && !blockers[f].is_empty() && !timer_fired {
                return Err(Failure::new("released-early", format!("step {step} {ev:?}: family {:?} released while peers {:?} still owe an End-of-RIB for it and the timer has not fired", FAMS[f], blockers[f])).with("event", ev_name(ev)));
            }
            if n == 0 && ((blockers[f].is_empty() && may[f].is_empty()) || timer_fired) {
                return Err(Failure::new("stuck-deferring", format!("step {step} {ev:?}: family {:?} is still held although no peer is pending for it (timer fired: {timer_fired})", FAMS[f])).with("event", ev_name(ev)).with("timer_fired", timer_fired));
            }
        }
        let all_released = deferred.iter().all(|f| released.get(f).copied().unwrap_or(0) >= 1);
        let nobody_owes = owes.iter().all(|o| o.iter().all(|f| !deferred.contains(f)));
        if (machine.is_completed() && !all_released) || (!machine.is_completed() && all_released && (nobody_owes || timer_fired)) {
            return Err(Failure::new("completed-flag", format!("step {step} {ev:?}: is_completed() = {}, but all deferred families released = {all_released} (some peer still owes an EOR: {})", machine.is_completed(), !nobody_owes)).with("event", ev_name(ev)));
        }
        if machine.is_completed() {
            completed_seen = true;
        }
    }
    // non-deferred families are never "released"
    for (f, n) in &released {
        if !deferred.contains(f) && *n > 0 {
            return Err(Failure::new("released-twice", format!("family {:?} was never deferred but was released {n} times", FAMS[*f])).with("event", "-"));
        }
    }
    for f in deferred.iter() {
        let shared = cfg.iter().filter(|s| s.contains(f)).count() >= 2;
        if shared && removal_mechanisms[*f].len() >= 2 {
            info.nontrivial = true;
        }
        for m in &removal_mechanisms[*f] {
            info = info.class(match *m {
                "eor" => "unblocked-by/eor",
                "withdrawn" => "unblocked-by/withdrawn",
                "timer" => "unblocked-by/timer",
                _ => "unblocked-by/re-established-without",
            });
        }
    }
    Ok(info.class_if(completed_seen, "completed").class_if(timer_fired, "timer-fired"))
}

fn ev_name(e: &Ev) -> &'static str {
    match e {
        Ev::Established { .. } => "established",
        Ev::Eor { .. } => "eor",
        Ev::Withdrawn { .. } => "withdrawn",
        Ev::TimerExpired => "timer",
        Ev::Insert { .. } => "insert",
        Ev::Remove { .. } => "remove",
    }
}

pub fn arb_case(max: usize) -> impl Strategy<Value = Case> {
    let ev = prop_oneof![
        5 => (0u8..4, 0u8..8).prop_map(|(peer, fams)| Ev::Established { peer, fams }),
        8 => (0u8..4, 0u8..3).prop_map(|(peer, fam)| Ev::Eor { peer, fam }),
        2 => (0u8..4).prop_map(|peer| Ev::Withdrawn { peer }),
        1 => Just(Ev::TimerExpired),
        5 => (0u8..3, 0u8..4, 0u8..4).prop_map(|(fam, prefix, peer)| Ev::Insert { fam, prefix, peer }),
        1 => (0u8..3, 0u8..4, 0u8..4).prop_map(|(fam, prefix, peer)| Ev::Remove { fam, prefix, peer }),
    ];
    (proptest::collection::vec(prop_oneof![1 => Just(0u8), 5 => 1u8..8], 1..4), any::<bool>(), proptest::collection::vec(ev, 1..=max)).prop_map(|(cfg, timer, evs)| Case { cfg, timer, evs })
}

pub fn run(r: &Run) {
    r.set_rule(RULE);
    r.assume("the families a peer negotiates are a subset of the families it is configured with (the OPEN is built from that configuration)");
    r.assume("the timer fires only if the machine asked for it (StartDeferralTimer with a duration); the driver glue is mirrored, not executed: DeferFamilies -> start_deferral, FamilyDeferralComplete / EndDeferral -> end_deferral, as process_restarting_outputs does");
    r.assume("a peer that re-establishes with a family after having sent End-of-RIB for it, or after having been withdrawn, MAY block that family again (the statement does not fix it): such a peer never makes a release 'early' and keeps a held family from counting as 'stuck'");
    r.prop("event-sequences", r.tier.pick(200_000, 4_000_000), || arb_case(r.tier.pick(24, 60)), check);
    r.assume(GLUE_RULE);
    r.prop("daemon-glue", r.tier.pick(40_000, 1_000_000), || arb_case(r.tier.pick(24, 60)), check_glue);
    r.assume(super::c11e::RULE);
    r.slow(|| r.prop("restart-sessions", r.tier.pick(3_000, 100_000), || super::c11e::arb_case(10), super::c11e::check));
}

pub fn replay(sub: &str, case: &Value) -> Result<CheckResult, String> {
    if sub == "restart-sessions" {
        return super::c11e::replay(case);
    }
    let c: Case = decode_case(case)?;
    if sub == "daemon-glue" {
        return Ok(check_glue(&c));
    }
    Ok(check(&c))
}

// ---------------------------------------------------------------------------
// the same event sequences through the daemon's own glue (DeferralRig): Global's
// selection_deferral, PeerSession::process_effects, the spawned selection-deferral timer on
// a paused clock, process_restarting_outputs and a TableManager; what is "announced" is
// what an established neighbour session (a real PeerSession) puts on the wire.
// ---------------------------------------------------------------------------

pub const GLUE_RULE: &str = "daemon-glue: the same cases through the daemon's Global.selection_deferral + PeerSession::process_effects (GrSessionEstablished / GrEorReceived) + the spawned selection-deferral timer task (paused clock, advanced by the check) + \
process_restarting_outputs + TableManager; observed: UPDATEs queued for an established eBGP neighbour session after every event, and after every event a probe route per deferred family (inserted, then removed) tells whether the family is still held. \
Same reference blocker model; additionally the step that releases a family must announce exactly the prefixes present, once each, a held family announces nothing, and a released family is never held again";

fn probe_net(fam: usize) -> packet::Nlri {
    match fam {
        0 => v4(10, 250, 0, 0, 16),
        1 => packet::Nlri::V6(packet::bgp::Ipv6Net { addr: "2001:db8:fa00::".parse().unwrap(), mask: 48 }),
        _ => packet::Nlri::VpnV4(packet::vpn::VpnV4Nlri { labels: packet::mpls::MplsLabelStack::new(vec![packet::mpls::MplsLabel::new(100)]), rd: packet::rd::RouteDistinguisher::TwoOctetAs { admin: 65000, assigned: 1 }, prefix: packet::bgp::Ipv4Net { addr: Ipv4Addr::new(10, 250, 0, 0), mask: 16 } }),
    }
}

type Wire = (BTreeMap<(usize, String), usize>, BTreeSet<(usize, String)>);

async fn pump(obs: &mut crate::event::verif::Neighbor) -> Wire {
    let mut reach: BTreeMap<(usize, String), usize> = BTreeMap::new();
    let mut unreach = BTreeSet::new();
    obs.deliver(100_000).await;
    for m in obs.flush() {
        match m {
            packet::bgp::Message::Update(packet::bgp::Update::Reach { family, entries, .. }) => {
                for e in entries {
                    *reach.entry((fam_idx(family), e.nlri.to_string())).or_default() += 1;
                }
            }
            packet::bgp::Message::Update(packet::bgp::Update::Unreach { family, entries }) => {
                for e in entries {
                    unreach.insert((fam_idx(family), e.nlri.to_string()));
                }
            }
            _ => {}
        }
    }
    (reach, unreach)
}

pub fn check_glue(c: &Case) -> CheckResult {
    let rt = tokio::runtime::Builder::new_current_thread().enable_time().start_paused(true).build().map_err(|e| Failure::new("harness", e.to_string()))?;
    rt.block_on(glue(c))
}

async fn glue(c: &Case) -> CheckResult {
    use crate::event::verif::{DeferralRig, Neighbor, NeighborParams};
    let npeer = c.cfg.len().min(4);
    let cfg: Vec<BTreeSet<usize>> = c.cfg.iter().take(npeer).map(|m| (0..3).filter(|i| m & (1 << i) != 0).collect()).collect();
    let gr_peers: FnvHashMap<IpAddr, Vec<packet::Family>> = cfg.iter().enumerate().filter(|(_, s)| !s.is_empty()).map(|(p, s)| (paddr(p as u8), s.iter().map(|i| FAMS[*i]).collect())).collect();
    let deferred: BTreeSet<usize> = cfg.iter().flatten().copied().collect();
    let peers: Vec<IpAddr> = (0..4).map(paddr).collect();
    let mut rig = DeferralRig::new(&peers, gr_peers, if c.timer { Some(Duration::from_secs(360)) } else { None }).await;
    let tables = rig.tables.clone();
    let mut obs = Neighbor::establish(
        &tables,
        NeighborParams { remote_addr: IpAddr::V4(Ipv4Addr::new(10, 0, 9, 9)), role: table::PeerRole::Ebgp, local_asn: 65000, local_addr: IpAddr::V4(Ipv4Addr::new(10, 0, 0, 254)), confederation_id: 0, cluster_id: None, families: FAMS.to_vec(), effective_max: 1, export_policy: None },
    )
    .await;
    let _ = pump(&mut obs).await;
    let sources: Vec<Arc<table::Source>> = (0..4).map(|p| Arc::new(table::Source::new(paddr(p), IpAddr::V4(Ipv4Addr::new(10, 0, 0, 254)), 65100 + p as u32, 65000, Ipv4Addr::new(1, 1, 1, p + 1), table::PeerRole::Ebgp))).collect();
    let probe_src = Arc::new(table::Source::new(paddr(20), IpAddr::V4(Ipv4Addr::new(10, 0, 0, 254)), 65150, 65000, Ipv4Addr::new(1, 1, 1, 21), table::PeerRole::Ebgp));
    let attr = Arc::new(AttrSpec { origin: Some(0), as_path: Some(vec![]), ..Default::default() }.build());

    // model (as in `check`)
    let mut blockers: Vec<BTreeSet<usize>> = vec![BTreeSet::new(); 3];
    for (p, s) in cfg.iter().enumerate() {
        for f in s {
            blockers[*f].insert(p);
        }
    }
    let mut may: Vec<BTreeSet<usize>> = vec![BTreeSet::new(); 3];
    let mut done_once: BTreeSet<(usize, usize)> = BTreeSet::new();
    let mut released: BTreeMap<usize, usize> = BTreeMap::new();
    let mut is_released = [false; 3];
    let mut timer_fired = false;
    let mut removal_mechanisms: Vec<BTreeSet<&'static str>> = vec![BTreeSet::new(); 3];
    let mut completed_seen = false;
    let mut up = [false; 4];
    let mut owes: Vec<BTreeSet<usize>> = vec![BTreeSet::new(); 4];
    let mut info = CaseInfo::trivial();
    let mut released_with_routes = false;

    for (i, ev) in c.evs.iter().enumerate() {
        let step = i + 1;
        match ev {
            Ev::Established { peer, fams } => {
                let p = *peer as usize % 4;
                up[p] = true;
                let s: BTreeSet<usize> = if p < npeer { (0..3).filter(|i| fams & (1 << i) != 0 && cfg[p].contains(i)).collect() } else { BTreeSet::new() };
                owes[p] = s.clone();
                rig.established(p, s.iter().map(|i| FAMS[*i]).collect()).await;
                if p < npeer && !cfg[p].is_empty() && !completed_seen {
                    for f in 0..3 {
                        if s.contains(&f) {
                            if !released.contains_key(&f) && deferred.contains(&f) && !blockers[f].contains(&p) && done_once.contains(&(p, f)) {
                                may[f].insert(p);
                            }
                        } else {
                            may[f].remove(&p);
                            if blockers[f].remove(&p) {
                                done_once.insert((p, f));
                                removal_mechanisms[f].insert("re-established-without");
                            }
                        }
                    }
                }
            }
            Ev::Eor { peer, fam } => {
                let p = *peer as usize % 4;
                let f = *fam as usize % 3;
                if !up[p] {
                    continue;
                }
                rig.eor(p, FAMS[f]).await;
                may[f].remove(&p);
                owes[p].remove(&f);
                if blockers[f].remove(&p) {
                    done_once.insert((p, f));
                    removal_mechanisms[f].insert("eor");
                }
            }
            Ev::Withdrawn { peer } => {
                let p = *peer as usize % 4;
                up[p] = false;
                owes[p].clear();
                rig.withdrawn(p).await;
                for f in 0..3 {
                    may[f].remove(&p);
                    if blockers[f].remove(&p) {
                        done_once.insert((p, f));
                        removal_mechanisms[f].insert("withdrawn");
                    }
                }
            }
            Ev::TimerExpired => {
                let (_, armed) = rig.state().await;
                if !armed || timer_fired {
                    continue;
                }
                timer_fired = true;
                tokio::time::advance(Duration::from_secs(361)).await;
                for _ in 0..16 {
                    tokio::task::yield_now().await;
                }
                for f in 0..3 {
                    if !blockers[f].is_empty() {
                        removal_mechanisms[f].insert("timer");
                    }
                }
            }
            Ev::Insert { fam, prefix, peer } => {
                let f = *fam as usize % 3;
                let _ = tables.insert_route(sources[*peer as usize % 4].clone(), FAMS[f], packet::PathNlri { path_id: 0, nlri: net_of(f, *prefix) }, Some(nexthop(0)), attr.clone(), None, step as u32);
            }
            Ev::Remove { fam, prefix, peer } => {
                let f = *fam as usize % 3;
                tables.remove_route(sources[*peer as usize % 4].clone(), FAMS[f], packet::PathNlri { path_id: 0, nlri: net_of(f, *prefix) }, None, step as u32);
            }
        }
        // what the neighbour is sent because of this event
        let (reach, _unreach) = pump(&mut obs).await;
        // is each deferred family still held?
        let before: BTreeMap<usize, usize> = released.clone();
        for f in deferred.iter().copied() {
            let net = probe_net(f);
            let ins = tables.insert_route(probe_src.clone(), FAMS[f], packet::PathNlri { path_id: 0, nlri: net.clone() }, Some(nexthop(0)), attr.clone(), None, 0);
            let d0 = obs.delivered;
            let (r, _) = pump(&mut obs).await;
            if std::env::var("VERIF_DEBUG").is_ok() {
                eprintln!("  insert -> {ins}, delivered {}", obs.delivered - d0);
            }
            let now = r.contains_key(&(f, net.to_string()));
            if std::env::var("VERIF_DEBUG").is_ok() {
                eprintln!("step {step} fam {f} probe reach={r:?} event-reach={reach:?}");
            }
            tables.remove_route(probe_src.clone(), FAMS[f], packet::PathNlri { path_id: 0, nlri: net }, None, 0);
            let _ = pump(&mut obs).await;
            let announced: BTreeMap<String, usize> = reach.iter().filter(|((ff, _), _)| *ff == f).map(|((_, n), k)| (n.clone(), *k)).collect();
            if now && !is_released[f] {
                *released.entry(f).or_default() += 1;
                // the releasing step announces every prefix present, once
                let present: BTreeSet<String> = tables.collect_loc_rib_paths(FAMS[f]).iter().map(|c| c.net.to_string()).collect();
                if let Some((n, k)) = announced.iter().find(|(_, k)| **k > 1) {
                    return Err(Failure::new("release-duplicate", format!("step {step} {ev:?}: release of {:?} announces {n} {k} times", FAMS[f])).with("event", ev_name(ev)));
                }
                let got: BTreeSet<String> = announced.keys().cloned().collect();
                if got != present {
                    return Err(Failure::new("release-incomplete", format!("step {step} {ev:?}: release of {:?} announced {got:?} to the neighbour, the prefixes present are {present:?}", FAMS[f])).with("event", ev_name(ev)));
                }
                if !present.is_empty() {
                    released_with_routes = true;
                }
            } else if !now && is_released[f] {
                return Err(Failure::new("held-again", format!("step {step} {ev:?}: family {:?} had been released and is held back again", FAMS[f])).with("event", ev_name(ev)));
            } else if !now && !announced.is_empty() {
                return Err(Failure::new("announced-while-held", format!("step {step} {ev:?}: held family {:?} announced {announced:?} to the neighbour", FAMS[f])).with("op", ev_name(ev)));
            }
            is_released[f] = now;
        }

        // ---- oracle (as in `check`) -------------------------------------------
        for f in deferred.iter().copied() {
            let n = released.get(&f).copied().unwrap_or(0);
            let newly = n == 1 && before.get(&f).copied().unwrap_or(0) == 0;
            if newly && !blockers[f].is_empty() && !timer_fired {
                return Err(Failure::new("released-early", format!("step {step} {ev:?}: family {:?} released while peers {:?} still owe an End-of-RIB for it and the timer has not fired", FAMS[f], blockers[f])).with("event", ev_name(ev)));
            }
            if n == 0 && ((blockers[f].is_empty() && may[f].is_empty()) || timer_fired) {
                return Err(Failure::new("stuck-deferring", format!("step {step} {ev:?}: family {:?} is still held although no peer is pending for it (timer fired: {timer_fired})", FAMS[f])).with("event", ev_name(ev)).with("timer_fired", timer_fired));
            }
        }
        let all_released = deferred.iter().all(|f| released.get(f).copied().unwrap_or(0) >= 1);
        let nobody_owes = owes.iter().all(|o| o.iter().all(|f| !deferred.contains(f)));
        let (restarting, _) = rig.state().await;
        let completed = !restarting;
        if !deferred.is_empty() && ((completed && !all_released) || (!completed && all_released && (nobody_owes || timer_fired))) {
            return Err(Failure::new("completed-flag", format!("step {step} {ev:?}: restarting state cleared = {completed}, but all deferred families released = {all_released} (some peer still owes an EOR: {})", !nobody_owes)).with("event", ev_name(ev)));
        }
        if completed {
            completed_seen = true;
        }
    }
    for f in deferred.iter() {
        let shared = cfg.iter().filter(|s| s.contains(f)).count() >= 2;
        if shared && removal_mechanisms[*f].len() >= 2 {
            info.nontrivial = true;
        }
    }
    Ok(info.class_if(completed_seen, "glue/completed").class_if(timer_fired, "glue/timer-fired").class_if(released_with_routes, "glue/released-with-held-routes"))
}
