//! Shared history harness over the real `table::Table` for C06 (change stream
//! reproduces the RIB) and C15 (counters / prefix limits match the RIB).
//!
//! A case is a history over a small universe: 6 prefixes x 2 families x 3 peers
//! (each with restartable sessions = source generations) x path-ids {0,1,2} x a few
//! attribute sets x 3 next hops. The operations mirror how the daemon composes the
//! Table API (`TableShard::{disconnected, mark_stale, drop_stale, mark_llgr_stale,
//! drop_llgr_stale, end_deferral}`); ground truth is always a *recount* of the RIB's
//! own contents (`destinations(.., enable_filtered = true)`), never a second model.

use crate::cgen::*;
use crate::common::*;
use proptest::prelude::*;
use rustybgp_packet as packet;
use rustybgp_table as table;
use serde::{Deserialize, Serialize};
use std::collections::{BTreeMap, BTreeSet, HashMap};
use std::net::IpAddr;
use std::sync::Arc;
use std::sync::atomic::{AtomicU64, Ordering};

#[derive(Clone, Debug, Serialize, Deserialize)]
pub enum Op {
    Insert { peer: u8, fam: u8, prefix: u8, pid: u32, attrs: u8, nh: u8, filtered: bool },
    Remove { peer: u8, fam: u8, prefix: u8, pid: u32 },
    /// session down: families in `gr_mask` are marked stale, the others dropped
    PeerDown { peer: u8, gr_mask: u8 },
    /// session re-established: fresh source object and fresh per-session limit counters
    Reconnect { peer: u8 },
    /// restart timer expiry while down: families in `llgr_mask` enter LLGR
    /// (restale_llgr + drop_no_llgr), the others are purged (drop_stale)
    RestartTimer { peer: u8, llgr_mask: u8 },
    /// End-of-RIB / purge of what is still GR-stale
    DropStale { peer: u8, fam: u8 },
    /// LLGR timer expiry / EOR after LLGR
    DropLlgrStale { peer: u8, fam: u8 },
    NexthopFlip { nh: u8, reachable: bool },
    EndDeferral { fam: u8 },
}

#[derive(Clone, Debug, Serialize, Deserialize)]
pub struct Case {
    pub roles: Vec<Role>,
    /// per-peer, per-family prefix limit (None = unlimited)
    pub limits: Vec<Option<u32>>,
    /// families that start in deferral (restarting speaker)
    pub defer_mask: u8,
    pub shard: u8,
    pub ops: Vec<Op>,
}

#[derive(Clone, Copy, PartialEq, Eq)]
pub enum Mode {
    C06,
    C15,
}

const FAMS: [packet::Family; 2] = [packet::Family::IPV4, packet::Family::IPV6];

fn prefix_of(fam: usize, k: u8) -> packet::Nlri {
    if fam == 0 { small_prefix(k % 6) } else { v6_prefix(k % 4) }
}

/// the attribute palette: colliding best-path values, LLGR/NO_LLGR communities
fn attr_palette(k: u8) -> AttrSpec {
    let seq = |n: u16| Some(vec![Seg { t: SEG_SEQ, n, base: 65001, asns: vec![] }]);
    match k % 8 {
        0 => AttrSpec { origin: Some(0), as_path: seq(1), ..Default::default() },
        1 => AttrSpec { origin: Some(0), as_path: seq(2), ..Default::default() },
        2 => AttrSpec { origin: Some(0), as_path: seq(1), local_pref: Some(200), ..Default::default() },
        3 => AttrSpec { origin: Some(1), as_path: seq(1), ..Default::default() },
        4 => AttrSpec { origin: Some(0), as_path: seq(1), communities: vec![NO_LLGR], ..Default::default() },
        5 => AttrSpec { origin: Some(0), as_path: seq(1), med: Some(10), ..Default::default() },
        6 => AttrSpec { origin: Some(0), as_path: seq(1), cluster_list: vec![1], originator_id: Some(9), ..Default::default() },
        _ => AttrSpec { origin: Some(2), as_path: seq(3), local_pref: Some(50), ..Default::default() },
    }
}

#[derive(Clone, PartialEq, Eq, Hash, PartialOrd, Ord, Debug)]
struct PathIdent {
    source: usize,
    attr: usize,
    nh: Option<IpAddr>,
    local_id: u32,
}

fn ident(p: &table::Path) -> PathIdent {
    PathIdent {
        source: Arc::as_ptr(&p.source) as usize,
        attr: Arc::as_ptr(&p.attr) as usize,
        nh: p.nexthop.map(|n| n.addr()),
        local_id: p.local_path_id,
    }
}

/// the same, with the attributes by value: what an Add-Path neighbour was last sent for the path
#[derive(Clone, PartialEq, Eq, PartialOrd, Ord, Debug)]
struct SentIdent {
    source: usize,
    attr: Vec<u8>,
    nh: Option<IpAddr>,
    local_id: u32,
}

fn sent_ident(p: &table::Path) -> SentIdent {
    SentIdent {
        source: Arc::as_ptr(&p.source) as usize,
        attr: p.attr.iter().flat_map(|a| a.encode_to_bytes()).collect(),
        nh: p.nexthop.map(|n| n.addr()),
        local_id: p.local_path_id,
    }
}

struct Session {
    source: Arc<table::Source>,
    counters: [Arc<AtomicU64>; 2],
    up: bool,
}

pub fn check(c: &Case, mode: Mode) -> CheckResult {
    let npeer = c.roles.len().clamp(1, 4);
    let shard = (c.shard % 4) as u32;
    let mut t = table::Table::new(shard);
    let specs: Vec<SourceSpec> = (0..npeer).map(|i| SourceSpec { idx: i as u8, role: c.roles[i], router_id: 1 + (i as u32 % 2) }).collect();
    let new_session = |i: usize| Session { source: specs[i].build(), counters: [Arc::new(AtomicU64::new(0)), Arc::new(AtomicU64::new(0))], up: true };
    let mut sess: Vec<Session> = (0..npeer).map(new_session).collect();
    let mut keep: Vec<Arc<Vec<packet::Attribute>>> = Vec::new();
    let mut keep_src: Vec<Arc<table::Source>> = sess.iter().map(|s| s.source.clone()).collect();
    let mut nh_of_attr: HashMap<usize, u8> = HashMap::new();
    let mut invalid_nh: BTreeSet<u8> = BTreeSet::new();
    let mut deferring = [c.defer_mask & 1 != 0, c.defer_mask & 2 != 0];
    for (i, d) in deferring.iter().enumerate() {
        if *d {
            t.start_deferral(FAMS[i]);
        }
    }
    // consumers (C06)
    let mut best_consumer: [BTreeMap<String, Option<PathIdent>>; 2] = Default::default();
    let mut ap_consumer: [BTreeMap<String, Vec<PathIdent>>; 2] = Default::default();
    // an Add-Path neighbour as export.rs keeps it: a path it already holds (same local path id)
    // is refreshed only when the notification names it in replaced_path_id
    let mut pp_consumer: [BTreeMap<String, BTreeMap<u32, SentIdent>>; 2] = Default::default();
    let mut dest_ids: [BTreeMap<String, u32>; 2] = Default::default();
    let mut skipped_note: [BTreeSet<String>; 2] = Default::default(); // prefixes with a skipped notification
    let mut kept_note: [BTreeSet<String>; 2] = Default::default(); // prefixes where the per-path consumer kept a held path
    // per peer: has the RIB held a path of an *older* session of this peer since the
    // current session started? (witness for the known GR-reconnect counter finding)
    let mut old_gen_seen = vec![false; npeer];
    let mut info = CaseInfo::trivial();
    let limit_of = |peer: usize, fam: usize| -> Option<u32> { c.limits.get(peer * 2 + fam).copied().flatten() };

    for (step, op) in c.ops.iter().enumerate() {
        let mut emitted: Vec<table::NlriChange> = Vec::new();
        let mut insert_ok: Option<(usize, usize)> = None;
        let mut op_fam_emits: Option<usize> = None;
        match op {
            Op::Insert { peer, fam, prefix, pid, attrs, nh, filtered } => {
                let (p, f) = (*peer as usize % npeer, *fam as usize % 2);
                if !sess[p].up {
                    continue;
                }
                let attr = Arc::new(attr_palette(*attrs).build());
                keep.push(attr.clone());
                nh_of_attr.insert(Arc::as_ptr(&attr) as usize, *nh % 3);
                let lim = limit_of(p, f);
                let counter = sess[p].counters[f].clone();
                let r = t.insert(
                    sess[p].source.clone(),
                    FAMS[f],
                    prefix_of(f, *prefix),
                    *pid % 3,
                    Some(nexthop(*nh % 3)),
                    attr,
                    None,
                    *filtered,
                    invalid_nh.contains(&(*nh % 3)),
                    lim.map(|m| (m, &counter)),
                    step as u32,
                );
                match r {
                    table::InsertResult::Changed(ch) => {
                        emitted.push(ch);
                        insert_ok = Some((p, f));
                    }
                    table::InsertResult::NoChange => insert_ok = Some((p, f)),
                    table::InsertResult::PrefixLimitExceeded => {
                        // the daemon sends CEASE and closes the session: all routes dropped
                        info = info.class("limit-exceeded");
                        info.nontrivial = true;
                        for (i, fam) in FAMS.iter().enumerate() {
                            let (chs, _) = t.drop(specs[p].addr(), *fam);
                            let _ = i;
                            emitted.extend(chs);
                        }
                        sess[p].up = false;
                    }
                }
                op_fam_emits = Some(f);
            }
            Op::Remove { peer, fam, prefix, pid } => {
                let (p, f) = (*peer as usize % npeer, *fam as usize % 2);
                if !sess[p].up {
                    continue;
                }
                let counter = sess[p].counters[f].clone();
                let cref = limit_of(p, f).map(|_| &counter);
                let (ch, _) = t.remove(sess[p].source.clone(), FAMS[f], prefix_of(f, *prefix), *pid % 3, cref);
                emitted.extend(ch);
                op_fam_emits = Some(f);
            }
            Op::PeerDown { peer, gr_mask } => {
                let p = *peer as usize % npeer;
                if !sess[p].up {
                    continue;
                }
                for (i, fam) in FAMS.iter().enumerate() {
                    if gr_mask & (1 << i) != 0 {
                        emitted.extend(t.restale(specs[p].addr(), *fam));
                        info = info.class("gr-restale");
                    } else {
                        emitted.extend(t.drop(specs[p].addr(), *fam).0);
                        info = info.class("peer-drop");
                    }
                }
                info.nontrivial = true;
                sess[p].up = false;
            }
            Op::Reconnect { peer } => {
                let p = *peer as usize % npeer;
                if sess[p].up {
                    continue;
                }
                sess[p] = new_session(p);
                old_gen_seen[p] = false;
                keep_src.push(sess[p].source.clone());
                info = info.class("reconnect");
            }
            Op::RestartTimer { peer, llgr_mask } => {
                let p = *peer as usize % npeer;
                if sess[p].up {
                    continue;
                }
                for (i, fam) in FAMS.iter().enumerate() {
                    if llgr_mask & (1 << i) != 0 {
                        emitted.extend(t.restale_llgr(specs[p].addr(), *fam));
                        emitted.extend(t.drop_no_llgr(specs[p].addr(), *fam, None).0);
                        info = info.class("llgr-restale");
                    } else {
                        emitted.extend(t.drop_stale(specs[p].addr(), *fam, None).0);
                        info = info.class("stale-purge");
                    }
                }
                info.nontrivial = true;
            }
            Op::DropStale { peer, fam } => {
                let (p, f) = (*peer as usize % npeer, *fam as usize % 2);
                emitted.extend(t.drop_stale(specs[p].addr(), FAMS[f], None).0);
                info = info.class("stale-purge");
            }
            Op::DropLlgrStale { peer, fam } => {
                let (p, f) = (*peer as usize % npeer, *fam as usize % 2);
                emitted.extend(t.drop_llgr_stale(specs[p].addr(), FAMS[f], None).0);
                info = info.class("llgr-purge");
            }
            Op::NexthopFlip { nh, reachable } => {
                let k = *nh % 3;
                emitted.extend(t.update_nexthop_validity(nexthop(k).addr(), *reachable));
                if *reachable { invalid_nh.remove(&k); } else { invalid_nh.insert(k); }
                info = info.class("nexthop-flip");
            }
            Op::EndDeferral { fam } => {
                let f = *fam as usize % 2;
                if !deferring[f] {
                    continue;
                }
                let chs = t.end_deferral(FAMS[f]);
                deferring[f] = false;
                // every prefix held back is announced exactly once
                let mut seen = BTreeSet::new();
                for ch in &chs {
                    if !seen.insert(ch.net.to_string()) {
                        return Err(Failure::new("deferral", format!("step {step}: end_deferral announced {} twice", ch.net)));
                    }
                    if !ch.best_changed || !ch.any_changed {
                        return Err(Failure::new("deferral", format!("step {step}: end_deferral change for {} not flagged as changed", ch.net)));
                    }
                }
                emitted.extend(chs);
                info = info.class("end-deferral");
                info.nontrivial = true;
            }
        }
        let _ = op_fam_emits;

        // ------------------------------------------------------------------
        // feed the consumers exactly as process_nlri_change gates them
        // ------------------------------------------------------------------
        for ch in &emitted {
            let f = FAMS.iter().position(|x| *x == ch.family).unwrap_or(0);
            let key = ch.net.to_string();
            if ch.best_changed {
                best_consumer[f].insert(key.clone(), ch.current_paths.first().map(ident));
            } else {
                skipped_note[f].insert(key.clone());
            }
            if ch.any_changed {
                ap_consumer[f].insert(key.clone(), ch.current_paths.iter().map(ident).collect());
                let held = pp_consumer[f].entry(key.clone()).or_default();
                held.retain(|id, _| ch.current_paths.iter().any(|p| p.local_path_id == *id));
                for p in ch.current_paths.iter() {
                    if !held.contains_key(&p.local_path_id) || ch.replaced_path_id == Some(p.local_path_id) {
                        held.insert(p.local_path_id, sent_ident(p));
                    } else {
                        kept_note[f].insert(key.clone());
                    }
                }
            } else {
                skipped_note[f].insert(key.clone());
            }
            if ch.dest_id >> 24 != shard {
                return Err(Failure::new("dest-id", format!("step {step} {op:?}: dest_id {:#x} of {} does not carry shard {shard}", ch.dest_id, ch.net)));
            }
        }

        // ------------------------------------------------------------------
        // ground truth: recount of the RIB
        // ------------------------------------------------------------------
        for f in 0..2 {
            let fam = FAMS[f];
            let all: Vec<table::DestinationEntry> = t.destinations(table::TableQuery::Global, fam, vec![], true).collect();
            let snap = t.collect_loc_rib_paths(&fam);

            if mode == Mode::C06 {
                // dest ids: unique among the snapshot, stable while the prefix has paths
                let mut ids = BTreeSet::new();
                for ch in &snap {
                    if !ids.insert(ch.dest_id) {
                        return Err(Failure::new("dest-id", format!("step {step} {op:?}: dest_id {:#x} used by two live prefixes of {:?}", ch.dest_id, fam)));
                    }
                    if ch.dest_id >> 24 != shard {
                        return Err(Failure::new("dest-id", format!("step {step}: snapshot dest_id {:#x} does not carry shard {shard}", ch.dest_id)));
                    }
                }
                let live: BTreeSet<String> = all.iter().map(|d| d.net.to_string()).collect();
                dest_ids[f].retain(|k, _| live.contains(k));
                for ch in snap.iter().chain(emitted.iter().filter(|e| e.family == fam && !e.current_paths.is_empty())) {
                    let k = ch.net.to_string();
                    if !live.contains(&k) {
                        continue;
                    }
                    if let Some(old) = dest_ids[f].get(&k)
                        && *old != ch.dest_id
                    {
                        return Err(Failure::new("dest-id", format!("step {step} {op:?}: dest_id of live prefix {k} changed from {old:#x} to {:#x}", ch.dest_id)));
                    }
                    dest_ids[f].insert(k, ch.dest_id);
                }

                // snapshot == eligible paths of the recount
                let mut want: BTreeMap<String, BTreeSet<(usize, usize)>> = BTreeMap::new();
                for d in &all {
                    for p in &d.paths {
                        let nhk = nh_of_attr.get(&(Arc::as_ptr(&p.attr) as usize)).copied().unwrap_or(0);
                        if !p.filtered && !invalid_nh.contains(&nhk) {
                            want.entry(d.net.to_string()).or_default().insert((Arc::as_ptr(&p.source) as usize, Arc::as_ptr(&p.attr) as usize));
                        }
                    }
                }
                let mut got: BTreeMap<String, BTreeSet<(usize, usize)>> = BTreeMap::new();
                for ch in &snap {
                    got.entry(ch.net.to_string()).or_default().extend(ch.current_paths.iter().map(|p| (Arc::as_ptr(&p.source) as usize, Arc::as_ptr(&p.attr) as usize)));
                }
                if want != got {
                    return Err(Failure::new("snapshot", format!("step {step} {op:?}: Loc-RIB snapshot of {:?} differs from the eligible paths in the RIB (prefixes want {:?} got {:?})", fam, want.keys().collect::<Vec<_>>(), got.keys().collect::<Vec<_>>()))
                        .with("op", op_tag(op)));
                }

                if !deferring[f] {
                    // fold of the change stream == snapshot
                    let snap_map: BTreeMap<String, Vec<PathIdent>> = snap.iter().map(|ch| (ch.net.to_string(), ch.current_paths.iter().map(ident).collect())).collect();
                    let sent_map: BTreeMap<String, Vec<SentIdent>> = snap.iter().map(|ch| (ch.net.to_string(), ch.current_paths.iter().map(sent_ident).collect())).collect();
                    let keys: BTreeSet<String> = snap_map.keys().cloned().chain(best_consumer[f].keys().cloned()).chain(ap_consumer[f].keys().cloned()).collect();
                    for k in keys {
                        let truth = snap_map.get(&k).cloned().unwrap_or_default();
                        let b = best_consumer[f].get(&k).cloned().flatten();
                        if b != truth.first().cloned() {
                            return Err(Failure::new("fold-best", format!("step {step} {op:?}: a consumer that applies only best_changed notifications holds {:?} as best of {k}, the RIB's best is {:?}", b, truth.first()))
                                .with("op", op_tag(op))
                                .with("consumer_has_best", b.is_some())
                                .with("rib_has_best", !truth.is_empty()));
                        }
                        let mut a = ap_consumer[f].get(&k).cloned().unwrap_or_default();
                        let mut tr = truth.clone();
                        a.sort();
                        tr.sort();
                        if a != tr {
                            return Err(Failure::new("fold-addpath", format!("step {step} {op:?}: a consumer that applies only any_changed notifications holds {} paths for {k}, the RIB has {} exportable paths (or different ones)", a.len(), tr.len()))
                                .with("op", op_tag(op)));
                        }
                        let mut pp: Vec<SentIdent> = pp_consumer[f].get(&k).map(|m| m.values().cloned().collect()).unwrap_or_default();
                        pp.sort();
                        let mut tr: Vec<SentIdent> = sent_map.get(&k).cloned().unwrap_or_default();
                        tr.sort();
                        if pp != tr {
                            return Err(Failure::new("fold-addpath-per-path", format!("step {step} {op:?}: an Add-Path consumer that refreshes a path it already holds only when replaced_path_id names it holds {pp:?} for {k}, the RIB's exportable paths are {tr:?}"))
                                .with("op", op_tag(op)));
                        }
                        if kept_note[f].contains(&k) {
                            info = info.class("compared-after-path-kept-without-refresh");
                        }
                        if skipped_note[f].contains(&k) {
                            info.nontrivial = true;
                            info = info.class("compared-after-skipped-notification");
                        }
                    }
                } else if !emitted.is_empty() {
                    // nothing to compare while deferring
                }
            }

            if mode == Mode::C15 {
                // table totals
                let st = t.state(fam);
                let n_dest = all.iter().filter(|d| !d.paths.is_empty()).count();
                let n_path: usize = all.iter().map(|d| d.paths.len()).sum();
                let n_acc: usize = all.iter().map(|d| d.paths.iter().filter(|p| !p.filtered).count()).sum();
                if (st.num_destination, st.num_path, st.num_accepted) != (n_dest, n_path, n_acc) {
                    return Err(Failure::new("table-state", format!("step {step} {op:?}: state({:?}) = (dest {}, paths {}, accepted {}), recount = ({n_dest}, {n_path}, {n_acc})", fam, st.num_destination, st.num_path, st.num_accepted))
                        .with("op", op_tag(op))
                        .with("dest_diff", st.num_destination as i64 - n_dest as i64)
                        .with("path_diff", st.num_path as i64 - n_path as i64)
                        .with("acc_diff", st.num_accepted as i64 - n_acc as i64));
                }
                for p in 0..npeer {
                    let addr = specs[p].addr();
                    if all.iter().any(|d| d.paths.iter().any(|x| x.source.remote_addr == addr && !Arc::ptr_eq(&x.source, &sess[p].source))) {
                        old_gen_seen[p] = true;
                    }
                    let received = all.iter().filter(|d| d.paths.iter().any(|x| x.source.remote_addr == addr)).count() as u64;
                    let accepted = all.iter().map(|d| d.paths.iter().filter(|x| x.source.remote_addr == addr && !x.filtered).count()).sum::<usize>() as u64;
                    let (gr, ga) = t
                        .peer_stats(&addr)
                        .and_then(|mut it| it.find(|(ff, _)| *ff == fam).map(|(_, s)| (s.received, s.accepted)))
                        .unwrap_or((0, 0));
                    if (gr, ga) != (received, accepted) {
                        return Err(Failure::new("peer-stats", format!("step {step} {op:?}: peer {addr} {:?}: stats received={gr} accepted={ga}, recount received={received} accepted={accepted}", fam))
                            .with("op", op_tag(op))
                            .with("received_diff", gr as i64 - received as i64)
                            .with("accepted_diff", ga as i64 - accepted as i64));
                    }
                    if let Some(max) = limit_of(p, f) {
                        let cnt = sess[p].counters[f].load(Ordering::Relaxed);
                        if sess[p].up && cnt != received {
                            return Err(Failure::new("limit-counter", format!("step {step} {op:?}: peer {addr} {:?}: session prefix-limit counter = {cnt}, the RIB holds {received} prefixes of the peer", fam))
                                .with("op", op_tag(op))
                                .with("underflow", cnt > (1u64 << 40))
                                .with("stale_paths_of_older_session_seen", old_gen_seen[p]));
                        }
                        if insert_ok == Some((p, f)) && received > max as u64 {
                            return Err(Failure::new("limit-not-signalled", format!("step {step} {op:?}: peer {addr} {:?} now has {received} prefixes in the RIB, configured maximum {max}, and the insert did not report PrefixLimitExceeded", fam))
                                .with("op", op_tag(op))
                                .with("stale_paths_of_older_session_seen", old_gen_seen[p]));
                        }
                    }
                }
            }
        }
    }
    let _ = keep_src;
    Ok(info)
}

fn op_tag(op: &Op) -> &'static str {
    match op {
        Op::Insert { .. } => "insert",
        Op::Remove { .. } => "remove",
        Op::PeerDown { .. } => "peer-down",
        Op::Reconnect { .. } => "reconnect",
        Op::RestartTimer { .. } => "restart-timer",
        Op::DropStale { .. } => "drop-stale",
        Op::DropLlgrStale { .. } => "drop-llgr-stale",
        Op::NexthopFlip { .. } => "nexthop-flip",
        Op::EndDeferral { .. } => "end-deferral",
    }
}

pub fn arb_op(limit_focus: bool) -> impl Strategy<Value = Op> {
    let npfx = if limit_focus { 6u8 } else { 4u8 };
    prop_oneof![
        14 => (0u8..3, prop_oneof![3 => Just(0u8), 1 => Just(1u8)], 0u8..npfx, prop_oneof![3 => Just(0u32), 1 => Just(1u32), 1 => Just(2u32)], 0u8..8, 0u8..3, prop::bool::weighted(0.2))
            .prop_map(|(peer, fam, prefix, pid, attrs, nh, filtered)| Op::Insert { peer, fam, prefix, pid, attrs, nh, filtered }),
        5 => (0u8..3, prop_oneof![3 => Just(0u8), 1 => Just(1u8)], 0u8..npfx, prop_oneof![3 => Just(0u32), 1 => Just(1u32), 1 => Just(2u32)]).prop_map(|(peer, fam, prefix, pid)| Op::Remove { peer, fam, prefix, pid }),
        2 => (0u8..3, 0u8..4).prop_map(|(peer, gr_mask)| Op::PeerDown { peer, gr_mask }),
        2 => (0u8..3).prop_map(|peer| Op::Reconnect { peer }),
        1 => (0u8..3, 0u8..4).prop_map(|(peer, llgr_mask)| Op::RestartTimer { peer, llgr_mask }),
        1 => (0u8..3, 0u8..2).prop_map(|(peer, fam)| Op::DropStale { peer, fam }),
        1 => (0u8..3, 0u8..2).prop_map(|(peer, fam)| Op::DropLlgrStale { peer, fam }),
        2 => (0u8..3, any::<bool>()).prop_map(|(nh, reachable)| Op::NexthopFlip { nh, reachable }),
        1 => (0u8..2).prop_map(|fam| Op::EndDeferral { fam }),
    ]
}

pub fn arb_case(max_ops: usize, with_limits: bool) -> impl Strategy<Value = Case> {
    let lim = if with_limits {
        prop_oneof![2 => Just(None), 1 => Just(Some(0u32)), 2 => Just(Some(1u32)), 2 => Just(Some(2u32)), 1 => Just(Some(5u32))].boxed()
    } else {
        Just(None).boxed()
    };
    (
        proptest::collection::vec(arb_role(), 3),
        proptest::collection::vec(lim, 6),
        prop_oneof![4 => Just(0u8), 1 => Just(1u8), 1 => Just(3u8)],
        0u8..3,
        proptest::collection::vec(arb_op(with_limits), 1..=max_ops),
    )
        .prop_map(|(roles, limits, defer_mask, shard, ops)| Case { roles, limits, defer_mask, shard, ops })
}
