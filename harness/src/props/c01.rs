//! C01 — every neighbour's view converges to export(Loc-RIB); no withdrawal is lost.
//!
//! Histories over a real 3-shard TableManager with source peers of generated roles and
//! two observing neighbours driven by the shadow of PeerSession's export side
//! (in_daemon/event_verif.rs: the daemon's own ExportMap / PendingTx / GroupedSink /
//! process_nlri_change / register_peer, in on_established / handle_prefix_update /
//! do_route_refresh order). The harness decides when queued RIB changes are delivered
//! to a neighbour and when its pending updates are flushed to the wire. Flushed
//! messages go through the repository's encoder and a peer-side decoder into a mirror
//! Adj-RIB-In, which at the end must equal the mirror of a brand-new session.

use super::tmrig::*;
use crate::cgen::wire::{CapSpec, codecs};
use crate::common::*;
use crate::event::verif::{Neighbor, NeighborParams};
use bytes::BytesMut;
use proptest::prelude::*;
use rustybgp_packet as packet;
use rustybgp_packet::bgp::{self, Family, Message, Nexthop, PeerCodec, Update};
use rustybgp_table as table;
use serde::{Deserialize, Serialize};
use serde_json::Value;
use std::collections::BTreeMap;
use std::net::{IpAddr, Ipv4Addr};
use std::sync::Arc;

pub const RULE: &str = "cases = (roles of 3 source peers, 2 observing neighbours (role, address = one of the sources or a fourth peer, add-path send-max 1..3, route-reflector cluster id, export policy variant), 0..8 pre-fill writes, 1..24 steps). \
Steps: insert/replace, remove, peer loss, stale marking/purge, next-hop reachability reports, soft_reset_in with import-policy change (TableManager calls); deliver k queued changes to a neighbour; flush a neighbour's pending updates; route refresh with an export-policy change. \
Flushed messages are encoded by the repository's encoder with the negotiated add-path mode, decoded by the peer-side codec and applied to a mirror Adj-RIB-In. Oracle at the end (everything delivered and flushed): mirror == mirror of a brand-new session with the same parameters, \
as a map (family, prefix, path id) -> (next hop, attributes). non-trivial := at least one flush happened while changes were still undelivered or pending, and a withdrawal reached the wire; distinct := distinct serialized case";

#[derive(Clone, Debug, Serialize, Deserialize, PartialEq)]
pub struct NbSpec {
    /// 0..=2: same address as that source peer; 3: a fourth peer
    pub who: u8,
    pub role: u8,
    pub send_max: u8,
    pub cluster: bool,
    pub policy: u8,
}

#[derive(Clone, Debug, Serialize, Deserialize, PartialEq)]
pub enum Op {
    W(TmOp),
    Deliver { nb: u8, n: u8 },
    Flush { nb: u8 },
    Refresh { nb: u8, policy: u8 },
}

#[derive(Clone, Debug, Serialize, Deserialize)]
pub struct Case {
    pub roles: [u8; 3],
    pub nbs: Vec<NbSpec>,
    pub prefill: Vec<TmOp>,
    pub steps: Vec<Op>,
}

pub(crate) type Mirror = BTreeMap<String, (Option<Nexthop>, Vec<(u8, u8, Option<u32>, Option<Vec<u8>>)>)>;

fn attr_view(attrs: &[packet::Attribute]) -> Vec<(u8, u8, Option<u32>, Option<Vec<u8>>)> {
    let mut v: Vec<_> = attrs.iter().map(|a| (a.code(), a.flags() & !0x10, a.value(), a.binary().cloned())).collect();
    v.sort();
    v
}

/// does an attribute view (attr_view) hold the community `c`?
pub(crate) fn attr_has_community(attrs: &[(u8, u8, Option<u32>, Option<Vec<u8>>)], c: u32) -> bool {
    attrs.iter().filter(|a| a.0 == 8).filter_map(|a| a.3.as_ref()).any(|b| b.chunks_exact(4).any(|x| x == c.to_be_bytes()))
}

fn export_policies() -> Vec<Option<Arc<table::PolicyAssignment>>> {
    thread_local! {
        static P: std::cell::RefCell<Option<Vec<Option<Arc<table::PolicyAssignment>>>>> = const { std::cell::RefCell::new(None) };
    }
    P.with(|p| {
        let mut p = p.borrow_mut();
        if p.is_none() {
            use super::c14::*;
            let mk = |stmts: Vec<Stmt>| Program {
                prefix_sets: vec![vec![(1, 8, 32)], vec![(0, 0, 32)]],
                neighbor_sets: vec![vec![0], vec![1]],
                aspath_sets: vec![vec![AsPat::Include(65100)], vec![AsPat::Include(1)]],
                comm_sets: vec![vec![CommPat::Exact(0xfde8_0001)], vec![CommPat::Exact(1)]],
                ext_sets: vec![vec![1], vec![2]],
                large_sets: vec![vec![(1, 2, 3)], vec![(1, 2, 4)]],
                policies: vec![(0..stmts.len() as u8).collect()],
                stmts,
                assign: vec![0],
                default_accept: true,
                export: true,
                is_confed: false,
            };
            let p1 = mk(vec![Stmt { conds: vec![Cond::CommunitySet(0, Opt::Any)], disp: Some(false), act: Act::default() }]);
            let p2 = mk(vec![Stmt { conds: vec![Cond::AsPathLength(0, 2)], disp: Some(false), act: Act::default() }, Stmt { conds: vec![], disp: Some(true), act: Act { med: Some((false, 77)), community: Some((0, vec![0xfde8_0002])), ..Act::default() } }]);
            let mut v = vec![None];
            for prog in [p1, p2] {
                let (t, a) = load(&prog).expect("export policy loads");
                std::mem::forget(t);
                v.push(Some(a));
            }
            *p = Some(v);
        }
        p.clone().unwrap()
    })
}

fn nb_addr(who: u8) -> IpAddr {
    if who % 4 == 3 { IpAddr::V4(Ipv4Addr::new(10, 0, 0, 9)) } else { peer_ip(who % 4) }
}

fn params(nb: &NbSpec, policy: u8) -> NeighborParams {
    let (role, _) = role_of(nb.role, 7);
    let pols = export_policies();
    NeighborParams {
        remote_addr: nb_addr(nb.who),
        role,
        local_asn: LOCAL_ASN,
        local_addr: IpAddr::V4(Ipv4Addr::new(10, 0, 0, 1)),
        confederation_id: if nb.role % 5 == 4 { 64512 } else { 0 },
        cluster_id: if nb.cluster { Some(Ipv4Addr::new(9, 9, 9, 9)) } else { None },
        families: vec![Family::IPV4, Family::IPV6],
        effective_max: (1 + nb.send_max % 3) as usize,
        export_policy: pols[policy as usize % pols.len()].clone(),
    }
}

fn session_codecs(addpath: bool) -> (PeerCodec, PeerCodec) {
    let fams = |m: u8| vec![(0u8, m), (1u8, m)];
    let local = CapSpec { families: fams(if addpath { 2 } else { 0 }), as4: Some(LOCAL_ASN), ext_msg: false, ext_nh: vec![], route_refresh: true, enhanced_rr: false, gr: None, llgr: vec![], fqdn: None, unknown: vec![] };
    let remote = CapSpec { families: fams(if addpath { 1 } else { 0 }), as4: Some(65100), ext_msg: false, ext_nh: vec![], route_refresh: true, enhanced_rr: false, gr: None, llgr: vec![], fqdn: None, unknown: vec![] };
    codecs(&local, &remote)
}

pub(crate) struct Wire {
    enc: PeerCodec,
    dec: PeerCodec,
    pub(crate) mirror: Mirror,
    pub(crate) withdrawals: u64,
}

impl Wire {
    pub(crate) fn new(addpath: bool) -> Self {
        let (enc, dec) = session_codecs(addpath);
        Wire { enc, dec, mirror: Mirror::new(), withdrawals: 0 }
    }
    pub(crate) fn send(&mut self, msgs: Vec<Message>) -> Result<(), Failure> {
        for m in msgs {
            let mut buf = BytesMut::new();
            match catch(|| self.enc.encode_to(&m, &mut buf)) {
                Err(p) => return Err(p.into_failure("encode")),
                Ok(Err(e)) => return Err(Failure::new("wire", format!("the encoder refuses a message drained from PendingTx: {e:?}"))),
                Ok(Ok(_)) => {}
            }
            loop {
                match catch(|| self.dec.try_parse(&mut buf)) {
                    Err(p) => return Err(p.into_failure("peer-decode")),
                    Ok(Err(n)) => return Err(Failure::new("wire", format!("the neighbour rejects what was sent: {n:?}"))),
                    Ok(Ok(None)) => break,
                    Ok(Ok(Some(parsed))) => {
                        let v = match catch(|| bgp::validate_message(parsed, false).map(|it| it.collect::<Vec<_>>())) {
                            Err(p) => return Err(p.into_failure("peer-validate")),
                            Ok(Err(n)) => return Err(Failure::new("wire", format!("the neighbour rejects what was sent: {n:?}"))),
                            Ok(Ok(v)) => v,
                        };
                        for m in v {
                            match m {
                                Message::Update(Update::Reach { family, entries, nexthop, attr }) => {
                                    for e in entries {
                                        self.mirror.insert(format!("{family:?}|{:?}|{}", e.nlri, e.path_id), (nexthop, attr_view(&attr)));
                                    }
                                }
                                Message::Update(Update::Unreach { family, entries }) => {
                                    for e in entries {
                                        self.withdrawals += 1;
                                        self.mirror.remove(&format!("{family:?}|{:?}|{}", e.nlri, e.path_id));
                                    }
                                }
                                _ => {}
                            }
                        }
                    }
                }
            }
        }
        Ok(())
    }
}

pub fn check(c: &Case) -> CheckResult {
    let rt = tokio::runtime::Builder::new_current_thread().enable_all().build().map_err(|e| Failure::new("harness", e.to_string()))?;
    rt.block_on(run_case(c))
}

async fn run_case(c: &Case) -> CheckResult {
    if c.nbs.is_empty() || (c.nbs.len() == 2 && c.nbs[0].who % 4 == c.nbs[1].who % 4) {
        return Ok(CaseInfo::trivial());
    }
    let rig = Rig::with_roles(false, c.roles);
    for op in &c.prefill {
        rig.apply(op);
    }
    let mut nbs: Vec<(Neighbor, Wire, u8)> = Vec::new();
    for nb in &c.nbs {
        let n = Neighbor::establish(&rig.tm, params(nb, nb.policy)).await;
        nbs.push((n, Wire::new(nb.send_max % 3 > 0), nb.policy));
    }
    let mut flush_with_backlog = false;
    // a route refresh walked the RIB while RIB changes were still queued for that neighbour
    let mut refresh_with_backlog = false;
    let mut undelivered = vec![0i64; nbs.len()];
    let mut alive = vec![true; nbs.len()];
    for op in &c.steps {
        match op {
            Op::W(w) => {
                // a neighbour that is also a route source: the loss of that session ends the neighbour too
                if let TmOp::DropPeer { peer } | TmOp::MarkStale { peer } = w {
                    for (k, spec) in c.nbs.iter().enumerate() {
                        if nb_addr(spec.who) == peer_ip(*peer) {
                            alive[k] = false;
                        }
                    }
                }
                catch(|| rig.apply(w)).map_err(|p| p.into_failure("table-manager"))?;
                for u in undelivered.iter_mut() {
                    *u += 1;
                }
            }
            Op::Deliver { nb, n } => {
                let i = *nb as usize % nbs.len();
                let d = nbs[i].0.deliver(*n as usize).await;
                if d < *n as usize {
                    undelivered[i] = 0;
                }
            }
            Op::Flush { nb } => {
                let i = *nb as usize % nbs.len();
                if undelivered[i] > 0 {
                    flush_with_backlog = true;
                }
                let msgs = catch(|| nbs[i].0.flush()).map_err(|p| p.into_failure("drain_messages"))?;
                nbs[i].1.send(msgs)?;
            }
            Op::Refresh { nb, policy } => {
                let i = *nb as usize % nbs.len();
                if undelivered[i] > 0 {
                    refresh_with_backlog = true;
                }
                let pols = export_policies();
                nbs[i].0.set_policy(pols[*policy as usize % pols.len()].clone());
                nbs[i].2 = *policy;
                nbs[i].0.route_refresh(Family::IPV4).await;
                nbs[i].0.route_refresh(Family::IPV6).await;
            }
        }
    }
    // quiescence: everything delivered and flushed
    let mut info = CaseInfo::trivial();
    let mut withdrawals = 0;
    for (i, (n, w, _)) in nbs.iter_mut().enumerate() {
        while n.deliver(64).await > 0 {}
        let msgs = catch(|| n.flush()).map_err(|p| p.into_failure("drain_messages"))?;
        w.send(msgs)?;
        withdrawals += w.withdrawals;
        let _ = i;
    }
    for (i, ((n, w, policy), spec)) in nbs.iter_mut().zip(&c.nbs).enumerate() {
        if !alive[i] {
            info.classes.push("neighbour-session-ended");
            continue;
        }
        n.close(&rig.tm);
        let mut fresh = Neighbor::establish(&rig.tm, params(spec, *policy)).await;
        let mut fw = Wire::new(spec.send_max % 3 > 0);
        let msgs = catch(|| fresh.flush()).map_err(|p| p.into_failure("drain_messages"))?;
        fw.send(msgs)?;
        fresh.close(&rig.tm);
        if w.mirror != fw.mirror {
            let stale: Vec<_> = w.mirror.iter().filter(|(k, _)| !fw.mirror.contains_key(*k)).take(2).collect();
            let missing: Vec<_> = fw.mirror.iter().filter(|(k, _)| !w.mirror.contains_key(*k)).take(2).collect();
            let differ: Vec<_> = w.mirror.iter().filter(|(k, v)| fw.mirror.get(*k).is_some_and(|x| x != *v)).take(1).map(|(k, v)| (k, v, fw.mirror.get(k))).collect();
            let what = if !stale.is_empty() { "stale-at-neighbour" } else if !missing.is_empty() { "missing-at-neighbour" } else { "different-content" };
            return Err(Failure::new("adj-rib-out-diverges", format!("neighbour #{i} ({spec:?}) holds {} routes, a brand-new session would be sent {}; held but not exportable any more: {stale:?}; exportable but not held: {missing:?}; different content: {differ:?}", w.mirror.len(), fw.mirror.len()))
                .with("what", what)
                .with("addpath", spec.send_max % 3 > 0)
                .with("neighbour_is_source", spec.who % 4 != 3)
                .with("refresh_used", c.steps.iter().any(|o| matches!(o, Op::Refresh { .. })))
                .with("refresh_with_backlog", refresh_with_backlog));
        }
        info.classes.push(match spec.role % 5 {
            0 => "to-ebgp",
            1 => "to-ibgp",
            2 => "to-rr-client",
            3 => "to-rs-client",
            _ => "to-confed",
        });
        if spec.send_max % 3 > 0 {
            info.classes.push("add-path");
        }
    }
    info.nontrivial = flush_with_backlog && withdrawals > 0;
    Ok(info)
}

fn arb_writer() -> impl Strategy<Value = TmOp> {
    prop_oneof![
        10 => (0u8..N_PEERS, 0u8..N_PREFIX, 0u8..2, 0u8..6, 0u8..N_NH).prop_map(|(peer, prefix, path_id, attrs, nh)| TmOp::Insert { peer, prefix, path_id, attrs, nh }),
        6 => (0u8..N_PEERS, 0u8..N_PREFIX, 0u8..2).prop_map(|(peer, prefix, path_id)| TmOp::Remove { peer, prefix, path_id }),
        1 => (0u8..N_PEERS).prop_map(|peer| TmOp::DropPeer { peer }),
        1 => (0u8..N_PEERS).prop_map(|peer| TmOp::MarkStale { peer }),
        1 => (0u8..N_PEERS).prop_map(|peer| TmOp::DropStale { peer }),
        2 => (0u8..N_NH, any::<bool>()).prop_map(|(nh, reachable)| TmOp::NhReach { nh, reachable }),
        1 => (0u8..N_PEERS, 0u8..3).prop_map(|(peer, policy)| TmOp::SoftResetIn { peer, policy }),
    ]
}

pub fn arb_case(max: usize) -> impl Strategy<Value = Case> {
    let nb = (0u8..4, 0u8..5, prop_oneof![2 => Just(0u8), 1 => 1u8..3], any::<bool>(), 0u8..3).prop_map(|(who, role, send_max, cluster, policy)| NbSpec { who, role, send_max, cluster, policy });
    let step = prop_oneof![
        10 => arb_writer().prop_map(Op::W),
        4 => (0u8..2, 1u8..4).prop_map(|(nb, n)| Op::Deliver { nb, n }),
        4 => (0u8..2).prop_map(|nb| Op::Flush { nb }),
        1 => (0u8..2, 0u8..3).prop_map(|(nb, policy)| Op::Refresh { nb, policy }),
    ];
    ((0u8..5, 0u8..5, 0u8..5), proptest::collection::vec(nb, 1..3), proptest::collection::vec(arb_writer(), 0..8), proptest::collection::vec(step, 1..max), 0u8..N_PREFIX).prop_map(|((a, b, cc), nbs, prefill, mut steps, base)| {
        // few prefixes per case so that destinations come and go
        let squeeze = |op: &mut TmOp| {
            if let TmOp::Insert { prefix, .. } | TmOp::Remove { prefix, .. } = op {
                *prefix = base + (*prefix % 3);
            }
        };
        let mut prefill = prefill;
        prefill.iter_mut().for_each(squeeze);
        for s in steps.iter_mut() {
            if let Op::W(w) = s {
                squeeze(w);
            }
        }
        // one session per neighbour address; a neighbour that is also a source has that source's role
        let mut nbs = nbs;
        let roles = [a, b, cc];
        for n in nbs.iter_mut() {
            if n.who % 4 < 3 {
                n.role = roles[(n.who % 4) as usize];
            }
        }
        if nbs.len() == 2 && nbs[1].who % 4 == nbs[0].who % 4 {
            nbs[1].who = (nbs[0].who + 1) % 4;
            if nbs[1].who < 3 {
                nbs[1].role = roles[nbs[1].who as usize];
            }
        }
        Case { roles: [a, b, cc], nbs, prefill, steps }
    })
}

pub fn run(r: &Run) {
    r.set_rule(RULE);
    r.assume("the neighbour is driven by a shadow of PeerSession's export side that calls the daemon's own ExportMap / PendingTx / GroupedSink / process_nlri_change / register_peer / collect_loc_rib_paths_limited in the order on_established, handle_prefix_update and do_route_refresh use; sockets, keepalives and the FSM are not involved");
    r.assume("RTC filters and per-peer BMP taps are not generated");
    r.prop("export-histories", r.tier.pick(120_000, 3_000_000), || arb_case(r.tier.pick(24, 48)), check);
    // "under the current policy": a policy whose outcome depends on a table outside the RIB (origin validation)
    r.assume(super::rpkiexp::RULE);
    r.prop("export-rpki", r.tier.pick(30_000, 600_000), || super::rpkiexp::arb_case(r.tier.pick(20, 36)), super::rpkiexp::check);
}

pub fn replay(sub: &str, case: &Value) -> Result<CheckResult, String> {
    if sub == "export-rpki" {
        return super::rpkiexp::replay(case);
    }
    Ok(check(&decode_case(case)?))
}
