//! C15 session-limits — the prefix limit as a session enforces it: the configured maximum
//! travels from the neighbour's configuration through PeerSession::new into the per-session
//! counter that rx_update hands to the RIB, and an exceeded limit ends the session with Cease.

use crate::cgen::*;
use crate::common::*;
use crate::event::verif::{AdmitRig, NeighborCfg, adj_in};
use crate::props::wirepeer::{WirePeer, fresh_loopback};
use proptest::prelude::*;
use rustybgp_packet::bgp::{self, Capability, Family, Message, Nexthop, PeerCodec, Update};
use serde::{Deserialize, Serialize};
use serde_json::Value;
use std::collections::BTreeSet;
use std::net::Ipv4Addr;
use std::sync::Arc;

pub const RULE: &str = "session-limits: cases = an eBGP neighbour configured with a maximum of 0..4 IPv4 prefixes (or none) over a real loopback session, then 1..10 UPDATEs: announce one of 6 prefixes (new or already held: a replacement does not count again) or withdraw one. \
Oracle after every UPDATE: while the number of distinct prefixes held stays within the maximum the session is up and the daemon's Adj-RIB-In of the peer holds exactly the announced set; the UPDATE that would take the set beyond the maximum (for a maximum of 0: the first announcement) is answered with NOTIFICATION Cease / Maximum Number of Prefixes Reached and the connection is closed, the prefix not being held. \
non-trivial := the limit is signalled, or a withdrawal made room for a later announcement; distinct := distinct serialized case";

#[derive(Clone, Debug, Serialize, Deserialize)]
pub struct Case {
    /// configured maximum (None: no limit)
    pub max: Option<u8>,
    /// (announce?, prefix index)
    pub updates: Vec<(bool, u8)>,
}

pub fn check(c: &Case) -> CheckResult {
    let rt = tokio::runtime::Builder::new_current_thread().enable_all().event_interval(1).build().map_err(|e| Failure::new("harness", e.to_string()))?;
    rt.block_on(run_case(c))
}

async fn run_case(c: &Case) -> CheckResult {
    let src = fresh_loopback();
    let rig = std::rc::Rc::new(AdmitRig::new(65000, None).await.map_err(|e| Failure::new("harness", e))?);
    let max = c.max.map(|m| (m % 5) as u32);
    let cfg = NeighborCfg { addr: src, remote_asn: 65101, local_asn: 0, rs_client: false, rr_client: false, cluster_id: None, admin_down: false, holdtime: 90, families: vec![(Family::IPV4, 0)], prefix_limit: max, gr: None, llgr: None };
    if !rig.add_neighbor(&cfg).await {
        return Err(Failure::new("harness", format!("add_peer refuses {cfg:?}")));
    }
    let mut p = WirePeer::on(rig.clone(), src);
    p.connect().await?;
    let caps = vec![Capability::MultiProtocol(Family::IPV4), Capability::FourOctetAsNumber(65101)];
    if !p.establish(65101, 90, 0x0a00_0009, caps.clone()).await? {
        return Err(Failure::new("harness", "the session did not establish".to_string()));
    }
    let mut codec = PeerCodec::negotiate(&caps, &caps);
    let attr = Arc::new(AttrSpec { origin: Some(0), as_path: Some(vec![Seg { t: SEG_SEQ, n: 1, base: 65101, asns: vec![] }]), ..Default::default() }.build());
    let mut held: BTreeSet<u8> = BTreeSet::new();
    let mut info = CaseInfo::trivial();
    let mut withdrew = false;
    for (i, (announce, k)) in c.updates.iter().enumerate() {
        let k = k % 6;
        let net = v4(10, 90, k, 0, 24);
        let entries = vec![bgp::PathNlri { path_id: 0, nlri: net.clone() }];
        let msg = if *announce { Message::Update(Update::Reach { family: Family::IPV4, entries, nexthop: Some(Nexthop::V4(Ipv4Addr::new(192, 0, 2, 7))), attr: attr.clone() }) } else { Message::Update(Update::Unreach { family: Family::IPV4, entries }) };
        p.send_msg(&mut codec, &msg).await?;
        let over = *announce && !held.contains(&k) && max.is_some_and(|m| held.len() as u32 >= m);
        let held_before = held.len();
        let wit = move |f: Failure| f.with("maximum", max.map(|m| m as i64).unwrap_or(-1)).with("held_before", held_before);
        if over {
            // the daemon answers with Cease and closes
            for _ in 0..2000 {
                if p.is_closed() {
                    break;
                }
                p.settle().await;
            }
            if !p.is_closed() {
                let now = adj_in(&rig.tables, src, &[Family::IPV4]).len();
                return Err(wit(Failure::new("limit-not-enforced", format!("UPDATE #{i} announces {net}, prefix number {} from a neighbour whose maximum is {}: the session stays up and its Adj-RIB-In holds {now} prefixes", held.len() + 1, max.unwrap()))));
            }
            if !p.notifications().contains(&(6, 1)) {
                return Err(wit(Failure::new("limit-not-signalled", format!("UPDATE #{i} exceeds the maximum of {}: the connection was closed with NOTIFICATIONs {:?}, not Cease / Maximum Number of Prefixes Reached", max.unwrap(), p.notifications()))));
            }
            info.nontrivial = true;
            info.classes.push("limit-signalled");
            if max == Some(0) {
                info.classes.push("maximum-zero");
            }
            let _ = p.close().await;
            return Ok(info);
        }
        if p.is_closed() {
            return Err(wit(Failure::new("limit-signalled-early", format!("UPDATE #{i} ({}) {net} keeps the neighbour within its maximum {max:?} ({} held), but the session was closed: NOTIFICATIONs {:?}", if *announce { "announce" } else { "withdraw" }, held.len(), p.notifications()))));
        }
        if *announce {
            if withdrew && !held.contains(&k) && max.is_some() {
                info.nontrivial = true;
                info.classes.push("room-after-withdrawal");
            }
            held.insert(k);
        } else {
            withdrew |= held.remove(&k);
        }
        let got: BTreeSet<String> = adj_in(&rig.tables, src, &[Family::IPV4]).into_iter().map(|(_, n, _)| n).collect();
        let want: BTreeSet<String> = held.iter().map(|k| format!("{:?}", v4(10, 90, *k, 0, 24))).collect();
        if got != want {
            return Err(wit(Failure::new("adj-in-differs", format!("after UPDATE #{i} the Adj-RIB-In of the neighbour holds {got:?}, announced and not withdrawn: {want:?}"))));
        }
    }
    let _ = p.close().await;
    Ok(info)
}

pub fn arb_case() -> impl Strategy<Value = Case> {
    (prop_oneof![1 => Just(None), 5 => (0u8..5).prop_map(Some)], proptest::collection::vec((prop::bool::weighted(0.75), 0u8..6), 1..10)).prop_map(|(max, updates)| Case { max, updates })
}

pub fn replay(case: &Value) -> Result<CheckResult, String> {
    Ok(check(&decode_case(case)?))
}
