//! C07 — Established only after a valid OPEN exchange; a collision leaves one connection.
//!
//! Input sequences over both connection roles are fed to the real `PeerFsm`; a
//! reference model written from the statement (RFC 4271 §8 / §6.8 restricted to what
//! the statement fixes) tracks the state of both roles and predicts, for every input,
//! which connection must go down and with which NOTIFICATION.

use crate::common::*;
use crate::fsm::{Input, Output, PeerFsm, PeerFsmOutput, Role, SessionDownReason, State};
use fnv::FnvHashMap;
use proptest::prelude::*;
use rustybgp_packet as packet;
use rustybgp_packet::bgp;
use serde::{Deserialize, Serialize};
use serde_json::Value;

pub const RULE: &str = "cases: input sequences over both connection roles of one peer (connect, OPEN with expected/unexpected AS, KEEPALIVE, UPDATE, \
NOTIFICATION, ROUTE-REFRESH, both timers, disconnect, admin shutdown, update-sent) for both orderings of local/remote BGP identifier over 10 identifier pairs chosen so that byte-swapped, signed, low-octet and string comparisons order them wrongly (plus random pairs); \
bounded-exhaustive up to a depth (depth 4 for every identifier pair: the shortest collision takes four inputs) plus long random sequences biased towards progress. After every input the state of both roles and the kind of \
session-down (FSM error with pre-state, hold expiry, bad peer AS, collision Cease) is compared with the reference model. \
non-trivial := the sequence reaches OpenConfirm on one role while the other role is in OpenSent or beyond (collision territory) or contains an FSM error \
in OpenConfirm/Established; distinct := distinct sequence";

#[derive(Clone, Copy, Debug, Serialize, Deserialize, PartialEq, Eq, Hash)]
pub enum Sym {
    Connected,
    OpenOk,
    OpenBadAs,
    Keepalive,
    Update,
    Notification,
    RouteRefresh,
    KeepaliveTimer,
    HoldTimer,
    Disconnected,
    AdminShutdown,
    UpdateSent,
    /// driver level only: an OPEN the decoder refuses (hold time 1): the session ends without the FSM being asked
    OpenBadHold,
    /// driver level only: a frame of an unknown type: header error, likewise
    BadType,
}

pub const ALL_SYMS: [Sym; 12] = [
    Sym::Connected,
    Sym::OpenOk,
    Sym::OpenBadAs,
    Sym::Keepalive,
    Sym::Update,
    Sym::Notification,
    Sym::RouteRefresh,
    Sym::KeepaliveTimer,
    Sym::HoldTimer,
    Sym::Disconnected,
    Sym::AdminShutdown,
    Sym::UpdateSent,
];

#[derive(Clone, Debug, Serialize, Deserialize)]
pub struct Case {
    /// local identifier > remote identifier ?
    pub local_id_higher: bool,
    /// the two BGP identifiers (lower, higher) as host-order integers; which speaker has which is
    /// `local_id_higher`
    #[serde(default = "default_ids")]
    pub ids: (u32, u32),
    pub local_hold: u16,
    pub remote_hold: u16,
    /// (passive role?, symbol)
    pub seq: Vec<(bool, Sym)>,
}

fn default_ids() -> (u32, u32) {
    (0x0a00_0001, 0x0a00_0002)
}

/// identifier pairs whose order differs under the usual wrong comparisons: byte-swapped,
/// signed, low octet / low half only, string order of the dotted form
pub const ID_PAIRS: [(u32, u32); 10] = [
    (0x0a00_0001, 0x0a00_0002),
    (0x0100_0002, 0x0200_0001),
    (1, 256),
    (0x0000_00ff, 0x0000_0100),
    (0x7fff_ffff, 0x8000_0000),
    (1, 0xdfff_ffff),
    (0x0001_ffff, 0x0002_0000),
    (0x0900_0000, 0x0a00_0000),
    (0xc0a8_0002, 0xc0a8_000a),
    (0xdfff_fffe, 0xdfff_ffff),
];

pub const LOCAL_AS: u32 = 65000;
pub const REMOTE_AS: u32 = 65001;

pub fn open_msg(asn: u32, hold: u16, id: u32) -> bgp::Message {
    bgp::Message::Open(bgp::Open {
        as_number: asn,
        holdtime: bgp::HoldTime::new(hold).unwrap_or(bgp::HoldTime::DISABLED),
        router_id: id,
        capability: vec![bgp::Capability::FourOctetAsNumber(asn)],
    })
}

pub fn update_msg() -> bgp::Message {
    bgp::Message::Update(bgp::Update::EndOfRib(packet::Family::IPV4))
}

pub fn input_of(sym: Sym, remote_hold: u16, remote_id: u32) -> Input {
    match sym {
        Sym::Connected => Input::Connected(false),
        Sym::OpenOk => Input::MessageReceived(open_msg(REMOTE_AS, remote_hold, remote_id)),
        Sym::OpenBadAs => Input::MessageReceived(open_msg(REMOTE_AS + 7, remote_hold, remote_id)),
        Sym::Keepalive => Input::MessageReceived(bgp::Message::Keepalive),
        Sym::Update => Input::MessageReceived(update_msg()),
        Sym::Notification => Input::MessageReceived(bgp::Message::Notification(packet::Notification::CeaseAdministrativeReset)),
        Sym::RouteRefresh => Input::MessageReceived(bgp::Message::RouteRefresh { family: packet::Family::IPV4 }),
        Sym::KeepaliveTimer => Input::KeepaliveTimerExpired,
        Sym::HoldTimer => Input::HoldTimerExpired,
        Sym::Disconnected => Input::Disconnected,
        Sym::AdminShutdown => Input::AdminShutdown,
        Sym::UpdateSent => Input::UpdateSent,
        // (not produced for the FSM-level sub-checks)
        Sym::OpenBadHold | Sym::BadType => Input::Disconnected,
    }
}

#[derive(Clone, Copy, Debug, PartialEq, Eq)]
pub enum MState {
    Idle,
    OpenSent,
    OpenConfirm,
    Established,
}

fn mstate_of(s: State) -> Option<MState> {
    Some(match s {
        State::Idle => MState::Idle,
        State::OpenSent => MState::OpenSent,
        State::OpenConfirm => MState::OpenConfirm,
        State::Established => MState::Established,
        _ => return None,
    })
}

/// the state as an FSM Error NOTIFICATION carries it (RFC 6608 §3 sub-codes)
fn state_code(s: MState) -> u8 {
    match s {
        MState::Idle => 0,
        MState::OpenSent => 1,
        MState::OpenConfirm => 2,
        MState::Established => 3,
    }
}

/// Why the model expects a connection to go down on this input.
#[derive(Clone, Debug, PartialEq, Eq)]
enum Down {
    FsmError(u8),
    BadPeerAs,
    HoldExpired,
    Remote,
    Io,
    Admin,
    Collision,
    /// refused by the decoder: NOTIFICATION (code, sub-code)
    Decoder(u8, u8),
}

fn role_of(passive: bool) -> Role {
    if passive { Role::Passive } else { Role::Active }
}

fn classify_down(reason: &SessionDownReason, notif: &Option<bgp::Message>) -> String {
    let n = match notif {
        Some(bgp::Message::Notification(n)) => format!("{:?}", n),
        Some(_) => "non-notification".to_string(),
        None => "none".to_string(),
    };
    let r = match reason {
        SessionDownReason::HoldTimerExpired => "HoldTimerExpired",
        SessionDownReason::RemoteNotification(_) => "RemoteNotification",
        SessionDownReason::LocalNotification(_) => "LocalNotification",
        SessionDownReason::FsmError => "FsmError",
        SessionDownReason::AdminShutdown => "AdminShutdown",
        SessionDownReason::IoError => "IoError",
    };
    format!("{r}/{n}")
}

struct Expect {
    down: [Option<Down>; 2],
    close: bool,
    established: bool,
}

/// the reference model: one input for the connection of role index `r` (0 = active, 1 = passive)
fn model_step(m: &mut [MState; 2], r: usize, sym: Sym, local_id_higher: bool) -> Expect {
    let o = 1 - r;
    let mut expect_down: [Option<Down>; 2] = [None, None];
    let mut expect_close = false;
    let mut expect_established = false;
    match (sym, m[r]) {
        (Sym::Connected, MState::Idle) => m[r] = MState::OpenSent,
        (Sym::Connected, _) => expect_close = true,
        (_, MState::Idle) => {} // no connection in this direction: nothing may happen
        (Sym::OpenOk, MState::OpenSent) => {
            m[r] = MState::OpenConfirm;
            // collision resolution (RFC 4271 §6.8 as restated by the property)
            match m[o] {
                MState::Established => {
                    m[r] = MState::Idle;
                    expect_down[r] = Some(Down::Collision);
                }
                MState::OpenConfirm => {
                    // survivor = connection initiated by the higher identifier:
                    // local higher => the active (locally initiated) one survives
                    let survivor = if local_id_higher { 0 } else { 1 };
                    let loser = 1 - survivor;
                    m[loser] = MState::Idle;
                    expect_down[loser] = Some(Down::Collision);
                }
                _ => {}
            }
        }
        (Sym::OpenBadAs, MState::OpenSent) => {
            m[r] = MState::Idle;
            expect_down[r] = Some(Down::BadPeerAs);
        }
        (Sym::OpenOk | Sym::OpenBadAs, s) => {
            m[r] = MState::Idle;
            expect_down[r] = Some(Down::FsmError(state_code(s)));
        }
        (Sym::Keepalive, MState::OpenConfirm) => {
            m[r] = MState::Established;
            expect_established = true;
        }
        (Sym::Keepalive, MState::Established) => {}
        (Sym::Keepalive, s) => {
            m[r] = MState::Idle;
            expect_down[r] = Some(Down::FsmError(state_code(s)));
        }
        (Sym::Update | Sym::RouteRefresh, MState::Established) => {}
        (Sym::Update | Sym::RouteRefresh, s) => {
            m[r] = MState::Idle;
            expect_down[r] = Some(Down::FsmError(state_code(s)));
        }
        (Sym::Notification, _) => {
            m[r] = MState::Idle;
            expect_down[r] = Some(Down::Remote);
        }
        (Sym::HoldTimer, _) => {
            m[r] = MState::Idle;
            expect_down[r] = Some(Down::HoldExpired);
        }
        (Sym::Disconnected, _) => {
            m[r] = MState::Idle;
            expect_down[r] = Some(Down::Io);
        }
        (Sym::AdminShutdown, _) => {
            m[r] = MState::Idle;
            expect_down[r] = Some(Down::Admin);
        }
        (Sym::KeepaliveTimer | Sym::UpdateSent, _) => {}
        (Sym::OpenBadHold, _) => {
            m[r] = MState::Idle;
            expect_down[r] = Some(Down::Decoder(2, 6));
        }
        (Sym::BadType, _) => {
            m[r] = MState::Idle;
            expect_down[r] = Some(Down::Decoder(1, 3));
        }
    }
    Expect { down: expect_down, close: expect_close, established: expect_established }
}

pub fn check(c: &Case) -> CheckResult {
    let (lo, hi) = (c.ids.0.min(c.ids.1), c.ids.0.max(c.ids.1));
    if lo == 0 || lo == hi {
        return Ok(CaseInfo::trivial().class("identifiers-outside-statement"));
    }
    let (local_id, remote_id) = if c.local_id_higher { (hi, lo) } else { (lo, hi) };
    let mut fsm = PeerFsm::new(local_id, LOCAL_AS, vec![bgp::Capability::FourOctetAsNumber(LOCAL_AS)], c.local_hold as u64, REMOTE_AS, FnvHashMap::default());
    // model state: index 0 = active, 1 = passive
    let mut m = [MState::Idle, MState::Idle];
    let mut info = CaseInfo::trivial();

    for (step, (passive, sym)) in c.seq.iter().enumerate() {
        let r = *passive as usize;
        let o = 1 - r;
        let pre = m;
        // ---- reference model ------------------------------------------------
        let Expect { down: expect_down, close: expect_close, established: expect_established } = model_step(&mut m, r, *sym, c.local_id_higher);

        // ---- real FSM ---------------------------------------------------------
        let outs = fsm.process(role_of(*passive), input_of(*sym, c.remote_hold, remote_id));

        let ctx = |what: &str| format!("step {step} ({}, {sym:?}) pre-state active={:?} passive={:?}: {what}", if *passive { "passive" } else { "active" }, pre[0], pre[1]);

        // states
        for (i, role) in [(0usize, Role::Active), (1usize, Role::Passive)] {
            let got = mstate_of(fsm.state(role));
            if got != Some(m[i]) {
                return Err(Failure::new("fsm-state", ctx(&format!("{:?} connection is in {:?}, reference model says {:?}", role, fsm.state(role), m[i])))
                    .with("sym", format!("{sym:?}"))
                    .with("pre_own", format!("{:?}", pre[r]))
                    .with("pre_other", format!("{:?}", pre[o]))
                    .with("got", format!("{:?}", fsm.state(role)))
                    .with("want", format!("{:?}", m[i])));
            }
        }
        // at most one of the two in OpenConfirm-or-Established
        let high = |s: State| matches!(s, State::OpenConfirm | State::Established);
        if high(fsm.state(Role::Active)) && high(fsm.state(Role::Passive)) {
            return Err(Failure::new("fsm-collision", ctx("both connections are in OpenConfirm-or-Established")));
        }
        // outputs: session-down per role, established, close
        let mut downs: [Vec<String>; 2] = [Vec::new(), Vec::new()];
        let mut cease_to: [u32; 2] = [0, 0];
        let mut established = [false, false];
        let mut close = false;
        let mut sent_open = false;
        let mut sent_keepalive = false;
        for o_ in &outs {
            match o_ {
                PeerFsmOutput::CloseConnection => close = true,
                PeerFsmOutput::StopActiveConnect => {}
                PeerFsmOutput::Connection(role, out) => {
                    let i = (*role == Role::Passive) as usize;
                    match out {
                        Output::SessionDown(reason, notif) => {
                            if let Some(bgp::Message::Notification(packet::Notification::CeaseConnectionCollision)) = notif {
                                cease_to[i] += 1;
                            }
                            downs[i].push(classify_down(reason, notif));
                        }
                        Output::SendMessage(bgp::Message::Notification(packet::Notification::CeaseConnectionCollision)) => cease_to[i] += 1,
                        Output::SendMessage(bgp::Message::Open(op)) => {
                            sent_open = true;
                            if op.as_number != LOCAL_AS || op.router_id != local_id || op.holdtime.seconds() != c.local_hold {
                                return Err(Failure::new("fsm-open", ctx("OPEN sent does not carry the configured AS / identifier / hold time")));
                            }
                        }
                        Output::SendMessage(bgp::Message::Keepalive) => sent_keepalive = true,
                        Output::SessionEstablished { remote_asn, remote_id: rid, .. } => {
                            established[i] = true;
                            if *remote_asn != REMOTE_AS || *rid != remote_id {
                                return Err(Failure::new("fsm-established", ctx("SessionEstablished carries wrong remote AS / identifier")));
                            }
                        }
                        _ => {}
                    }
                }
            }
        }
        if close != expect_close {
            return Err(Failure::new("fsm-close", ctx(&format!("CloseConnection emitted={close}, expected={expect_close}"))));
        }
        if *sym == Sym::Connected && pre[r] == MState::Idle && !sent_open {
            return Err(Failure::new("fsm-open", ctx("no OPEN sent on a new connection")));
        }
        if *sym == Sym::OpenOk && pre[r] == MState::OpenSent && !sent_keepalive {
            return Err(Failure::new("fsm-open", ctx("acceptable OPEN not answered with KEEPALIVE")));
        }
        if established[r] != expect_established || established[o] {
            return Err(Failure::new("fsm-established", ctx(&format!("SessionEstablished emitted own={} other={}, expected own={expect_established}", established[r], established[o]))));
        }
        for i in 0..2 {
            match &expect_down[i] {
                None => {
                    if !downs[i].is_empty() || cease_to[i] != 0 {
                        return Err(Failure::new("fsm-down", ctx(&format!("unexpected session-down for {} connection: {:?}", if i == 1 { "passive" } else { "active" }, downs[i]))).with("sym", format!("{sym:?}")));
                    }
                }
                Some(Down::Collision) => {
                    if cease_to[i] != 1 {
                        return Err(Failure::new("fsm-collision", ctx(&format!("collision loser ({}) was sent {} Cease/collision notifications, expected exactly 1", if i == 1 { "passive" } else { "active" }, cease_to[i])))
                            .with("loser", if i == 1 { "passive" } else { "active" }));
                    }
                }
                Some(d) => {
                    let want: String = match d {
                        Down::FsmError(code) => format!("LocalNotification/FsmUnexpectedState {{ state: {code} }}"),
                        Down::BadPeerAs => "LocalNotification/OpenBadPeerAs".into(),
                        Down::HoldExpired => "HoldTimerExpired/HoldTimerExpired".into(),
                        Down::Remote => "RemoteNotification/none".into(),
                        Down::Io => "IoError/none".into(),
                        Down::Admin => "AdminShutdown/CeaseAdminShutdown".into(),
                        Down::Collision | Down::Decoder(..) => unreachable!(),
                    };
                    if downs[i].len() != 1 || downs[i][0] != want {
                        return Err(Failure::new("fsm-down", ctx(&format!("session-down for {} connection is {:?}, expected [{want}]", if i == 1 { "passive" } else { "active" }, downs[i])))
                            .with("sym", format!("{sym:?}"))
                            .with("want", want));
                    }
                }
            }
        }
        // evidence classes
        if m[r] == MState::OpenConfirm && m[o] != MState::Idle || expect_down.iter().any(|d| d == &Some(Down::Collision)) {
            info.nontrivial = true;
        }
        if expect_down.iter().any(|d| d == &Some(Down::Collision)) {
            info = info.class(if pre[o] == MState::Established { "collision/established-survives" } else { "collision/both-openconfirm" });
        }
        if let Some(Down::FsmError(code)) = &expect_down[r] {
            if *code >= 2 {
                info.nontrivial = true;
            }
            info = info.class(match code { 1 => "fsm-error/opensent", 2 => "fsm-error/openconfirm", _ => "fsm-error/established" });
        }
        if expect_established {
            info = info.class("reached-established");
        }
        if *sym == Sym::Connected && pre[r] == MState::Idle && step > 0 && c.seq[..step].iter().any(|(p, _)| *p == *passive) {
            info = info.class("reconnect-after-down");
        }
    }
    Ok(info)
}

// ---------------------------------------------------------------------------
// generators
// ---------------------------------------------------------------------------

fn arb_sym() -> impl Strategy<Value = Sym> {
    prop_oneof![
        5 => Just(Sym::Connected),
        6 => Just(Sym::OpenOk),
        1 => Just(Sym::OpenBadAs),
        6 => Just(Sym::Keepalive),
        2 => Just(Sym::Update),
        1 => Just(Sym::Notification),
        1 => Just(Sym::RouteRefresh),
        1 => Just(Sym::KeepaliveTimer),
        1 => Just(Sym::HoldTimer),
        1 => Just(Sym::Disconnected),
        1 => Just(Sym::AdminShutdown),
        1 => Just(Sym::UpdateSent),
    ]
}

pub fn arb_case(max_len: usize) -> impl Strategy<Value = Case> {
    (
        any::<bool>(),
        prop_oneof![3 => proptest::sample::select(ID_PAIRS.to_vec()), 1 => (1u32..=u32::MAX, 1u32..=u32::MAX)],
        prop_oneof![Just(0u16), Just(3), Just(90)],
        prop_oneof![Just(0u16), Just(3), Just(90), Just(65535)],
        proptest::collection::vec((any::<bool>(), arb_sym()), 1..=max_len),
    )
        .prop_map(|(local_id_higher, ids, local_hold, remote_hold, seq)| Case { local_id_higher, ids, local_hold, remote_hold, seq })
}

fn exhaustive(depth: usize, local_id_higher: bool, ids: (u32, u32)) -> impl Iterator<Item = Case> + Send {
    let alphabet: Vec<(bool, Sym)> = [false, true].iter().flat_map(|p| ALL_SYMS.iter().map(move |s| (*p, *s))).collect();
    let n = alphabet.len() as u64;
    let total: u64 = (1..=depth as u32).map(|d| n.pow(d)).sum();
    (0..total).map(move |mut k| {
        // decode k into a sequence of length d
        let mut d = 1u32;
        while k >= n.pow(d) {
            k -= n.pow(d);
            d += 1;
        }
        let mut seq = Vec::with_capacity(d as usize);
        for _ in 0..d {
            seq.push(alphabet[(k % n) as usize]);
            k /= n;
        }
        Case { local_id_higher, ids, local_hold: 90, remote_hold: 90, seq }
    })
}

pub fn run(r: &Run) {
    r.set_rule(RULE);
    r.assume("OPENs carry the same remote identifier on both connections (one remote speaker) and it differs from the local identifier (equal identifiers are outside the statement)");
    r.assume("hold-time / identifier validity of a received OPEN is enforced by the wire decoder (C03/C05 territory); the FSM input is a decoded OPEN");
    let depth = r.tier.pick(4, 5);
    r.exhaustive(if depth == 4 { "exhaustive-depth4-local-higher" } else { "exhaustive-depth5-local-higher" }, exhaustive(depth, true, ID_PAIRS[0]), check);
    r.exhaustive(if depth == 4 { "exhaustive-depth4-remote-higher" } else { "exhaustive-depth5-remote-higher" }, exhaustive(depth, false, ID_PAIRS[0]), check);
    // the same for every identifier pair at depth 4 (the shortest collision takes four inputs)
    for (i, ids) in ID_PAIRS.iter().enumerate().skip(1) {
        for higher in [true, false] {
            let name: &'static str = Box::leak(format!("exhaustive-depth4-ids{}-{}", i, if higher { "local-higher" } else { "remote-higher" }).into_boxed_str());
            r.exhaustive(name, exhaustive(4, higher, *ids), check);
        }
    }
    r.prop("random-sequences", r.tier.pick(200_000, 4_000_000), || arb_case(r.tier.pick(40, 80)), check);
    r.assume(DRIVER_RULE);
    r.slow(|| r.prop("driver-sequences", r.tier.pick(6_000, 200_000), || arb_driver_case(r.tier.pick(12, 24)), check_driver));
}

pub fn replay(sub: &str, case: &Value) -> Result<CheckResult, String> {
    let c: Case = decode_case(case)?;
    if sub.starts_with("driver") {
        return Ok(check_driver(&c));
    }
    Ok(check(&c))
}

// ---------------------------------------------------------------------------
// driver level: the same input sequences (those a remote speaker can produce) over real
// loopback connections into the daemon's accept_connection + PeerSession::run, both roles
// of one peer sharing the daemon's ConnArbiter. Reference: the same model.
// ---------------------------------------------------------------------------

pub const DRIVER_RULE: &str = "driver-sequences: sequences over both roles of one peer of the inputs a remote speaker can cause (new TCP connection, OPEN with expected / unexpected AS, KEEPALIVE, UPDATE, NOTIFICATION, connection loss) \
for the same identifier pairs; every connection is a real loopback TCP connection handed to the daemon's accept_connection (as its inbound or as its own outbound connection) whose PeerSession::run is spawned, so collisions go through ConnArbiter and the sessions' close channels. \
After every input (once the daemon has read it): the FSM state of both connection slots == reference model; a connection the model keeps is still open and was sent no NOTIFICATION; a connection the model tears down was closed by the daemon after the NOTIFICATION the statement names \
(Cease/collision to the loser, FSM error with the RFC 6608 sub-code of the state, Bad Peer AS); a new connection gets an OPEN with the configured AS and identifier, an accepted OPEN a KEEPALIVE; a second connection in a role already taken is closed without disturbing the first. non-trivial := as above";

const DRIVER_SYMS: [Sym; 10] = [Sym::Connected, Sym::OpenOk, Sym::OpenBadAs, Sym::Keepalive, Sym::Update, Sym::Notification, Sym::Disconnected, Sym::OpenBadHold, Sym::BadType, Sym::RouteRefresh];

const MARKER: [u8; 16] = [0xff; 16];

fn wire_open(asn: u32, id: u32) -> Vec<u8> {
    let mut body = vec![4u8];
    body.extend_from_slice(&(if asn > 65535 { 23456u16 } else { asn as u16 }).to_be_bytes());
    body.extend_from_slice(&90u16.to_be_bytes());
    body.extend_from_slice(&id.to_be_bytes());
    let mut cap = vec![65u8, 4];
    cap.extend_from_slice(&asn.to_be_bytes());
    body.push(2 + cap.len() as u8);
    body.push(2);
    body.push(cap.len() as u8);
    body.extend_from_slice(&cap);
    let mut m = MARKER.to_vec();
    m.extend_from_slice(&((19 + body.len()) as u16).to_be_bytes());
    m.push(1);
    m.extend_from_slice(&body);
    m
}

#[derive(Default, Debug, Clone)]
struct Seen {
    opens: Vec<(u32, u32)>,
    keepalives: usize,
    updates: usize,
    notifications: Vec<(u8, u8)>,
    closed: bool,
}

struct Tap {
    client: tokio::net::TcpStream,
    buf: Vec<u8>,
    closed: bool,
    _task: Option<tokio::task::JoinHandle<()>>,
}

impl Tap {
    fn take(&mut self) -> Seen {
        let mut seen = Seen::default();
        let mut chunk = [0u8; 4096];
        while !self.closed {
            match self.client.try_read(&mut chunk) {
                Ok(0) => self.closed = true,
                Ok(n) => self.buf.extend_from_slice(&chunk[..n]),
                Err(e) if e.kind() == std::io::ErrorKind::WouldBlock => break,
                Err(_) => self.closed = true,
            }
        }
        while self.buf.len() >= 19 {
            let len = u16::from_be_bytes([self.buf[16], self.buf[17]]) as usize;
            if len < 19 || self.buf.len() < len {
                break;
            }
            let m: Vec<u8> = self.buf.drain(..len).collect();
            match m[18] {
                1 if m.len() >= 29 => {
                    // AS from the four-octet capability if present, else the two-octet field
                    let mut asn = u16::from_be_bytes([m[20], m[21]]) as u32;
                    let id = u32::from_be_bytes([m[24], m[25], m[26], m[27]]);
                    let mut p = 29;
                    while p + 2 <= m.len() {
                        let (t, l) = (m[p], m[p + 1] as usize);
                        if t == 2 {
                            let mut q = p + 2;
                            while q + 2 <= (p + 2 + l).min(m.len()) {
                                let (ct, cl) = (m[q], m[q + 1] as usize);
                                if ct == 65 && cl == 4 && q + 6 <= m.len() {
                                    asn = u32::from_be_bytes([m[q + 2], m[q + 3], m[q + 4], m[q + 5]]);
                                }
                                q += 2 + cl;
                            }
                        }
                        p += 2 + l;
                    }
                    seen.opens.push((asn, id));
                }
                2 => seen.updates += 1,
                3 => seen.notifications.push((m.get(19).copied().unwrap_or(0), m.get(20).copied().unwrap_or(0))),
                4 => seen.keepalives += 1,
                _ => {}
            }
        }
        seen.closed = self.closed;
        seen
    }
}

async fn settle_io() {
    for _ in 0..3 {
        std::thread::sleep(std::time::Duration::from_micros(150));
        for _ in 0..6 {
            tokio::task::yield_now().await;
        }
    }
}

pub fn check_driver(c: &Case) -> CheckResult {
    let rt = tokio::runtime::Builder::new_current_thread().enable_all().event_interval(1).build().map_err(|e| Failure::new("harness", e.to_string()))?;
    rt.block_on(drive(c))
}

async fn drive(c: &Case) -> CheckResult {
    use crate::event::verif::{AdmitRig, NeighborCfg};
    use std::net::{IpAddr, Ipv4Addr};
    use tokio::io::AsyncWriteExt;

    let (lo, hi) = (c.ids.0.min(c.ids.1), c.ids.0.max(c.ids.1));
    if lo == 0 || lo == hi {
        return Ok(CaseInfo::trivial().class("identifiers-outside-statement"));
    }
    let (local_id, remote_id) = if c.local_id_higher { (hi, lo) } else { (lo, hi) };
    let rid = Ipv4Addr::from(remote_id);
    if rid.is_broadcast() || rid.is_multicast() {
        // not a valid identifier for the OPEN decoder (RFC 4271 §6.2): outside "acceptable OPEN"
        return Ok(CaseInfo::trivial().class("driver/remote-identifier-not-unicast"));
    }
    let src = crate::props::wirepeer::fresh_loopback();
    let rig = AdmitRig::new(LOCAL_AS, None).await.map_err(|e| Failure::new("harness", e))?;
    rig.set_router_id(Ipv4Addr::from(local_id)).await;
    let cfg = NeighborCfg { addr: src, remote_asn: REMOTE_AS, local_asn: 0, rs_client: false, rr_client: false, cluster_id: None, admin_down: false, holdtime: 90, families: vec![(packet::Family::IPV4, 0)], prefix_limit: None, gr: None, llgr: None };
    if !rig.add_neighbor(&cfg).await {
        return Err(Failure::new("harness", format!("add_peer refuses {cfg:?}")));
    }
    let mut m = [MState::Idle, MState::Idle];
    let mut taps: [Option<Tap>; 2] = [None, None];
    let mut frames_written = 0u64;
    let mut info = CaseInfo::trivial();

    for (step, (passive, sym)) in c.seq.iter().enumerate() {
        if !DRIVER_SYMS.contains(sym) {
            continue;
        }
        let r = *passive as usize;
        let o = 1 - r;
        let pre = m;
        let exp = model_step(&mut m, r, *sym, c.local_id_higher);
        let ctx = |what: &str| format!("step {step} ({}, {sym:?}) pre-state active={:?} passive={:?}: {what}", if *passive { "inbound" } else { "outbound" }, pre[0], pre[1]);
        let mut wrote = false;
        let mut closed_by_us = false;
        match sym {
            Sym::Connected => {
                let (view, mut conn) = rig.connect(src, r == 0).await.map_err(|e| Failure::new("harness", e))?;
                let client = conn.client.take().ok_or_else(|| Failure::new("harness", "no client socket".to_string()))?;
                let mut tap = Tap { client, buf: vec![], closed: false, _task: conn.task.take() };
                if pre[r] == MState::Idle {
                    if view.is_none() {
                        return Err(Failure::new("driver-admission", ctx("a connection in a free role was not given a session")));
                    }
                    taps[r] = Some(tap);
                } else {
                    // the role is taken: the newcomer is closed, nothing else happens
                    let mut closed = false;
                    let mut extra = Seen::default();
                    for _ in 0..3000 {
                        settle_io().await;
                        let s = tap.take();
                        extra.opens.extend(s.opens);
                        if s.closed {
                            closed = true;
                            break;
                        }
                    }
                    if view.is_some() || !closed || !extra.opens.is_empty() {
                        return Err(Failure::new("driver-close", ctx(&format!("a second connection in a role already taken: session created = {}, closed = {closed}, OPENs sent on it = {}", view.is_some(), extra.opens.len()))));
                    }
                }
            }
            _ if pre[r] == MState::Idle => {}
            Sym::Disconnected => {
                taps[r] = None;
                closed_by_us = true;
            }
            _ => {
                let bytes = match sym {
                    Sym::OpenOk => wire_open(REMOTE_AS, remote_id),
                    Sym::OpenBadAs => wire_open(REMOTE_AS + 7, remote_id),
                    Sym::OpenBadHold => {
                        let mut b = wire_open(REMOTE_AS, remote_id);
                        b[22] = 0;
                        b[23] = 1; // hold time 1 second: unacceptable (RFC 4271 §4.2)
                        b
                    }
                    Sym::BadType => [&MARKER[..], &[0, 19, 0x63]].concat(),
                    Sym::Keepalive => [&MARKER[..], &[0, 19, 4]].concat(),
                    Sym::Update => [&MARKER[..], &[0, 23, 2, 0, 0, 0, 0]].concat(),
                    Sym::RouteRefresh => [&MARKER[..], &[0, 23, 5, 0, 1, 0, 1]].concat(),
                    _ => [&MARKER[..], &[0, 21, 3, 6, 4]].concat(),
                };
                if let Some(t) = taps[r].as_mut()
                    && t.client.write_all(&bytes).await.is_ok()
                    && !matches!(sym, Sym::OpenBadHold | Sym::BadType)
                {
                    // (a frame the decoder refuses is not counted as received; its effect is the close)
                    wrote = true;
                    frames_written += 1;
                }
            }
        }
        // the daemon has read the message and both slots have settled in the model's states
        let mut seen = [Seen::default(), Seen::default()];
        let mut states = None;
        let mut waited = 0;
        loop {
            settle_io().await;
            for i in 0..2 {
                if let Some(t) = taps[i].as_mut() {
                    let s = t.take();
                    seen[i].opens.extend(s.opens);
                    seen[i].keepalives += s.keepalives;
                    seen[i].updates += s.updates;
                    seen[i].notifications.extend(s.notifications);
                    seen[i].closed |= s.closed;
                }
            }
            let read = !wrote || rig.rx_frames(src).await >= frames_written;
            states = rig.fsm_states(src).await;
            let agree = states.is_some_and(|(a, p)| mstate_of(a) == Some(m[0]) && mstate_of(p) == Some(m[1]));
            let downs_seen = (0..2).all(|i| exp.down[i].is_none() || taps[i].is_none() || seen[i].closed);
            if read && agree && downs_seen {
                break;
            }
            waited += 1;
            if waited > 3000 {
                break;
            }
        }
        let _ = closed_by_us;
        let Some((sa, sp)) = states else { return Err(Failure::new("harness", "no peer entry".to_string())) };
        for (i, got) in [(0usize, sa), (1usize, sp)] {
            if mstate_of(got) != Some(m[i]) {
                return Err(Failure::new("driver-state", ctx(&format!("the daemon's {} connection slot is in {:?}, reference model says {:?}", if i == 0 { "outbound" } else { "inbound" }, got, m[i])))
                    .with("sym", format!("{sym:?}"))
                    .with("pre_own", format!("{:?}", pre[r]))
                    .with("pre_other", format!("{:?}", pre[o]))
                    .with("got", format!("{got:?}"))
                    .with("want", format!("{:?}", m[i])));
            }
        }
        for i in 0..2 {
            let name = if i == 0 { "outbound" } else { "inbound" };
            match &exp.down[i] {
                None => {
                    if taps[i].is_some() && (seen[i].closed || !seen[i].notifications.is_empty()) {
                        return Err(Failure::new("driver-down", ctx(&format!("the {name} connection stays up in the reference model; the daemon sent {:?} and closed = {}", seen[i].notifications, seen[i].closed))).with("sym", format!("{sym:?}")));
                    }
                }
                Some(d) => {
                    if taps[i].is_none() {
                        continue; // closed by the remote side itself
                    }
                    let want: Option<(u8, u8)> = match d {
                        Down::Collision => Some((6, 7)),
                        // RFC 6608: 1 = OpenSent, 2 = OpenConfirm, 3 = Established
                        Down::FsmError(code) => Some((5, *code)),
                        Down::BadPeerAs => Some((2, 2)),
                        Down::Decoder(c, s) => Some((*c, *s)),
                        _ => None,
                    };
                    if !seen[i].closed {
                        return Err(Failure::new("driver-down", ctx(&format!("the {name} connection goes down in the reference model ({d:?}); the daemon left it open (sent {:?})", seen[i].notifications))).with("sym", format!("{sym:?}")));
                    }
                    match want {
                        Some(w) if !seen[i].notifications.contains(&w) => {
                            return Err(Failure::new(if *d == Down::Collision { "driver-collision" } else { "driver-notification" }, ctx(&format!("the {name} connection goes down for {d:?}: expected NOTIFICATION code/sub-code {w:?} before the close, the daemon sent {:?}", seen[i].notifications)))
                                .with("want", format!("{w:?}")));
                        }
                        None if !seen[i].notifications.is_empty() => {
                            return Err(Failure::new("driver-notification", ctx(&format!("the {name} connection goes down for {d:?}: no NOTIFICATION expected, the daemon sent {:?}", seen[i].notifications))).with("want", "none"));
                        }
                        _ => {}
                    }
                    taps[i] = None;
                }
            }
        }
        if *sym == Sym::Connected && pre[r] == MState::Idle {
            if seen[r].opens.len() != 1 || seen[r].opens[0] != (LOCAL_AS, local_id) {
                return Err(Failure::new("driver-open", ctx(&format!("a new connection must be sent one OPEN with AS {LOCAL_AS} and identifier {local_id:#x}; the daemon sent {:?}", seen[r].opens))));
            }
        } else if !seen[0].opens.is_empty() || !seen[1].opens.is_empty() {
            return Err(Failure::new("driver-open", ctx("an OPEN was sent on an existing connection")));
        }
        if *sym == Sym::OpenOk && pre[r] == MState::OpenSent && exp.down[r].is_none() && seen[r].keepalives == 0 {
            return Err(Failure::new("driver-open", ctx("an acceptable OPEN was not answered with a KEEPALIVE")));
        }
        if exp.down.iter().any(|d| d == &Some(Down::Collision)) {
            info.nontrivial = true;
            info = info.class(if pre[o] == MState::Established { "driver/collision/established-survives" } else { "driver/collision/both-openconfirm" });
        }
        if let Some(Down::FsmError(code)) = &exp.down[r] {
            info = info.class(match code { 1 => "driver/fsm-error/opensent", 2 => "driver/fsm-error/openconfirm", _ => "driver/fsm-error/established" });
        }
        if exp.established {
            info = info.class("driver/reached-established");
        }
        if exp.close {
            info = info.class("driver/second-connection-same-role");
        }
    }
    Ok(info)
}

fn arb_driver_sym() -> impl Strategy<Value = Sym> {
    prop_oneof![
        6 => Just(Sym::Connected),
        7 => Just(Sym::OpenOk),
        1 => Just(Sym::OpenBadAs),
        6 => Just(Sym::Keepalive),
        2 => Just(Sym::Update),
        1 => Just(Sym::Notification),
        1 => Just(Sym::Disconnected),
        1 => Just(Sym::OpenBadHold),
        1 => Just(Sym::BadType),
        2 => Just(Sym::RouteRefresh),
    ]
}

pub fn arb_driver_case(max_len: usize) -> impl Strategy<Value = Case> {
    // half of the cases start from a situation in which a collision is one or two inputs away
    let preamble = prop_oneof![
        4 => Just(vec![]),
        2 => any::<bool>().prop_map(|p| vec![(p, Sym::Connected), (!p, Sym::Connected)]),
        2 => any::<bool>().prop_map(|p| vec![(p, Sym::Connected), (p, Sym::OpenOk), (!p, Sym::Connected)]),
        1 => any::<bool>().prop_map(|p| vec![(p, Sym::Connected), (p, Sym::OpenOk), (p, Sym::Keepalive), (!p, Sym::Connected)]),
    ];
    (any::<bool>(), prop_oneof![3 => proptest::sample::select(ID_PAIRS.to_vec()), 1 => (1u32..=u32::MAX, 1u32..=u32::MAX)], preamble, proptest::collection::vec((any::<bool>(), arb_driver_sym()), 1..=max_len))
        .prop_map(|(local_id_higher, ids, mut seq, tail)| {
            seq.extend(tail);
            Case { local_id_higher, ids, local_hold: 90, remote_hold: 90, seq }
        })
}
