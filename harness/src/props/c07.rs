//! C07 — Established only after a valid OPEN exchange; a collision leaves one connection.
//!
//! Input sequences over both connection roles are fed to the real `PeerFsm`; a
//! reference model written from the statement (RFC 4271 §8 / §6.8 restricted to what
//! the statement fixes) tracks the state of both roles and predicts, for every input,
//! which connection must go down and with which NOTIFICATION.

use crate::common::*;
use crate::fsm::{Input, Output, PeerFsm, PeerFsmOutput, Role, SessionDownReason, State};
use fnv::FnvHashMap;
use proptest::prelude::*;
use rustybgp_packet as packet;
use rustybgp_packet::bgp;
use serde::{Deserialize, Serialize};
use serde_json::Value;

pub const RULE: &str = "cases: input sequences over both connection roles of one peer (connect, OPEN with expected/unexpected AS, KEEPALIVE, UPDATE, \
NOTIFICATION, ROUTE-REFRESH, both timers, disconnect, admin shutdown, update-sent) for both orderings of local/remote BGP identifier; \
bounded-exhaustive up to a depth plus long random sequences biased towards progress. After every input the state of both roles and the kind of \
session-down (FSM error with pre-state, hold expiry, bad peer AS, collision Cease) is compared with the reference model. \
non-trivial := the sequence reaches OpenConfirm on one role while the other role is in OpenSent or beyond (collision territory) or contains an FSM error \
in OpenConfirm/Established; distinct := distinct sequence";

#[derive(Clone, Copy, Debug, Serialize, Deserialize, PartialEq, Eq, Hash)]
pub enum Sym {
    Connected,
    OpenOk,
    OpenBadAs,
    Keepalive,
    Update,
    Notification,
    RouteRefresh,
    KeepaliveTimer,
    HoldTimer,
    Disconnected,
    AdminShutdown,
    UpdateSent,
}

pub const ALL_SYMS: [Sym; 12] = [
    Sym::Connected,
    Sym::OpenOk,
    Sym::OpenBadAs,
    Sym::Keepalive,
    Sym::Update,
    Sym::Notification,
    Sym::RouteRefresh,
    Sym::KeepaliveTimer,
    Sym::HoldTimer,
    Sym::Disconnected,
    Sym::AdminShutdown,
    Sym::UpdateSent,
];

#[derive(Clone, Debug, Serialize, Deserialize)]
pub struct Case {
    /// local identifier > remote identifier ?
    pub local_id_higher: bool,
    pub local_hold: u16,
    pub remote_hold: u16,
    /// (passive role?, symbol)
    pub seq: Vec<(bool, Sym)>,
}

pub const LOCAL_AS: u32 = 65000;
pub const REMOTE_AS: u32 = 65001;

pub fn open_msg(asn: u32, hold: u16, id: u32) -> bgp::Message {
    bgp::Message::Open(bgp::Open {
        as_number: asn,
        holdtime: bgp::HoldTime::new(hold).unwrap_or(bgp::HoldTime::DISABLED),
        router_id: id,
        capability: vec![bgp::Capability::FourOctetAsNumber(asn)],
    })
}

pub fn update_msg() -> bgp::Message {
    bgp::Message::Update(bgp::Update::EndOfRib(packet::Family::IPV4))
}

pub fn input_of(sym: Sym, remote_hold: u16, remote_id: u32) -> Input {
    match sym {
        Sym::Connected => Input::Connected(false),
        Sym::OpenOk => Input::MessageReceived(open_msg(REMOTE_AS, remote_hold, remote_id)),
        Sym::OpenBadAs => Input::MessageReceived(open_msg(REMOTE_AS + 7, remote_hold, remote_id)),
        Sym::Keepalive => Input::MessageReceived(bgp::Message::Keepalive),
        Sym::Update => Input::MessageReceived(update_msg()),
        Sym::Notification => Input::MessageReceived(bgp::Message::Notification(packet::Notification::CeaseAdministrativeReset)),
        Sym::RouteRefresh => Input::MessageReceived(bgp::Message::RouteRefresh { family: packet::Family::IPV4 }),
        Sym::KeepaliveTimer => Input::KeepaliveTimerExpired,
        Sym::HoldTimer => Input::HoldTimerExpired,
        Sym::Disconnected => Input::Disconnected,
        Sym::AdminShutdown => Input::AdminShutdown,
        Sym::UpdateSent => Input::UpdateSent,
    }
}

#[derive(Clone, Copy, Debug, PartialEq, Eq)]
pub enum MState {
    Idle,
    OpenSent,
    OpenConfirm,
    Established,
}

fn mstate_of(s: State) -> Option<MState> {
    Some(match s {
        State::Idle => MState::Idle,
        State::OpenSent => MState::OpenSent,
        State::OpenConfirm => MState::OpenConfirm,
        State::Established => MState::Established,
        _ => return None,
    })
}

fn state_code(s: MState) -> u8 {
    match s {
        MState::Idle => 0,
        MState::OpenSent => 3,
        MState::OpenConfirm => 4,
        MState::Established => 5,
    }
}

/// Why the model expects a connection to go down on this input.
#[derive(Clone, Debug, PartialEq, Eq)]
enum Down {
    FsmError(u8),
    BadPeerAs,
    HoldExpired,
    Remote,
    Io,
    Admin,
    Collision,
}

fn role_of(passive: bool) -> Role {
    if passive { Role::Passive } else { Role::Active }
}

fn classify_down(reason: &SessionDownReason, notif: &Option<bgp::Message>) -> String {
    let n = match notif {
        Some(bgp::Message::Notification(n)) => format!("{:?}", n),
        Some(_) => "non-notification".to_string(),
        None => "none".to_string(),
    };
    let r = match reason {
        SessionDownReason::HoldTimerExpired => "HoldTimerExpired",
        SessionDownReason::RemoteNotification(_) => "RemoteNotification",
        SessionDownReason::LocalNotification(_) => "LocalNotification",
        SessionDownReason::FsmError => "FsmError",
        SessionDownReason::AdminShutdown => "AdminShutdown",
        SessionDownReason::IoError => "IoError",
    };
    format!("{r}/{n}")
}

pub fn check(c: &Case) -> CheckResult {
    let (local_id, remote_id) = if c.local_id_higher { (0x0a00_0002u32, 0x0a00_0001u32) } else { (0x0a00_0001u32, 0x0a00_0002u32) };
    let mut fsm = PeerFsm::new(local_id, LOCAL_AS, vec![bgp::Capability::FourOctetAsNumber(LOCAL_AS)], c.local_hold as u64, REMOTE_AS, FnvHashMap::default());
    // model state: index 0 = active, 1 = passive
    let mut m = [MState::Idle, MState::Idle];
    let mut info = CaseInfo::trivial();

    for (step, (passive, sym)) in c.seq.iter().enumerate() {
        let r = *passive as usize;
        let o = 1 - r;
        let pre = m;
        // ---- reference model ------------------------------------------------
        let mut expect_down: [Option<Down>; 2] = [None, None];
        let mut expect_close = false;
        let mut expect_established = false;
        match (sym, m[r]) {
            (Sym::Connected, MState::Idle) => m[r] = MState::OpenSent,
            (Sym::Connected, _) => expect_close = true,
            (_, MState::Idle) => {} // no connection in this direction: nothing may happen
            (Sym::OpenOk, MState::OpenSent) => {
                m[r] = MState::OpenConfirm;
                // collision resolution (RFC 4271 §6.8 as restated by the property)
                match m[o] {
                    MState::Established => {
                        m[r] = MState::Idle;
                        expect_down[r] = Some(Down::Collision);
                    }
                    MState::OpenConfirm => {
                        // survivor = connection initiated by the higher identifier:
                        // local higher => the active (locally initiated) one survives
                        let survivor = if c.local_id_higher { 0 } else { 1 };
                        let loser = 1 - survivor;
                        m[loser] = MState::Idle;
                        expect_down[loser] = Some(Down::Collision);
                    }
                    _ => {}
                }
            }
            (Sym::OpenBadAs, MState::OpenSent) => {
                m[r] = MState::Idle;
                expect_down[r] = Some(Down::BadPeerAs);
            }
            (Sym::OpenOk | Sym::OpenBadAs, s) => {
                m[r] = MState::Idle;
                expect_down[r] = Some(Down::FsmError(state_code(s)));
            }
            (Sym::Keepalive, MState::OpenConfirm) => {
                m[r] = MState::Established;
                expect_established = true;
            }
            (Sym::Keepalive, MState::Established) => {}
            (Sym::Keepalive, s) => {
                m[r] = MState::Idle;
                expect_down[r] = Some(Down::FsmError(state_code(s)));
            }
            (Sym::Update | Sym::RouteRefresh, MState::Established) => {}
            (Sym::Update | Sym::RouteRefresh, s) => {
                m[r] = MState::Idle;
                expect_down[r] = Some(Down::FsmError(state_code(s)));
            }
            (Sym::Notification, _) => {
                m[r] = MState::Idle;
                expect_down[r] = Some(Down::Remote);
            }
            (Sym::HoldTimer, _) => {
                m[r] = MState::Idle;
                expect_down[r] = Some(Down::HoldExpired);
            }
            (Sym::Disconnected, _) => {
                m[r] = MState::Idle;
                expect_down[r] = Some(Down::Io);
            }
            (Sym::AdminShutdown, _) => {
                m[r] = MState::Idle;
                expect_down[r] = Some(Down::Admin);
            }
            (Sym::KeepaliveTimer | Sym::UpdateSent, _) => {}
        }

        // ---- real FSM ---------------------------------------------------------
        let outs = fsm.process(role_of(*passive), input_of(*sym, c.remote_hold, remote_id));

        let ctx = |what: &str| format!("step {step} ({}, {sym:?}) pre-state active={:?} passive={:?}: {what}", if *passive { "passive" } else { "active" }, pre[0], pre[1]);

        // states
        for (i, role) in [(0usize, Role::Active), (1usize, Role::Passive)] {
            let got = mstate_of(fsm.state(role));
            if got != Some(m[i]) {
                return Err(Failure::new("fsm-state", ctx(&format!("{:?} connection is in {:?}, reference model says {:?}", role, fsm.state(role), m[i])))
                    .with("sym", format!("{sym:?}"))
                    .with("pre_own", format!("{:?}", pre[r]))
                    .with("pre_other", format!("{:?}", pre[o]))
                    .with("got", format!("{:?}", fsm.state(role)))
                    .with("want", format!("{:?}", m[i])));
            }
        }
        // at most one of the two in OpenConfirm-or-Established
        let high = |s: State| matches!(s, State::OpenConfirm | State::Established);
        if high(fsm.state(Role::Active)) && high(fsm.state(Role::Passive)) {
            return Err(Failure::new("fsm-collision", ctx("both connections are in OpenConfirm-or-Established")));
        }
        // outputs: session-down per role, established, close
        let mut downs: [Vec<String>; 2] = [Vec::new(), Vec::new()];
        let mut cease_to: [u32; 2] = [0, 0];
        let mut established = [false, false];
        let mut close = false;
        let mut sent_open = false;
        let mut sent_keepalive = false;
        for o_ in &outs {
            match o_ {
                PeerFsmOutput::CloseConnection => close = true,
                PeerFsmOutput::StopActiveConnect => {}
                PeerFsmOutput::Connection(role, out) => {
                    let i = (*role == Role::Passive) as usize;
                    match out {
                        Output::SessionDown(reason, notif) => {
                            if let Some(bgp::Message::Notification(packet::Notification::CeaseConnectionCollision)) = notif {
                                cease_to[i] += 1;
                            }
                            downs[i].push(classify_down(reason, notif));
                        }
                        Output::SendMessage(bgp::Message::Notification(packet::Notification::CeaseConnectionCollision)) => cease_to[i] += 1,
                        Output::SendMessage(bgp::Message::Open(op)) => {
                            sent_open = true;
                            if op.as_number != LOCAL_AS || op.router_id != local_id || op.holdtime.seconds() != c.local_hold {
                                return Err(Failure::new("fsm-open", ctx("OPEN sent does not carry the configured AS / identifier / hold time")));
                            }
                        }
                        Output::SendMessage(bgp::Message::Keepalive) => sent_keepalive = true,
                        Output::SessionEstablished { remote_asn, remote_id: rid, .. } => {
                            established[i] = true;
                            if *remote_asn != REMOTE_AS || *rid != remote_id {
                                return Err(Failure::new("fsm-established", ctx("SessionEstablished carries wrong remote AS / identifier")));
                            }
                        }
                        _ => {}
                    }
                }
            }
        }
        if close != expect_close {
            return Err(Failure::new("fsm-close", ctx(&format!("CloseConnection emitted={close}, expected={expect_close}"))));
        }
        if *sym == Sym::Connected && pre[r] == MState::Idle && !sent_open {
            return Err(Failure::new("fsm-open", ctx("no OPEN sent on a new connection")));
        }
        if *sym == Sym::OpenOk && pre[r] == MState::OpenSent && !sent_keepalive {
            return Err(Failure::new("fsm-open", ctx("acceptable OPEN not answered with KEEPALIVE")));
        }
        if established[r] != expect_established || established[o] {
            return Err(Failure::new("fsm-established", ctx(&format!("SessionEstablished emitted own={} other={}, expected own={expect_established}", established[r], established[o]))));
        }
        for i in 0..2 {
            match &expect_down[i] {
                None => {
                    if !downs[i].is_empty() || cease_to[i] != 0 {
                        return Err(Failure::new("fsm-down", ctx(&format!("unexpected session-down for {} connection: {:?}", if i == 1 { "passive" } else { "active" }, downs[i]))).with("sym", format!("{sym:?}")));
                    }
                }
                Some(Down::Collision) => {
                    if cease_to[i] != 1 {
                        return Err(Failure::new("fsm-collision", ctx(&format!("collision loser ({}) was sent {} Cease/collision notifications, expected exactly 1", if i == 1 { "passive" } else { "active" }, cease_to[i])))
                            .with("loser", if i == 1 { "passive" } else { "active" }));
                    }
                }
                Some(d) => {
                    let want: String = match d {
                        Down::FsmError(code) => format!("LocalNotification/FsmUnexpectedState {{ state: {code} }}"),
                        Down::BadPeerAs => "LocalNotification/OpenBadPeerAs".into(),
                        Down::HoldExpired => "HoldTimerExpired/HoldTimerExpired".into(),
                        Down::Remote => "RemoteNotification/none".into(),
                        Down::Io => "IoError/none".into(),
                        Down::Admin => "AdminShutdown/CeaseAdminShutdown".into(),
                        Down::Collision => unreachable!(),
                    };
                    if downs[i].len() != 1 || downs[i][0] != want {
                        return Err(Failure::new("fsm-down", ctx(&format!("session-down for {} connection is {:?}, expected [{want}]", if i == 1 { "passive" } else { "active" }, downs[i])))
                            .with("sym", format!("{sym:?}"))
                            .with("want", want));
                    }
                }
            }
        }
        // evidence classes
        if m[r] == MState::OpenConfirm && m[o] != MState::Idle || expect_down.iter().any(|d| d == &Some(Down::Collision)) {
            info.nontrivial = true;
        }
        if expect_down.iter().any(|d| d == &Some(Down::Collision)) {
            info = info.class(if pre[o] == MState::Established { "collision/established-survives" } else { "collision/both-openconfirm" });
        }
        if let Some(Down::FsmError(code)) = &expect_down[r] {
            if *code >= 4 {
                info.nontrivial = true;
            }
            info = info.class(match code { 3 => "fsm-error/opensent", 4 => "fsm-error/openconfirm", _ => "fsm-error/established" });
        }
        if expect_established {
            info = info.class("reached-established");
        }
        if *sym == Sym::Connected && pre[r] == MState::Idle && step > 0 && c.seq[..step].iter().any(|(p, _)| *p == *passive) {
            info = info.class("reconnect-after-down");
        }
    }
    Ok(info)
}

// ---------------------------------------------------------------------------
// generators
// ---------------------------------------------------------------------------

fn arb_sym() -> impl Strategy<Value = Sym> {
    prop_oneof![
        5 => Just(Sym::Connected),
        6 => Just(Sym::OpenOk),
        1 => Just(Sym::OpenBadAs),
        6 => Just(Sym::Keepalive),
        2 => Just(Sym::Update),
        1 => Just(Sym::Notification),
        1 => Just(Sym::RouteRefresh),
        1 => Just(Sym::KeepaliveTimer),
        1 => Just(Sym::HoldTimer),
        1 => Just(Sym::Disconnected),
        1 => Just(Sym::AdminShutdown),
        1 => Just(Sym::UpdateSent),
    ]
}

pub fn arb_case(max_len: usize) -> impl Strategy<Value = Case> {
    (
        any::<bool>(),
        prop_oneof![Just(0u16), Just(3), Just(90)],
        prop_oneof![Just(0u16), Just(3), Just(90), Just(65535)],
        proptest::collection::vec((any::<bool>(), arb_sym()), 1..=max_len),
    )
        .prop_map(|(local_id_higher, local_hold, remote_hold, seq)| Case { local_id_higher, local_hold, remote_hold, seq })
}

fn exhaustive(depth: usize, local_id_higher: bool) -> impl Iterator<Item = Case> + Send {
    let alphabet: Vec<(bool, Sym)> = [false, true].iter().flat_map(|p| ALL_SYMS.iter().map(move |s| (*p, *s))).collect();
    let n = alphabet.len() as u64;
    let total: u64 = (1..=depth as u32).map(|d| n.pow(d)).sum();
    (0..total).map(move |mut k| {
        // decode k into a sequence of length d
        let mut d = 1u32;
        while k >= n.pow(d) {
            k -= n.pow(d);
            d += 1;
        }
        let mut seq = Vec::with_capacity(d as usize);
        for _ in 0..d {
            seq.push(alphabet[(k % n) as usize]);
            k /= n;
        }
        Case { local_id_higher, local_hold: 90, remote_hold: 90, seq }
    })
}

pub fn run(r: &Run) {
    r.set_rule(RULE);
    r.assume("OPENs carry the same remote identifier on both connections (one remote speaker) and it differs from the local identifier (equal identifiers are outside the statement)");
    r.assume("hold-time / identifier validity of a received OPEN is enforced by the wire decoder (C03/C05 territory); the FSM input is a decoded OPEN");
    let depth = r.tier.pick(4, 5);
    r.exhaustive(if depth == 4 { "exhaustive-depth4-local-higher" } else { "exhaustive-depth5-local-higher" }, exhaustive(depth, true), check);
    r.exhaustive(if depth == 4 { "exhaustive-depth4-remote-higher" } else { "exhaustive-depth5-remote-higher" }, exhaustive(depth, false), check);
    r.prop("random-sequences", r.tier.pick(200_000, 4_000_000), || arb_case(r.tier.pick(40, 80)), check);
}

pub fn replay(_sub: &str, case: &Value) -> Result<CheckResult, String> {
    let c: Case = decode_case(case)?;
    Ok(check(&c))
}
