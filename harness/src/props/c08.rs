//! C08 — hold/keepalive timing follows the negotiated value; zero disables it.
//!
//! The real `PeerFsm` is driven by a virtual-time model of the I/O driver's timer
//! handling (`apply_outputs` / `run_select` in daemon/src/event/mod.rs): one pending
//! deadline per timer, replaced by every Set*Timer(n) output (n = 0 is due at once),
//! a due hold timer is served before a due keepalive timer, and due timers are
//! served before the next received message.

use crate::common::*;
use crate::fsm::{Input, Output, PeerFsm, PeerFsmOutput, Role, SessionDownReason, State};
use crate::props::c07::{LOCAL_AS, REMOTE_AS, open_msg, update_msg};
use fnv::FnvHashMap;
use proptest::prelude::*;
use rustybgp_packet as packet;
use rustybgp_packet::bgp;
use serde::{Deserialize, Serialize};
use serde_json::Value;

pub const RULE: &str = "cases: (local hold, remote hold) from {0,3,4,5,9,10,30,90,100,65534,65535, random 3..200}^2 and a timed script (advance virtual time by amounts placed around the keepalive and hold deadlines, \
receive KEEPALIVE / UPDATE / ROUTE-REFRESH, update-sent) after connect + OPEN; the FSM's timer outputs are interpreted by a virtual-time model of the driver. \
Checked after every event: timer values == min(local,remote) and a third of it; the hold deadline == last KEEPALIVE/UPDATE/OPEN receipt + negotiated; hold expiry tears the session down; \
a keepalive timer is always pending while the session is up; with negotiated 0 no timer is pending once the OPEN exchange is done and no timer ever fires. \
non-trivial := the script crosses at least one hold deadline, or negotiated hold is 0 and the script runs past Established; distinct := distinct serialized case";

#[derive(Clone, Copy, Debug, Serialize, Deserialize)]
pub enum Dt {
    Abs(u16),
    /// keepalive interval + delta
    Ka(i8),
    /// negotiated hold + delta
    Hold(i8),
    /// time left until the hold deadline + delta
    ToHoldDeadline(i8),
}

#[derive(Clone, Copy, Debug, Serialize, Deserialize)]
pub enum Ev {
    Advance(Dt),
    RxKeepalive,
    RxUpdate,
    RxRouteRefresh,
    UpdateSent,
    /// driver level only: an UPDATE whose AS_PATH contains the local AS (the route is not
    /// installed; it is an UPDATE received all the same)
    RxLoopedUpdate,
    /// driver level only: a KEEPALIVE that arrives 0.2 s earlier within its second than the others, i.e. 0.8 s
    /// after a message of the second before (re-arms that follow each other by less than a second)
    RxKeepaliveEarly,
}

#[derive(Clone, Debug, Serialize, Deserialize)]
pub struct Case {
    pub passive: bool,
    pub local_hold: u16,
    pub remote_hold: u16,
    /// virtual seconds between connect and OPEN receipt, and OPEN and first KEEPALIVE
    pub open_delay: u16,
    pub ka_delay: u16,
    pub script: Vec<Ev>,
}

const DISARMED: u64 = 1_000_000_000; // a Set*Timer at or beyond this is "never"

struct Driver {
    now: u64,
    hold: Option<u64>,
    ka: Option<u64>,
    down: Option<(String, u64)>,
    timer_fired: Vec<(&'static str, u64)>,
    hold_values: Vec<u64>,
    ka_values: Vec<u64>,
    keepalives_sent: Vec<u64>,
}

impl Driver {
    fn apply(&mut self, outs: Vec<PeerFsmOutput>) {
        for o in outs {
            if let PeerFsmOutput::Connection(_, out) = o {
                match out {
                    Output::SetHoldTimer(n) => {
                        self.hold_values.push(n);
                        self.hold = if n >= DISARMED { None } else { Some(self.now + n) };
                    }
                    Output::CancelHoldTimer => self.hold = None,
                    Output::SetKeepaliveTimer(n) => {
                        self.ka_values.push(n);
                        self.ka = if n >= DISARMED { None } else { Some(self.now + n) };
                    }
                    Output::SendMessage(bgp::Message::Keepalive) => self.keepalives_sent.push(self.now),
                    Output::SessionDown(reason, _) => {
                        let r = match reason {
                            SessionDownReason::HoldTimerExpired => "hold-expired",
                            SessionDownReason::RemoteNotification(_) => "remote-notification",
                            SessionDownReason::LocalNotification(_) => "local-notification",
                            SessionDownReason::FsmError => "fsm-error",
                            SessionDownReason::AdminShutdown => "admin",
                            SessionDownReason::IoError => "io",
                        };
                        if self.down.is_none() {
                            self.down = Some((r.to_string(), self.now));
                        }
                    }
                    _ => {}
                }
            }
        }
    }

    /// serve every timer that is due at `self.now` (hold before keepalive)
    fn serve_due(&mut self, fsm: &mut PeerFsm, role: Role) {
        let mut guard = 0;
        while self.down.is_none() {
            guard += 1;
            if guard > 64 {
                break;
            }
            if let Some(d) = self.hold
                && d <= self.now
            {
                self.hold = None;
                self.timer_fired.push(("hold", self.now));
                let outs = fsm.process(role, Input::HoldTimerExpired);
                self.apply(outs);
                continue;
            }
            if let Some(d) = self.ka
                && d <= self.now
            {
                self.ka = None;
                self.timer_fired.push(("keepalive", self.now));
                let outs = fsm.process(role, Input::KeepaliveTimerExpired);
                self.apply(outs);
                continue;
            }
            break;
        }
    }

    fn advance(&mut self, dt: u64, fsm: &mut PeerFsm, role: Role) {
        let target = self.now + dt;
        loop {
            if self.down.is_some() {
                break;
            }
            let next = [self.hold, self.ka].iter().flatten().copied().min();
            match next {
                Some(d) if d <= target => {
                    self.now = self.now.max(d);
                    self.serve_due(fsm, role);
                }
                _ => break,
            }
        }
        if self.down.is_none() {
            self.now = target;
        }
    }
}

pub fn check(c: &Case) -> CheckResult {
    let role = if c.passive { Role::Passive } else { Role::Active };
    let mut fsm = PeerFsm::new(0x0a00_0001, LOCAL_AS, vec![bgp::Capability::FourOctetAsNumber(LOCAL_AS)], c.local_hold as u64, REMOTE_AS, FnvHashMap::default());
    let mut d = Driver { now: 0, hold: None, ka: None, down: None, timer_fired: vec![], hold_values: vec![], ka_values: vec![], keepalives_sent: vec![] };
    let negotiated = c.local_hold.min(c.remote_hold) as u64;
    let ka_int = negotiated / 3;
    let mut info = CaseInfo::trivial();

    // --- OPEN exchange -------------------------------------------------------
    let o = fsm.process(role, Input::Connected(false));
    d.apply(o);
    d.serve_due(&mut fsm, role);
    d.advance(c.open_delay as u64, &mut fsm, role);
    if d.down.is_some() {
        // the OpenSent timer (a large implementation-chosen value) expired first: not in scope
        return Ok(info.class("down-before-open"));
    }
    let pre_open_hold_values = d.hold_values.len();
    let o = fsm.process(role, Input::MessageReceived(open_msg(REMOTE_AS, c.remote_hold, 0x0a00_0002)));
    d.apply(o);
    let mut last_rearm = d.now; // the negotiated hold timer starts when the OPEN is accepted
    let mut last_tx = d.now; // KEEPALIVE answering the OPEN
    d.serve_due(&mut fsm, role);

    let mut step = 0usize;
    let mut crossed_hold = false;
    let mut established_at: Option<u64> = None;

    // invariant check after every event
    macro_rules! invariant {
        ($what:expr) => {{
            let what: String = $what;
            // values the FSM asked for after the OPEN was accepted
            for v in &d.hold_values[pre_open_hold_values..] {
                if negotiated > 0 && *v != negotiated {
                    return Err(Failure::new("hold-value", format!("step {step} {what}: SetHoldTimer({v}) but negotiated hold is min({}, {}) = {negotiated}", c.local_hold, c.remote_hold))
                        .with("negotiated", negotiated).with("got", *v));
                }
            }
            for v in &d.ka_values {
                if negotiated > 0 && *v != ka_int {
                    return Err(Failure::new("keepalive-value", format!("step {step} {what}: SetKeepaliveTimer({v}) but a third of the negotiated hold {negotiated} is {ka_int}"))
                        .with("negotiated", negotiated).with("got", *v));
                }
            }
            let st = fsm.state(role);
            let up = matches!(st, State::OpenConfirm | State::Established);
            if negotiated == 0 {
                if let Some((reason, t)) = &d.down {
                    if reason == "hold-expired" || !d.timer_fired.is_empty() {
                        return Err(Failure::new("zero-hold", format!("step {step} {what}: negotiated hold time is 0 but a timer fired ({:?}) and the session went down ({reason}) at t={t}", d.timer_fired))
                            .with("local_hold", c.local_hold).with("remote_hold", c.remote_hold).with("fired", format!("{:?}", d.timer_fired.first())));
                    }
                }
                if up && (d.hold.is_some() || d.ka.is_some()) {
                    return Err(Failure::new("zero-hold", format!("step {step} {what}: negotiated hold time is 0 but a timer is still pending after the OPEN exchange (hold deadline {:?}, keepalive deadline {:?}, now {})", d.hold, d.ka, d.now))
                        .with("local_hold", c.local_hold).with("remote_hold", c.remote_hold)
                        .with("pending", if d.hold.is_some() { "hold" } else { "keepalive" }));
                }
            } else if up {
                if d.hold != Some(last_rearm + negotiated) {
                    return Err(Failure::new("hold-deadline", format!("step {step} {what}: hold deadline is {:?}, expected last KEEPALIVE/UPDATE/OPEN receipt {last_rearm} + negotiated {negotiated}", d.hold))
                        .with("what", what.clone()));
                }
                match d.ka {
                    None => return Err(Failure::new("keepalive-deadline", format!("step {step} {what}: no keepalive timer pending while the session is up"))),
                    Some(k) => {
                        if k > last_tx + ka_int {
                            return Err(Failure::new("keepalive-deadline", format!("step {step} {what}: next KEEPALIVE due at {k}, more than {ka_int}s after the last KEEPALIVE/UPDATE sent at {last_tx}")));
                        }
                    }
                }
            }
            if let Some((reason, t)) = &d.down {
                if reason == "hold-expired" {
                    if negotiated > 0 && *t != last_rearm + negotiated {
                        return Err(Failure::new("hold-expiry-time", format!("step {step} {what}: torn down for hold expiry at t={t}, but last receipt was {last_rearm} and negotiated hold {negotiated}")));
                    }
                    crossed_hold = true;
                }
            }
        }};
    }
    invariant!("after OPEN".to_string());

    // first KEEPALIVE -> Established
    if d.down.is_none() {
        d.advance(c.ka_delay as u64, &mut fsm, role);
        last_tx = d.keepalives_sent.last().copied().unwrap_or(last_tx).max(last_tx);
        invariant!("waiting for first KEEPALIVE".to_string());
    }
    if d.down.is_none() {
        let o = fsm.process(role, Input::MessageReceived(bgp::Message::Keepalive));
        d.apply(o);
        last_rearm = d.now;
        d.serve_due(&mut fsm, role);
        if fsm.state(role) == State::Established {
            established_at = Some(d.now);
        }
        invariant!("after first KEEPALIVE".to_string());
        if d.down.is_none() && fsm.state(role) != State::Established {
            return Err(Failure::new("not-established", "OPEN + KEEPALIVE did not reach Established".to_string()));
        }
    }

    for ev in &c.script {
        step += 1;
        if d.down.is_some() {
            break;
        }
        match ev {
            Ev::Advance(dt) => {
                let secs: i64 = match dt {
                    Dt::Abs(n) => *n as i64,
                    Dt::Ka(k) => ka_int as i64 + *k as i64,
                    Dt::Hold(k) => negotiated as i64 + *k as i64,
                    Dt::ToHoldDeadline(k) => d.hold.map(|h| h as i64 - d.now as i64).unwrap_or(5) + *k as i64,
                };
                let secs = secs.clamp(0, 200_000) as u64;
                d.advance(secs, &mut fsm, role);
                if let Some(t) = d.keepalives_sent.last() {
                    last_tx = last_tx.max(*t);
                }
            }
            Ev::RxKeepalive | Ev::RxKeepaliveEarly => {
                let o = fsm.process(role, Input::MessageReceived(bgp::Message::Keepalive));
                d.apply(o);
                last_rearm = d.now;
                d.serve_due(&mut fsm, role);
            }
            Ev::RxUpdate | Ev::RxLoopedUpdate => {
                let o = fsm.process(role, Input::MessageReceived(update_msg()));
                d.apply(o);
                last_rearm = d.now;
                d.serve_due(&mut fsm, role);
            }
            Ev::RxRouteRefresh => {
                let o = fsm.process(role, Input::MessageReceived(bgp::Message::RouteRefresh { family: packet::Family::IPV4 }));
                d.apply(o);
                d.serve_due(&mut fsm, role);
            }
            Ev::UpdateSent => {
                let o = fsm.process(role, Input::UpdateSent);
                d.apply(o);
                last_tx = d.now;
                d.serve_due(&mut fsm, role);
            }
        }
        invariant!(format!("{ev:?}"));
    }
    // a session that is still up must not have passed its hold deadline
    if negotiated > 0 && d.down.is_none() && d.now > last_rearm + negotiated {
        return Err(Failure::new("hold-expiry-missed", format!("session still up at t={} although nothing was received since {last_rearm} (negotiated hold {negotiated})", d.now)));
    }
    let zero_past_est = negotiated == 0 && established_at.is_some() && !c.script.is_empty();
    info.nontrivial = crossed_hold || zero_past_est;
    Ok(info
        .class_if(crossed_hold, "hold-expired")
        .class_if(zero_past_est, "zero-hold-past-established")
        .class_if(negotiated == 0 && c.local_hold != 0, "zero-negotiated-local-nonzero")
        .class_if(negotiated > 0 && d.down.is_none(), "survived")
        .class_if(c.local_hold != c.remote_hold && negotiated > 0, "asymmetric-hold"))
}

fn arb_hold() -> impl Strategy<Value = u16> {
    prop_oneof![3 => Just(0u16), 2 => Just(3), 1 => Just(4), 1 => Just(5), 1 => Just(9), 1 => Just(10), 1 => Just(30), 1 => Just(90), 1 => Just(100), 1 => Just(65534), 1 => Just(65535), 1 => 3u16..200]
}

fn arb_dt() -> impl Strategy<Value = Dt> {
    prop_oneof![
        3 => (0u16..6).prop_map(Dt::Abs),
        3 => (-1i8..=1).prop_map(Dt::Ka),
        2 => (-1i8..=1).prop_map(Dt::Hold),
        3 => (-2i8..=1).prop_map(Dt::ToHoldDeadline),
    ]
}

pub fn arb_case(max_len: usize) -> impl Strategy<Value = Case> {
    let ev = prop_oneof![
        6 => arb_dt().prop_map(Ev::Advance),
        3 => Just(Ev::RxKeepalive),
        2 => Just(Ev::RxUpdate),
        1 => Just(Ev::RxRouteRefresh),
        2 => Just(Ev::UpdateSent),
    ];
    (any::<bool>(), arb_hold(), arb_hold(), 0u16..3, 0u16..3, proptest::collection::vec(ev, 0..=max_len))
        .prop_map(|(passive, local_hold, remote_hold, open_delay, ka_delay, script)| Case { passive, local_hold, remote_hold, open_delay, ka_delay, script })
}

pub fn run(r: &Run) {
    r.set_rule(RULE);
    r.assume("timed-scripts: the driver is modelled, not executed (driver-timed-scripts executes it): Set*Timer(n) replaces the single pending deadline (n=0 due at once), a due hold timer is served before a due keepalive timer and before the next received message — as apply_outputs()/run_select() do; a Set*Timer value >= 1e9 s is treated as 'disarmed'");
    r.assume("the value of the pre-OPEN (OpenSent) timer is implementation-chosen and not checked; scripts that let it expire before the OPEN arrives are not judged");
    r.prop("timed-scripts", r.tier.pick(300_000, 5_000_000), || arb_case(r.tier.pick(24, 60)), check);
    r.assume(DRIVER_RULE);
    r.slow(|| r.prop("driver-timed-scripts", r.tier.pick(3_000, 100_000), || arb_driver_case(r.tier.pick(12, 24)), check_driver));
}

pub fn replay(sub: &str, case: &Value) -> Result<CheckResult, String> {
    let c: Case = decode_case(case)?;
    if sub.starts_with("driver") {
        return Ok(check_driver(&c));
    }
    Ok(check(&c))
}

// ---------------------------------------------------------------------------
// driver level: the same timed scripts through the daemon's PeerSession::run
// (apply_outputs / run_select / flush_tx with their tokio timers) over a loopback
// connection, on tokio's paused clock which the check advances itself.
// Reference: the virtual-time driver model above, run with the same FSM.
// ---------------------------------------------------------------------------

pub const DRIVER_RULE: &str = "driver-timed-scripts: (local hold, remote hold) as above and a timed script of Advance / RxKeepalive / RxUpdate; the daemon's PeerSession::run is spawned on an accepted loopback connection \
under tokio's paused clock; the check advances the clock to half a second before and after every instant at which the reference (the virtual-time driver model + PeerFsm) predicts a KEEPALIVE or a teardown, \
and writes the scripted messages a quarter second after their instant (after due timers, as the model serves them). Compared per one-second window: number of KEEPALIVEs received from the daemon, hold-timer NOTIFICATION + close; \
windows in which nothing is predicted must be silent, and a session the model keeps up must still be open at the end. non-trivial := as above";

#[derive(Clone, Copy, Debug, PartialEq)]
enum Act {
    Open,
    Keepalive,
    Update,
    LoopedUpdate,
    /// sent 0.05 s into its second instead of 0.25 s
    KeepaliveEarly,
}

struct Plan {
    acts: Vec<(u64, Act)>,
    keepalives: Vec<u64>,
    down: Option<(String, u64)>,
    end: u64,
    negotiated: u64,
    established: bool,
    /// instant of the KEEPALIVE that completes the OPEN exchange
    established_at: Option<u64>,
    /// a keepalive timer was due in the very second the session went down: which of the two
    /// the driver serves first is a tie of the model's whole seconds, not of the daemon
    ka_due_at_down: bool,
}

/// what the model driver + FSM do with the script; `eor` = the daemon sends one UPDATE
/// (End-of-RIB) when the session establishes, which the driver reports as UpdateSent
fn plan(c: &Case, eor: bool) -> Plan {
    let role = if c.passive { Role::Passive } else { Role::Active };
    let mut fsm = PeerFsm::new(0x0100_0001, LOCAL_AS, vec![bgp::Capability::FourOctetAsNumber(LOCAL_AS)], c.local_hold as u64, REMOTE_AS, FnvHashMap::default());
    let mut d = Driver { now: 0, hold: None, ka: None, down: None, timer_fired: vec![], hold_values: vec![], ka_values: vec![], keepalives_sent: vec![] };
    let negotiated = c.local_hold.min(c.remote_hold) as u64;
    let ka_int = negotiated / 3;
    let mut acts = Vec::new();
    let mut established = false;
    let mut established_at = None;
    let o = fsm.process(role, Input::Connected(false));
    d.apply(o);
    d.serve_due(&mut fsm, role);
    d.advance(c.open_delay as u64, &mut fsm, role);
    if d.down.is_none() {
        acts.push((d.now, Act::Open));
        let o = fsm.process(role, Input::MessageReceived(open_msg(REMOTE_AS, c.remote_hold, 0x0a00_0002)));
        d.apply(o);
        d.serve_due(&mut fsm, role);
    }
    if d.down.is_none() {
        d.advance(c.ka_delay as u64, &mut fsm, role);
    }
    if d.down.is_none() {
        acts.push((d.now, Act::Keepalive));
        let o = fsm.process(role, Input::MessageReceived(bgp::Message::Keepalive));
        d.apply(o);
        d.serve_due(&mut fsm, role);
        established = fsm.state(role) == State::Established;
        if established {
            established_at = Some(d.now);
        }
        if established && eor {
            let o = fsm.process(role, Input::UpdateSent);
            d.apply(o);
            d.serve_due(&mut fsm, role);
        }
    }
    for ev in &c.script {
        if d.down.is_some() {
            break;
        }
        match ev {
            Ev::Advance(dt) => {
                let secs: i64 = match dt {
                    Dt::Abs(n) => *n as i64,
                    Dt::Ka(k) => ka_int as i64 + *k as i64,
                    Dt::Hold(k) => negotiated as i64 + *k as i64,
                    Dt::ToHoldDeadline(k) => d.hold.map(|h| h as i64 - d.now as i64).unwrap_or(5) + *k as i64,
                };
                d.advance(secs.clamp(0, 200_000) as u64, &mut fsm, role);
            }
            Ev::RxKeepaliveEarly => {
                // only when no timer is due in this very second (the reference serves due timers before messages)
                let tie = d.hold == Some(d.now) || d.ka == Some(d.now);
                acts.push((d.now, if tie { Act::Keepalive } else { Act::KeepaliveEarly }));
                let o = fsm.process(role, Input::MessageReceived(bgp::Message::Keepalive));
                d.apply(o);
                d.serve_due(&mut fsm, role);
            }
            Ev::RxKeepalive => {
                acts.push((d.now, Act::Keepalive));
                let o = fsm.process(role, Input::MessageReceived(bgp::Message::Keepalive));
                d.apply(o);
                d.serve_due(&mut fsm, role);
            }
            Ev::RxLoopedUpdate => {
                acts.push((d.now, Act::LoopedUpdate));
                let o = fsm.process(role, Input::MessageReceived(update_msg()));
                d.apply(o);
                d.serve_due(&mut fsm, role);
            }
            Ev::RxUpdate => {
                acts.push((d.now, Act::Update));
                let o = fsm.process(role, Input::MessageReceived(update_msg()));
                d.apply(o);
                d.serve_due(&mut fsm, role);
            }
            Ev::RxRouteRefresh | Ev::UpdateSent => {}
        }
    }
    let ka_due_at_down = d.down.as_ref().is_some_and(|(_, td)| d.ka.is_some_and(|k| k <= *td));
    Plan { acts, keepalives: d.keepalives_sent.clone(), down: d.down.clone(), end: d.now, negotiated, established, established_at, ka_due_at_down }
}

const MARKER: [u8; 16] = [0xff; 16];

fn wire(a: Act, remote_hold: u16) -> Vec<u8> {
    let mut m = MARKER.to_vec();
    match a {
        Act::Keepalive | Act::KeepaliveEarly => m.extend_from_slice(&[0, 19, 4]),
        Act::Update => m.extend_from_slice(&[0, 23, 2, 0, 0, 0, 0]),
        Act::LoopedUpdate => {
            // ORIGIN IGP, AS_PATH [peer AS, the local AS], NEXT_HOP 192.0.2.1; NLRI 10.9.0.0/16 (the repository's encoder)
            let spec = crate::cgen::AttrSpec { origin: Some(0), as_path: Some(vec![crate::cgen::Seg { t: 2, n: 2, base: 0, asns: vec![REMOTE_AS, LOCAL_AS] }]), ..Default::default() };
            let msg = bgp::Message::Update(bgp::Update::Reach { family: packet::Family::IPV4, entries: vec![bgp::PathNlri { path_id: 0, nlri: crate::cgen::v4(10, 9, 0, 0, 16) }], nexthop: Some(bgp::Nexthop::V4(std::net::Ipv4Addr::new(192, 0, 2, 1))), attr: std::sync::Arc::new(spec.build()) });
            let mut codec = bgp::PeerCodec::new();
            codec.set_family(packet::Family::IPV4, bgp::FamilyState { addpath_rx: false, addpath_tx: false });
            let mut buf = bytes::BytesMut::new();
            let _ = codec.encode_to(&msg, &mut buf);
            return buf.to_vec();
        }
        Act::Open => {
            let mut body = vec![4u8];
            body.extend_from_slice(&(REMOTE_AS as u16).to_be_bytes());
            body.extend_from_slice(&remote_hold.to_be_bytes());
            body.extend_from_slice(&0x0a00_0002u32.to_be_bytes());
            let mut cap = vec![1u8, 4, 0, 1, 0, 1, 65, 4];
            cap.extend_from_slice(&REMOTE_AS.to_be_bytes());
            body.push(2 + cap.len() as u8);
            body.push(2);
            body.push(cap.len() as u8);
            body.extend_from_slice(&cap);
            m.extend_from_slice(&((19 + body.len()) as u16).to_be_bytes());
            m.push(1);
            m.extend_from_slice(&body);
        }
    }
    m
}

#[derive(Default, Debug, Clone, PartialEq)]
struct Seen {
    opens: usize,
    keepalives: usize,
    updates: usize,
    notifications: Vec<(u8, u8)>,
    closed: bool,
    garbage: bool,
}

impl Seen {
    fn silent(&self) -> bool {
        self.opens == 0 && self.keepalives == 0 && self.updates == 0 && self.notifications.is_empty() && !self.closed && !self.garbage
    }
}

struct Tap {
    client: tokio::net::TcpStream,
    buf: Vec<u8>,
    closed: bool,
}

impl Tap {
    /// everything the daemon sent since the last call
    fn take(&mut self) -> Seen {
        let mut seen = Seen::default();
        let mut chunk = [0u8; 4096];
        while !self.closed {
            match self.client.try_read(&mut chunk) {
                Ok(0) => self.closed = true,
                Ok(n) => self.buf.extend_from_slice(&chunk[..n]),
                Err(e) if e.kind() == std::io::ErrorKind::WouldBlock => break,
                Err(_) => self.closed = true,
            }
        }
        loop {
            if self.buf.len() < 19 {
                break;
            }
            let len = u16::from_be_bytes([self.buf[16], self.buf[17]]) as usize;
            if len < 19 || self.buf[..16] != MARKER {
                seen.garbage = true;
                self.buf.clear();
                break;
            }
            if self.buf.len() < len {
                break;
            }
            let m: Vec<u8> = self.buf.drain(..len).collect();
            match m[18] {
                1 => seen.opens += 1,
                2 => seen.updates += 1,
                3 => seen.notifications.push((m.get(19).copied().unwrap_or(0), m.get(20).copied().unwrap_or(0))),
                4 => seen.keepalives += 1,
                _ => seen.garbage = true,
            }
        }
        seen.closed = self.closed;
        seen
    }
}

/// let the session task and the I/O driver run: a little real time for the loopback delivery,
/// then yields (the runtime polls its I/O driver on every tick, see `check_driver`); the
/// paused clock does not move here
async fn settle(real_us: u64) {
    for _ in 0..3 {
        std::thread::sleep(std::time::Duration::from_micros(real_us));
        for _ in 0..6 {
            tokio::task::yield_now().await;
        }
    }
}

async fn advance_to(t: tokio::time::Instant) {
    let now = tokio::time::Instant::now();
    if t > now {
        tokio::time::advance(t - now).await;
    }
}

fn merge(a: &mut Seen, b: Seen) {
    a.opens += b.opens;
    a.keepalives += b.keepalives;
    a.updates += b.updates;
    a.notifications.extend(b.notifications);
    a.closed |= b.closed;
    a.garbage |= b.garbage;
}

pub fn check_driver(c: &Case) -> CheckResult {
    let rt = tokio::runtime::Builder::new_current_thread().enable_all().start_paused(true).event_interval(1).build().map_err(|e| Failure::new("harness", e.to_string()))?;
    rt.block_on(drive(c))
}

async fn drive(c: &Case) -> CheckResult {
    use crate::event::verif::{AdmitRig, NeighborCfg};
    use std::net::{IpAddr, Ipv4Addr};
    use std::time::Duration;
    use tokio::io::AsyncWriteExt;

    // the daemon sends End-of-RIB when the session establishes (IPv4 is negotiated): one UpdateSent there
    let p = plan(c, true);
    let src = crate::props::wirepeer::fresh_loopback();
    let rig = AdmitRig::new(LOCAL_AS, None).await.map_err(|e| Failure::new("harness", e))?;
    let cfg = NeighborCfg { addr: src, remote_asn: REMOTE_AS, local_asn: 0, rs_client: false, rr_client: false, cluster_id: None, admin_down: false, holdtime: c.local_hold as u64, families: vec![(packet::Family::IPV4, 0)], prefix_limit: None, gr: None, llgr: None };
    if !rig.add_neighbor(&cfg).await {
        return Err(Failure::new("harness", format!("add_peer refuses {cfg:?}")));
    }
    let (view, mut conn) = rig.connect(src, !c.passive).await.map_err(|e| Failure::new("harness", e))?;
    if view.is_none() {
        return Err(Failure::new("harness", "the connection was not admitted".to_string()));
    }
    let t0 = tokio::time::Instant::now();
    let mut tap = Tap { client: conn.client.take().ok_or_else(|| Failure::new("harness", "no client".to_string()))?, buf: vec![], closed: false };
    let at = |secs: u64, millis: u64| t0 + Duration::from_secs(secs) + Duration::from_millis(millis);

    // instants of interest, ascending
    let mut instants: Vec<u64> = p.acts.iter().map(|(t, _)| *t).chain(p.keepalives.iter().copied()).chain(p.down.iter().map(|(_, t)| *t)).chain([0]).collect();
    instants.sort();
    instants.dedup();
    let wit = |f: Failure| f.with("local_hold", c.local_hold).with("remote_hold", c.remote_hold).with("negotiated", p.negotiated);

    let mut n_sent = 0u64;
    let mut frames_written = 0u64;
    let mut over = false; // the model's session is down
    let mut windows = 0usize;
    for (i, t) in instants.iter().copied().enumerate() {
        // (1) the silent stretch up to half a second before t
        if t > 0 && (i == 0 || instants[i - 1] + 1 < t) {
            advance_to(at(t - 1, 500)).await;
            settle(150).await;
            let seen = tap.take();
            if !seen.silent() {
                return Err(wit(Failure::new("driver-unexpected", format!("between t={}s and t={}s the reference expects nothing from the daemon, the connection shows {seen:?}", instants.get(i.wrapping_sub(1)).map(|x| x + 1).unwrap_or(0), t))
                    .with("what", if seen.closed || !seen.notifications.is_empty() { "teardown" } else if seen.keepalives > 0 { "keepalive" } else { "other" })));
            }
        }
        // (2) scripted messages of this instant, after the timers due at it
        let mut got = Seen::default();
        for (_, a) in p.acts.iter().filter(|(ta, _)| *ta == t) {
            n_sent += 1;
            let base = if *a == Act::KeepaliveEarly { 50 } else { 250 };
            advance_to(at(t, base + 4 * n_sent - 2)).await;
            settle(150).await;
            merge(&mut got, tap.take());
            advance_to(at(t, base + 4 * n_sent)).await;
            if got.closed {
                continue;
            }
            if tap.client.write_all(&wire(*a, c.remote_hold)).await.is_err() {
                continue;
            }
            frames_written += 1;
            // the daemon has read it before the clock moves on
            let mut waited = 0;
            loop {
                settle(150).await;
                merge(&mut got, tap.take());
                if got.closed || rig.rx_frames(src).await >= frames_written {
                    break;
                }
                waited += 1;
                if waited > 4000 {
                    return Ok(CaseInfo::trivial().class("driver-inconclusive-delivery"));
                }
            }
        }
        // (3) the window closes half a second after t
        advance_to(at(t, 500)).await;
        let want_ka = p.keepalives.iter().filter(|k| **k == t).count();
        let want_down = p.down.as_ref().is_some_and(|(_, td)| *td == t);
        let mut tries = 0;
        loop {
            settle(if tries == 0 { 150 } else { 2000 }).await;
            merge(&mut got, tap.take());
            let complete = got.keepalives >= want_ka && (!want_down || got.closed);
            // (up to ~2 s of real time for what is normally there after the first settle)
            if complete || tries >= 300 {
                break;
            }
            tries += 1;
        }
        windows += 1;
        if std::env::var("VERIF_DEBUG").is_ok() {
            eprintln!("t={t} want_ka={want_ka} want_down={want_down} got={got:?} states={:?} rx={}", rig.fsm_states(src).await, rig.rx_frames(src).await);
        }
        let down_seen = got.closed || !got.notifications.is_empty();
        if got.garbage {
            return Err(wit(Failure::new("driver-garbage", format!("t={t}s: bytes from the daemon that are not a BGP message"))));
        }
        if (got.updates > 0) != (p.established_at == Some(t)) {
            // the reference models exactly one UPDATE sent by the daemon, the End-of-RIB at
            // establishment (it restarts the keepalive timer); anything else is outside it
            return Ok(CaseInfo::trivial().class("driver-inconclusive-daemon-sent-update"));
        }
        let tie = want_down && p.ka_due_at_down && got.keepalives == want_ka + 1;
        // likewise a keepalive timer due in the second in which the session establishes: the
        // End-of-RIB sent there restarts the timer, before or after it fired
        let tie2 = p.established_at == Some(t) && got.updates > 0 && want_ka > 0 && got.keepalives + 1 == want_ka;
        if got.keepalives != want_ka && !tie && !tie2 {
            return Err(wit(Failure::new("driver-keepalive", format!("t={t}s: the reference sends {want_ka} KEEPALIVE(s) in this second, the daemon sent {} ({got:?})", got.keepalives)).with("want", want_ka).with("got", got.keepalives)));
        }
        if want_down != down_seen {
            return Err(wit(Failure::new("driver-teardown", format!("t={t}s: reference session {} in this second, the daemon's connection shows {got:?}", if want_down { format!("goes down ({})", p.down.as_ref().map(|d| d.0.as_str()).unwrap_or("")) } else { "stays up".to_string() }))
                .with("want_down", want_down)));
        }
        if want_down {
            let reason = p.down.as_ref().map(|d| d.0.clone()).unwrap_or_default();
            if reason == "hold-expired" && !got.notifications.iter().any(|(code, _)| *code == 4) {
                return Err(wit(Failure::new("driver-teardown", format!("t={t}s: hold-timer expiry without a Hold Timer Expired NOTIFICATION ({got:?})")).with("want_down", true)));
            }
            over = true;
            break;
        }
    }
    // (4) the rest of the script is silent and the session is still there
    if !over {
        advance_to(at(p.end, 500)).await;
        settle(150).await;
        let seen = tap.take();
        if !seen.silent() {
            return Err(wit(Failure::new("driver-unexpected", format!("after the last predicted event and up to t={}s the reference expects nothing from the daemon, the connection shows {seen:?}", p.end))
                .with("what", if seen.closed || !seen.notifications.is_empty() { "teardown" } else if seen.keepalives > 0 { "keepalive" } else { "other" })));
        }
    }
    if let Some(t) = conn.task.take() {
        t.abort();
    }
    let crossed_hold = p.down.as_ref().is_some_and(|(r, _)| r == "hold-expired");
    let zero_past_est = p.negotiated == 0 && p.established && !c.script.is_empty();
    let mut info = CaseInfo::trivial();
    info.nontrivial = crossed_hold || zero_past_est;
    let _ = windows;
    Ok(info
        .class_if(crossed_hold, "driver/hold-expired")
        .class_if(zero_past_est, "driver/zero-hold-past-established")
        .class_if(p.negotiated == 0 && c.local_hold != 0, "driver/zero-negotiated-local-nonzero")
        .class_if(p.negotiated > 0 && p.down.is_none(), "driver/survived")
        .class_if(p.keepalives.len() > 3, "driver/several-keepalives"))
}

pub fn arb_driver_case(max_len: usize) -> impl Strategy<Value = Case> {
    let ev = prop_oneof![
        6 => arb_dt().prop_map(Ev::Advance),
        3 => Just(Ev::RxKeepalive),
        2 => Just(Ev::RxUpdate),
        2 => Just(Ev::RxLoopedUpdate),
        3 => Just(Ev::RxKeepaliveEarly),
    ];
    (any::<bool>(), arb_hold(), arb_hold(), 0u16..3, 0u16..3, proptest::collection::vec(ev, 0..=max_len))
        .prop_map(|(passive, local_hold, remote_hold, open_delay, ka_delay, script)| Case { passive, local_hold, remote_hold, open_delay, ka_delay, script })
}
