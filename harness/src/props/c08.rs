//! C08 — hold/keepalive timing follows the negotiated value; zero disables it.
//!
//! The real `PeerFsm` is driven by a virtual-time model of the I/O driver's timer
//! handling (`apply_outputs` / `run_select` in daemon/src/event/mod.rs): one pending
//! deadline per timer, replaced by every Set*Timer(n) output (n = 0 is due at once),
//! a due hold timer is served before a due keepalive timer, and due timers are
//! served before the next received message.

use crate::common::*;
use crate::fsm::{Input, Output, PeerFsm, PeerFsmOutput, Role, SessionDownReason, State};
use crate::props::c07::{LOCAL_AS, REMOTE_AS, open_msg, update_msg};
use fnv::FnvHashMap;
use proptest::prelude::*;
use rustybgp_packet as packet;
use rustybgp_packet::bgp;
use serde::{Deserialize, Serialize};
use serde_json::Value;

pub const RULE: &str = "cases: (local hold, remote hold) from {0,3,4,5,9,10,30,90,100,65534,65535, random 3..200}^2 and a timed script (advance virtual time by amounts placed around the keepalive and hold deadlines, \
receive KEEPALIVE / UPDATE / ROUTE-REFRESH, update-sent) after connect + OPEN; the FSM's timer outputs are interpreted by a virtual-time model of the driver. \
Checked after every event: timer values == min(local,remote) and a third of it; the hold deadline == last KEEPALIVE/UPDATE/OPEN receipt + negotiated; hold expiry tears the session down; \
a keepalive timer is always pending while the session is up; with negotiated 0 no timer is pending once the OPEN exchange is done and no timer ever fires. \
non-trivial := the script crosses at least one hold deadline, or negotiated hold is 0 and the script runs past Established; distinct := distinct serialized case";

#[derive(Clone, Copy, Debug, Serialize, Deserialize)]
pub enum Dt {
    Abs(u16),
    /// keepalive interval + delta
    Ka(i8),
    /// negotiated hold + delta
    Hold(i8),
    /// time left until the hold deadline + delta
    ToHoldDeadline(i8),
}

#[derive(Clone, Copy, Debug, Serialize, Deserialize)]
pub enum Ev {
    Advance(Dt),
    RxKeepalive,
    RxUpdate,
    RxRouteRefresh,
    UpdateSent,
}

#[derive(Clone, Debug, Serialize, Deserialize)]
pub struct Case {
    pub passive: bool,
    pub local_hold: u16,
    pub remote_hold: u16,
    /// virtual seconds between connect and OPEN receipt, and OPEN and first KEEPALIVE
    pub open_delay: u16,
    pub ka_delay: u16,
    pub script: Vec<Ev>,
}

const DISARMED: u64 = 1_000_000_000; // a Set*Timer at or beyond this is "never"

struct Driver {
    now: u64,
    hold: Option<u64>,
    ka: Option<u64>,
    down: Option<(String, u64)>,
    timer_fired: Vec<(&'static str, u64)>,
    hold_values: Vec<u64>,
    ka_values: Vec<u64>,
    keepalives_sent: Vec<u64>,
}

impl Driver {
    fn apply(&mut self, outs: Vec<PeerFsmOutput>) {
        for o in outs {
            if let PeerFsmOutput::Connection(_, out) = o {
                match out {
                    Output::SetHoldTimer(n) => {
                        self.hold_values.push(n);
                        self.hold = if n >= DISARMED { None } else { Some(self.now + n) };
                    }
                    Output::CancelHoldTimer => self.hold = None,
                    Output::SetKeepaliveTimer(n) => {
                        self.ka_values.push(n);
                        self.ka = if n >= DISARMED { None } else { Some(self.now + n) };
                    }
                    Output::SendMessage(bgp::Message::Keepalive) => self.keepalives_sent.push(self.now),
                    Output::SessionDown(reason, _) => {
                        let r = match reason {
                            SessionDownReason::HoldTimerExpired => "hold-expired",
                            SessionDownReason::RemoteNotification(_) => "remote-notification",
                            SessionDownReason::LocalNotification(_) => "local-notification",
                            SessionDownReason::FsmError => "fsm-error",
                            SessionDownReason::AdminShutdown => "admin",
                            SessionDownReason::IoError => "io",
                        };
                        if self.down.is_none() {
                            self.down = Some((r.to_string(), self.now));
                        }
                    }
                    _ => {}
                }
            }
        }
    }

    /// serve every timer that is due at `self.now` (hold before keepalive)
    fn serve_due(&mut self, fsm: &mut PeerFsm, role: Role) {
        let mut guard = 0;
        while self.down.is_none() {
            guard += 1;
            if guard > 64 {
                break;
            }
            if let Some(d) = self.hold
                && d <= self.now
            {
                self.hold = None;
                self.timer_fired.push(("hold", self.now));
                let outs = fsm.process(role, Input::HoldTimerExpired);
                self.apply(outs);
                continue;
            }
            if let Some(d) = self.ka
                && d <= self.now
            {
                self.ka = None;
                self.timer_fired.push(("keepalive", self.now));
                let outs = fsm.process(role, Input::KeepaliveTimerExpired);
                self.apply(outs);
                continue;
            }
            break;
        }
    }

    fn advance(&mut self, dt: u64, fsm: &mut PeerFsm, role: Role) {
        let target = self.now + dt;
        loop {
            if self.down.is_some() {
                break;
            }
            let next = [self.hold, self.ka].iter().flatten().copied().min();
            match next {
                Some(d) if d <= target => {
                    self.now = self.now.max(d);
                    self.serve_due(fsm, role);
                }
                _ => break,
            }
        }
        if self.down.is_none() {
            self.now = target;
        }
    }
}

pub fn check(c: &Case) -> CheckResult {
    let role = if c.passive { Role::Passive } else { Role::Active };
    let mut fsm = PeerFsm::new(0x0a00_0001, LOCAL_AS, vec![bgp::Capability::FourOctetAsNumber(LOCAL_AS)], c.local_hold as u64, REMOTE_AS, FnvHashMap::default());
    let mut d = Driver { now: 0, hold: None, ka: None, down: None, timer_fired: vec![], hold_values: vec![], ka_values: vec![], keepalives_sent: vec![] };
    let negotiated = c.local_hold.min(c.remote_hold) as u64;
    let ka_int = negotiated / 3;
    let mut info = CaseInfo::trivial();

    // --- OPEN exchange -------------------------------------------------------
    let o = fsm.process(role, Input::Connected(false));
    d.apply(o);
    d.serve_due(&mut fsm, role);
    d.advance(c.open_delay as u64, &mut fsm, role);
    if d.down.is_some() {
        // the OpenSent timer (a large implementation-chosen value) expired first: not in scope
        return Ok(info.class("down-before-open"));
    }
    let pre_open_hold_values = d.hold_values.len();
    let o = fsm.process(role, Input::MessageReceived(open_msg(REMOTE_AS, c.remote_hold, 0x0a00_0002)));
    d.apply(o);
    let mut last_rearm = d.now; // the negotiated hold timer starts when the OPEN is accepted
    let mut last_tx = d.now; // KEEPALIVE answering the OPEN
    d.serve_due(&mut fsm, role);

    let mut step = 0usize;
    let mut crossed_hold = false;
    let mut established_at: Option<u64> = None;

    // invariant check after every event
    macro_rules! invariant {
        ($what:expr) => {{
            let what: String = $what;
            // values the FSM asked for after the OPEN was accepted
            for v in &d.hold_values[pre_open_hold_values..] {
                if negotiated > 0 && *v != negotiated {
                    return Err(Failure::new("hold-value", format!("step {step} {what}: SetHoldTimer({v}) but negotiated hold is min({}, {}) = {negotiated}", c.local_hold, c.remote_hold))
                        .with("negotiated", negotiated).with("got", *v));
                }
            }
            for v in &d.ka_values {
                if negotiated > 0 && *v != ka_int {
                    return Err(Failure::new("keepalive-value", format!("step {step} {what}: SetKeepaliveTimer({v}) but a third of the negotiated hold {negotiated} is {ka_int}"))
                        .with("negotiated", negotiated).with("got", *v));
                }
            }
            let st = fsm.state(role);
            let up = matches!(st, State::OpenConfirm | State::Established);
            if negotiated == 0 {
                if let Some((reason, t)) = &d.down {
                    if reason == "hold-expired" || !d.timer_fired.is_empty() {
                        return Err(Failure::new("zero-hold", format!("step {step} {what}: negotiated hold time is 0 but a timer fired ({:?}) and the session went down ({reason}) at t={t}", d.timer_fired))
                            .with("local_hold", c.local_hold).with("remote_hold", c.remote_hold).with("fired", format!("{:?}", d.timer_fired.first())));
                    }
                }
                if up && (d.hold.is_some() || d.ka.is_some()) {
                    return Err(Failure::new("zero-hold", format!("step {step} {what}: negotiated hold time is 0 but a timer is still pending after the OPEN exchange (hold deadline {:?}, keepalive deadline {:?}, now {})", d.hold, d.ka, d.now))
                        .with("local_hold", c.local_hold).with("remote_hold", c.remote_hold)
                        .with("pending", if d.hold.is_some() { "hold" } else { "keepalive" }));
                }
            } else if up {
                if d.hold != Some(last_rearm + negotiated) {
                    return Err(Failure::new("hold-deadline", format!("step {step} {what}: hold deadline is {:?}, expected last KEEPALIVE/UPDATE/OPEN receipt {last_rearm} + negotiated {negotiated}", d.hold))
                        .with("what", what.clone()));
                }
                match d.ka {
                    None => return Err(Failure::new("keepalive-deadline", format!("step {step} {what}: no keepalive timer pending while the session is up"))),
                    Some(k) => {
                        if k > last_tx + ka_int {
                            return Err(Failure::new("keepalive-deadline", format!("step {step} {what}: next KEEPALIVE due at {k}, more than {ka_int}s after the last KEEPALIVE/UPDATE sent at {last_tx}")));
                        }
                    }
                }
            }
            if let Some((reason, t)) = &d.down {
                if reason == "hold-expired" {
                    if negotiated > 0 && *t != last_rearm + negotiated {
                        return Err(Failure::new("hold-expiry-time", format!("step {step} {what}: torn down for hold expiry at t={t}, but last receipt was {last_rearm} and negotiated hold {negotiated}")));
                    }
                    crossed_hold = true;
                }
            }
        }};
    }
    invariant!("after OPEN".to_string());

    // first KEEPALIVE -> Established
    if d.down.is_none() {
        d.advance(c.ka_delay as u64, &mut fsm, role);
        last_tx = d.keepalives_sent.last().copied().unwrap_or(last_tx).max(last_tx);
        invariant!("waiting for first KEEPALIVE".to_string());
    }
    if d.down.is_none() {
        let o = fsm.process(role, Input::MessageReceived(bgp::Message::Keepalive));
        d.apply(o);
        last_rearm = d.now;
        d.serve_due(&mut fsm, role);
        if fsm.state(role) == State::Established {
            established_at = Some(d.now);
        }
        invariant!("after first KEEPALIVE".to_string());
        if d.down.is_none() && fsm.state(role) != State::Established {
            return Err(Failure::new("not-established", "OPEN + KEEPALIVE did not reach Established".to_string()));
        }
    }

    for ev in &c.script {
        step += 1;
        if d.down.is_some() {
            break;
        }
        match ev {
            Ev::Advance(dt) => {
                let secs: i64 = match dt {
                    Dt::Abs(n) => *n as i64,
                    Dt::Ka(k) => ka_int as i64 + *k as i64,
                    Dt::Hold(k) => negotiated as i64 + *k as i64,
                    Dt::ToHoldDeadline(k) => d.hold.map(|h| h as i64 - d.now as i64).unwrap_or(5) + *k as i64,
                };
                let secs = secs.clamp(0, 200_000) as u64;
                d.advance(secs, &mut fsm, role);
                if let Some(t) = d.keepalives_sent.last() {
                    last_tx = last_tx.max(*t);
                }
            }
            Ev::RxKeepalive => {
                let o = fsm.process(role, Input::MessageReceived(bgp::Message::Keepalive));
                d.apply(o);
                last_rearm = d.now;
                d.serve_due(&mut fsm, role);
            }
            Ev::RxUpdate => {
                let o = fsm.process(role, Input::MessageReceived(update_msg()));
                d.apply(o);
                last_rearm = d.now;
                d.serve_due(&mut fsm, role);
            }
            Ev::RxRouteRefresh => {
                let o = fsm.process(role, Input::MessageReceived(bgp::Message::RouteRefresh { family: packet::Family::IPV4 }));
                d.apply(o);
                d.serve_due(&mut fsm, role);
            }
            Ev::UpdateSent => {
                let o = fsm.process(role, Input::UpdateSent);
                d.apply(o);
                last_tx = d.now;
                d.serve_due(&mut fsm, role);
            }
        }
        invariant!(format!("{ev:?}"));
    }
    // a session that is still up must not have passed its hold deadline
    if negotiated > 0 && d.down.is_none() && d.now > last_rearm + negotiated {
        return Err(Failure::new("hold-expiry-missed", format!("session still up at t={} although nothing was received since {last_rearm} (negotiated hold {negotiated})", d.now)));
    }
    let zero_past_est = negotiated == 0 && established_at.is_some() && !c.script.is_empty();
    info.nontrivial = crossed_hold || zero_past_est;
    Ok(info
        .class_if(crossed_hold, "hold-expired")
        .class_if(zero_past_est, "zero-hold-past-established")
        .class_if(negotiated == 0 && c.local_hold != 0, "zero-negotiated-local-nonzero")
        .class_if(negotiated > 0 && d.down.is_none(), "survived")
        .class_if(c.local_hold != c.remote_hold && negotiated > 0, "asymmetric-hold"))
}

fn arb_hold() -> impl Strategy<Value = u16> {
    prop_oneof![3 => Just(0u16), 2 => Just(3), 1 => Just(4), 1 => Just(5), 1 => Just(9), 1 => Just(10), 1 => Just(30), 1 => Just(90), 1 => Just(100), 1 => Just(65534), 1 => Just(65535), 1 => 3u16..200]
}

fn arb_dt() -> impl Strategy<Value = Dt> {
    prop_oneof![
        3 => (0u16..6).prop_map(Dt::Abs),
        3 => (-1i8..=1).prop_map(Dt::Ka),
        2 => (-1i8..=1).prop_map(Dt::Hold),
        3 => (-2i8..=1).prop_map(Dt::ToHoldDeadline),
    ]
}

pub fn arb_case(max_len: usize) -> impl Strategy<Value = Case> {
    let ev = prop_oneof![
        6 => arb_dt().prop_map(Ev::Advance),
        3 => Just(Ev::RxKeepalive),
        2 => Just(Ev::RxUpdate),
        1 => Just(Ev::RxRouteRefresh),
        2 => Just(Ev::UpdateSent),
    ];
    (any::<bool>(), arb_hold(), arb_hold(), 0u16..3, 0u16..3, proptest::collection::vec(ev, 0..=max_len))
        .prop_map(|(passive, local_hold, remote_hold, open_delay, ka_delay, script)| Case { passive, local_hold, remote_hold, open_delay, ka_delay, script })
}

pub fn run(r: &Run) {
    r.set_rule(RULE);
    r.assume("the driver is modelled, not executed: Set*Timer(n) replaces the single pending deadline (n=0 due at once), a due hold timer is served before a due keepalive timer and before the next received message — as apply_outputs()/run_select() do; a Set*Timer value >= 1e9 s is treated as 'disarmed'");
    r.assume("the value of the pre-OPEN (OpenSent) timer is implementation-chosen and not checked; scripts that let it expire before the OPEN arrives are not judged");
    r.prop("timed-scripts", r.tier.pick(300_000, 5_000_000), || arb_case(r.tier.pick(24, 60)), check);
}

pub fn replay(_sub: &str, case: &Value) -> Result<CheckResult, String> {
    let c: Case = decode_case(case)?;
    Ok(check(&c))
}
