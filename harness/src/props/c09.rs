//! C09 — routes are propagated only where BGP allows, with correctly rewritten attributes.
//!
//! The full (source kind x receiver role x route-reflector x confederation) matrix,
//! crossed with generated attribute sets, goes through the daemon's export pipeline
//! (process_nlri_change with an empty export map, captured by a sink in the event hook
//! module) and is compared with a reference model written from the property statement.

use crate::cgen::wire::arb_wire_attrs;
use crate::cgen::*;
use crate::common::*;
use crate::event::verif::{NeighborParams, as_loop, export_once};
use proptest::prelude::*;
use rustybgp_packet as packet;
use rustybgp_packet::bgp::{Family, Nexthop};
use rustybgp_table as table;
use serde::{Deserialize, Serialize};
use serde_json::Value;
use std::net::{IpAddr, Ipv4Addr};
use std::sync::Arc;

pub const RULE: &str = "export-matrix: cases = (source kind: eBGP / iBGP / RR client / RS client / confed-eBGP / locally originated / kernel; LLGR-stale source or not; receiver role (5); receiver is the source peer or not; route-reflector cluster id or none; confederation id or none; \
attribute set: every attribute present/absent, AS_PATHs with every segment type incl. confederation segments and full 255-AS segments, unknown optional attributes transitive and not; next hop present / absent). One path, no export policy. \
Oracle: reference model of the statement: (1) suppressed iff receiver == source peer, or iBGP-learned to an iBGP receiver without reflection (no cluster id, or non-client to non-client), or across the route-server boundary; \
(2) to eBGP: confederation segments removed, then exactly one (confederation id | local AS) prepended, LOCAL_PREF / ORIGINATOR_ID / CLUSTER_LIST / AIGP / MED absent, next hop = local address; to iBGP / RR client: LOCAL_PREF present (100 if it was absent), AS_PATH and next hop as stored; \
reflected (cluster id set, iBGP-learned): ORIGINATOR_ID = stored or the source's router id, CLUSTER_LIST = cluster id + stored; to confed-eBGP: member AS prepended in a leading AS_CONFED_SEQUENCE, next hop = local address; to RS client: unchanged; \
LLGR-stale source: LLGR_STALE community present exactly once; unknown transitive attributes carry Partial, unknown non-transitive ones are absent; everything else byte-identical. AS_PATHs are compared after merging adjacent AS_SEQUENCE segments. \
as-loop: is_as_loop(attrs, local AS, confederation id) == the local AS (or the confederation id, when set and different) occurs in any segment. \
non-trivial := not suppressed and the receiver role differs from route-server client; distinct := distinct serialized case";

const LOCAL_AS: u32 = 65000;
const CONFED_ID: u32 = 64512;
const LOCAL_ADDR: Ipv4Addr = Ipv4Addr::new(10, 0, 0, 1);
const CLUSTER: Ipv4Addr = Ipv4Addr::new(9, 9, 9, 9);
const LLGR_STALE: u32 = 0xffff_0006;

#[derive(Clone, Debug, Serialize, Deserialize)]
pub struct Case {
    /// 0 eBGP, 1 iBGP, 2 RR client, 3 RS client, 4 confed eBGP, 5 local, 6 kernel
    pub src: u8,
    pub llgr_stale: bool,
    pub dst: u8,
    pub same_peer: bool,
    pub cluster: bool,
    pub confed: bool,
    pub attrs: AttrSpec,
    pub has_nh: bool,
}

fn role(r: u8) -> table::PeerRole {
    match r % 5 {
        0 => table::PeerRole::Ebgp,
        1 => table::PeerRole::Ibgp,
        2 => table::PeerRole::IbgpRrClient,
        3 => table::PeerRole::RsClient,
        _ => table::PeerRole::ConfedEbgp,
    }
}

fn segs_of(attrs: &[packet::Attribute]) -> Option<Vec<(u8, Vec<u32>)>> {
    let a = attrs.iter().find(|a| a.code() == packet::Attribute::AS_PATH)?;
    let b = a.binary()?;
    let mut out = Vec::new();
    let mut pos = 0;
    while pos + 2 <= b.len() {
        let (t, n) = (b[pos], b[pos + 1] as usize);
        let mut v = Vec::new();
        for i in 0..n {
            let o = pos + 2 + 4 * i;
            if o + 4 > b.len() {
                return None;
            }
            v.push(u32::from_be_bytes([b[o], b[o + 1], b[o + 2], b[o + 3]]));
        }
        out.push((t, v));
        pos += 2 + 4 * n;
    }
    Some(out)
}

/// adjacent segments of the same ordered type merged, empty segments dropped
fn norm(segs: &[(u8, Vec<u32>)]) -> Vec<(u8, Vec<u32>)> {
    let mut out: Vec<(u8, Vec<u32>)> = Vec::new();
    for (t, v) in segs {
        if v.is_empty() {
            continue;
        }
        match out.last_mut() {
            Some((lt, lv)) if *lt == *t && (*t == 2 || *t == 3) => lv.extend(v),
            _ => out.push((*t, v.clone())),
        }
    }
    out
}

type View = Vec<(u8, u8, Option<u32>, Option<Vec<u8>>)>;

fn view(attrs: &[packet::Attribute]) -> View {
    let mut v: View = attrs.iter().filter(|a| a.code() != packet::Attribute::AS_PATH).map(|a| (a.code(), a.flags() & !0x10, a.value(), a.binary().cloned())).collect();
    v.sort();
    v
}

pub fn check(c: &Case) -> CheckResult {
    let src_kind = c.src % 7;
    let peer_a = IpAddr::V4(Ipv4Addr::new(10, 0, 0, 2));
    let peer_b = IpAddr::V4(Ipv4Addr::new(10, 0, 0, 3));
    let source: Arc<table::Source> = match src_kind {
        5 => table::Source::local(),
        6 => table::Source::kernel(),
        k => {
            let r = role(k);
            let asn = match k {
                1 | 2 => LOCAL_AS,
                4 => 64601,
                _ => 65101,
            };
            let s = table::Source::new(peer_a, IpAddr::V4(LOCAL_ADDR), asn, LOCAL_AS, Ipv4Addr::new(2, 2, 2, 2), r);
            if c.llgr_stale {
                s.mark_llgr_stale();
            }
            Arc::new(s)
        }
    };
    let peer_learned = src_kind < 5;
    let llgr = c.llgr_stale && peer_learned;
    let dst = role(c.dst);
    let same_peer = c.same_peer && peer_learned;
    let mut spec = c.attrs.clone();
    if !peer_learned {
        // a route originated here has no received MED / reflection attributes
        spec.med = None;
        spec.originator_id = None;
        spec.cluster_list = vec![];
    }
    let stored = Arc::new(spec.build());
    let nh = if c.has_nh { Some(Nexthop::V4(Ipv4Addr::new(192, 0, 2, 7))) } else { None };
    let net = v4(10, 9, 0, 0, 16);
    let update = table::NlriChange { family: Family::IPV4, net: net.clone(), dest_id: 1, best_changed: true, any_changed: true, replaced_path_id: None, current_paths: Arc::new(vec![table::Path { local_path_id: 1, source: source.clone(), nexthop: nh, attr: stored.clone() }]) };
    let params = NeighborParams {
        remote_addr: if same_peer { peer_a } else { peer_b },
        role: dst,
        local_asn: LOCAL_AS,
        local_addr: IpAddr::V4(LOCAL_ADDR),
        confederation_id: if c.confed { CONFED_ID } else { 0 },
        cluster_id: if c.cluster { Some(CLUSTER) } else { None },
        families: vec![Family::IPV4],
        effective_max: 1,
        export_policy: None,
    };
    let got = catch(|| export_once(&update, &params)).map_err(|p| p.into_failure("process_nlri_change").with("src", src_kind).with("dst", c.dst % 5))?;
    let wit = |f: Failure| f.with("src", src_kind).with("dst", c.dst % 5).with("cluster", c.cluster).with("confed", c.confed);

    // ---- (1) where may it go ---------------------------------------------------
    let ibgp_learned = matches!(src_kind, 1 | 2);
    let dst_ibgp = matches!(dst, table::PeerRole::Ibgp | table::PeerRole::IbgpRrClient);
    let split_horizon = dst_ibgp && ibgp_learned && (!c.cluster || (src_kind == 1 && dst == table::PeerRole::Ibgp));
    let rs_boundary = peer_learned && ((src_kind == 3) != (dst == table::PeerRole::RsClient));
    if !peer_learned && dst == table::PeerRole::RsClient {
        // whether a locally originated route belongs to the route-server side is not stated
        return Ok(CaseInfo::trivial().class("local-to-rs-client (not judged)"));
    }
    let suppressed = same_peer || split_horizon || rs_boundary;
    if suppressed != got.reach.is_empty() {
        let why = if same_peer { "echo" } else if split_horizon { "ibgp-split-horizon" } else if rs_boundary { "rs-boundary" } else { "none" };
        return Err(wit(Failure::new("propagation", format!("a route from source kind {src_kind} to a {dst:?} receiver (same peer {same_peer}, cluster {}, confed {}) is {}; BGP {} ({why})", c.cluster, c.confed, if got.reach.is_empty() { "suppressed" } else { "advertised" }, if suppressed { "forbids it" } else { "allows it" })).with("rule", why).with("advertised", !got.reach.is_empty())));
    }
    if suppressed {
        return Ok(CaseInfo::trivial().class("suppressed"));
    }
    if got.reach.len() != 1 || !got.unreach.is_empty() {
        return Err(wit(Failure::new("propagation", format!("one path in, {} announcements and {} withdrawals out", got.reach.len(), got.unreach.len())).with("rule", "count").with("advertised", true)));
    }
    let (_, _, got_nh, got_attrs) = &got.reach[0];

    // ---- (2) what is sent ---------------------------------------------------------
    let mut want: Vec<packet::Attribute> = stored.as_ref().clone();
    let has = |v: &[packet::Attribute], code: u8| v.iter().any(|a| a.code() == code);
    // reflection
    if c.cluster && ibgp_learned {
        if !has(&want, packet::Attribute::ORIGINATOR_ID) {
            want.push(packet::Attribute::new_with_value(packet::Attribute::ORIGINATOR_ID, u32::from(Ipv4Addr::new(2, 2, 2, 2))).unwrap());
        }
        let mut cl = u32::from(CLUSTER).to_be_bytes().to_vec();
        if let Some(old) = want.iter().find(|a| a.code() == packet::Attribute::CLUSTER_LIST).and_then(|a| a.binary().cloned()) {
            cl.extend(old);
        }
        want.retain(|a| a.code() != packet::Attribute::CLUSTER_LIST);
        want.push(packet::Attribute::new_with_bin(packet::Attribute::CLUSTER_LIST, cl).unwrap());
    }
    if llgr {
        let mut cm = want.iter().find(|a| a.code() == packet::Attribute::COMMUNITY).and_then(|a| a.binary().cloned()).unwrap_or_default();
        if !cm.chunks(4).any(|x| x == LLGR_STALE.to_be_bytes()) {
            cm.extend_from_slice(&LLGR_STALE.to_be_bytes());
        }
        want.retain(|a| a.code() != packet::Attribute::COMMUNITY);
        want.push(packet::Attribute::new_with_bin(packet::Attribute::COMMUNITY, cm).unwrap());
    }
    let stored_segs = segs_of(&stored).unwrap_or_default();
    let mut want_segs = stored_segs.clone();
    let mut want_nh = nh.or(Some(Nexthop::V4(LOCAL_ADDR)));
    match dst {
        table::PeerRole::RsClient => {}
        table::PeerRole::Ibgp | table::PeerRole::IbgpRrClient => {
            if !has(&want, packet::Attribute::LOCAL_PREF) {
                want.push(packet::Attribute::new_with_value(packet::Attribute::LOCAL_PREF, 100).unwrap());
            }
        }
        table::PeerRole::ConfedEbgp => {
            match want_segs.first_mut() {
                Some((3, v)) if v.len() < 255 => v.insert(0, LOCAL_AS),
                _ => want_segs.insert(0, (3, vec![LOCAL_AS])),
            }
            // only a route injected through the API keeps an explicit next hop
            if src_kind != 5 || nh.is_none() {
                want_nh = Some(Nexthop::V4(LOCAL_ADDR));
            }
        }
        table::PeerRole::Ebgp => {
            want.retain(|a| !matches!(a.code(), packet::Attribute::LOCAL_PREF | packet::Attribute::ORIGINATOR_ID | packet::Attribute::CLUSTER_LIST | packet::Attribute::AIGP | packet::Attribute::MULTI_EXIT_DESC));
            want_segs.retain(|(t, _)| *t == 1 || *t == 2);
            want_segs.insert(0, (2, vec![if c.confed { CONFED_ID } else { LOCAL_AS }]));
            if src_kind != 5 || nh.is_none() {
                want_nh = Some(Nexthop::V4(LOCAL_ADDR));
            }
        }
    }
    // unknown attributes
    let mut want2 = Vec::new();
    for a in want {
        if a.is_opaque() {
            if a.flags() & 0x40 != 0 {
                want2.push(a.with_partial_bit());
            }
        } else {
            want2.push(a);
        }
    }
    let got_segs = segs_of(got_attrs);
    if got_segs.as_ref().map(|s| norm(s)) != Some(norm(&want_segs)) {
        return Err(wit(Failure::new("rewrite", format!("AS_PATH sent to the {dst:?} receiver is {:?}; stored {:?}, expected {:?}", got_segs, stored_segs, want_segs)).with("what", "as-path")));
    }
    if *got_nh != want_nh {
        return Err(wit(Failure::new("rewrite", format!("next hop sent to the {dst:?} receiver is {got_nh:?}; stored {nh:?}, expected {want_nh:?}")).with("what", "nexthop")));
    }
    let (gv, wv) = (view(got_attrs), view(&want2));
    if gv != wv {
        let code = gv.iter().map(|x| x.0).chain(wv.iter().map(|x| x.0)).find(|c| gv.iter().filter(|x| x.0 == *c).collect::<Vec<_>>() != wv.iter().filter(|x| x.0 == *c).collect::<Vec<_>>()).unwrap_or(0);
        return Err(wit(Failure::new("rewrite", format!("attribute {code} sent to the {dst:?} receiver: {:?}; expected {:?} (stored {:?})", gv.iter().filter(|x| x.0 == code).collect::<Vec<_>>(), wv.iter().filter(|x| x.0 == code).collect::<Vec<_>>(), view(&stored).iter().filter(|x| x.0 == code).collect::<Vec<_>>())).with("what", format!("attr-{code}"))));
    }
    let mut info = CaseInfo::nt(dst != table::PeerRole::RsClient);
    info.classes.push(match dst {
        table::PeerRole::Ebgp => "to-ebgp",
        table::PeerRole::Ibgp => "to-ibgp",
        table::PeerRole::IbgpRrClient => "to-rr-client",
        table::PeerRole::RsClient => "to-rs-client",
        table::PeerRole::ConfedEbgp => "to-confed",
    });
    if c.cluster && ibgp_learned {
        info.classes.push("reflected");
    }
    if llgr {
        info.classes.push("llgr-stale-source");
    }
    if stored_segs.iter().any(|(t, _)| *t >= 3) {
        info.classes.push("confed-segments-stored");
    }
    Ok(info)
}

#[derive(Clone, Debug, Serialize, Deserialize)]
pub struct LoopCase {
    pub attrs: AttrSpec,
    pub local_asn: u32,
    pub confed: u32,
}

pub fn check_loop(c: &LoopCase) -> CheckResult {
    let attrs = Arc::new(c.attrs.build());
    let got = catch(|| as_loop(&attrs, c.local_asn, c.confed)).map_err(|p| p.into_failure("is_as_loop"))?;
    let all: Vec<u32> = segs_of(&attrs).unwrap_or_default().into_iter().flat_map(|(_, v)| v).collect();
    let want = all.contains(&c.local_asn) || (c.confed != 0 && c.confed != c.local_asn && all.contains(&c.confed));
    if got != want {
        return Err(Failure::new("as-loop", format!("is_as_loop({:?}, local {}, confederation {}) = {got}; the path {} the local AS / confederation id", segs_of(&attrs), c.local_asn, c.confed, if want { "contains" } else { "does not contain" })));
    }
    Ok(CaseInfo::nt(want))
}

pub fn arb_case() -> impl Strategy<Value = Case> {
    (0u8..7, prop::bool::weighted(0.25), 0u8..5, prop::bool::weighted(0.15), any::<bool>(), any::<bool>(), arb_wire_attrs(), prop::bool::weighted(0.8), proptest::option::weighted(0.3, (200u8..250, proptest::collection::vec(any::<u8>(), 0..6)))).prop_map(|(src, llgr_stale, dst, same_peer, cluster, confed, mut attrs, has_nh, nontrans)| {
        if let Some((code, data)) = nontrans
            && !attrs.opaque.iter().any(|(c, _, _)| *c == code)
        {
            attrs.opaque.push((code, 0x80, data));
        }
        Case { src, llgr_stale, dst, same_peer, cluster, confed, attrs, has_nh }
    })
}

pub fn run(r: &Run) {
    r.set_rule(RULE);
    r.assume("the stored path is what the decoder / API produce (attributes in type order, ORIGIN and AS_PATH present); locally originated and kernel routes carry no MED, ORIGINATOR_ID or CLUSTER_LIST; export policy is absent (its actions are C14's subject)");
    r.assume("export-matrix / as-loop are function level; the inbound loop checks of the session (is_as_loop in the read loop, ORIGINATOR_ID / CLUSTER_LIST in rx_update) are reached by inbound-session over a real session");
    r.prop("export-matrix", r.tier.pick(300_000, 6_000_000), arb_case, check);
    r.prop("as-loop", r.tier.pick(20_000, 500_000), || (arb_wire_attrs(), prop_oneof![Just(65000u32), Just(65002u32), Just(70000u32), Just(23456u32)], prop_oneof![Just(0u32), Just(65002u32), Just(65000u32), Just(70001u32)]).prop_map(|(attrs, local_asn, confed)| LoopCase { attrs, local_asn, confed }), check_loop);
    r.assume(INBOUND_RULE);
    r.slow(|| r.prop("inbound-session", r.tier.pick(3_000, 100_000), arb_inbound, check_inbound));
}

pub fn replay(sub: &str, case: &Value) -> Result<CheckResult, String> {
    match sub {
        "as-loop" => Ok(check_loop(&decode_case(case)?)),
        "inbound-session" => Ok(check_inbound(&decode_case(case)?)),
        _ => Ok(check(&decode_case(case)?)),
    }
}

// ---------------------------------------------------------------------------
// inbound side, at session level: UPDATEs sent by a wire-level peer over a real session
// (run_select's is_as_loop filter, rx_msg, rx_update's ORIGINATOR_ID / CLUSTER_LIST checks)
// ---------------------------------------------------------------------------

pub const INBOUND_RULE: &str = "inbound-session: a wire-level peer of every kind (eBGP, route-server client, iBGP, iBGP route-reflector client, confederation member) with or without a confederation and a configured cluster id announces routes (an IPv4 prefix as legacy NLRI, an IPv6 prefix in MP_REACH_NLRI, or the latter in an UPDATE that also carries legacy IPv4 Withdrawn Routes and so splits into several parts) whose AS_PATH (sequence / set / confederation segments where the session allows them) \
may contain the local AS or the confederation id (towards peers outside a confederation only the confederation id, the AS they know the speaker by, counts), whose ORIGINATOR_ID may be the local router-id and whose CLUSTER_LIST may contain the local cluster id. After each UPDATE the route is in the peer's Adj-RIB-In iff it loops in none of these ways (ORIGINATOR_ID / CLUSTER_LIST only count where the session may carry them: not from eBGP / route-server-client peers, whose copies are dropped on receipt; CLUSTER_LIST only on iBGP sessions). \
non-trivial := a looped and a loop-free route in one case";

#[derive(Clone, Debug, Serialize, Deserialize)]
pub struct InRoute {
    pub prefix: u8,
    /// (segment type 1..=4, AS numbers)
    pub path: Vec<(u8, Vec<u32>)>,
    /// 0 = none, 1 = the local router-id, 2 = another identifier
    pub originator: u8,
    /// entries: 0 = the local cluster id, 1 = the local router-id, 2.. = other identifiers
    pub clusters: Vec<u8>,
    /// order of the attributes on the wire: 0 = by type code, otherwise a rotation / reversal with an
    /// extended-communities attribute (type 16) mixed in (a receiver must take any order)
    #[serde(default)]
    pub order: u8,
    /// 0: an IPv4 prefix as legacy NLRI; 1: an IPv6 prefix in MP_REACH_NLRI; 2: the same, the UPDATE also
    /// carrying legacy IPv4 Withdrawn Routes (of a prefix never announced), so that it splits into several parts
    #[serde(default)]
    pub shape: u8,
}

#[derive(Clone, Debug, Serialize, Deserialize)]
pub struct InboundCase {
    /// 0 eBGP, 1 route-server client, 2 iBGP, 3 iBGP route-reflector client, 4 confederation member
    pub peer: u8,
    pub confed: bool,
    pub cluster: bool,
    pub routes: Vec<InRoute>,
}

const IN_LOCAL_AS: u32 = 65000;
const IN_CONFED_ID: u32 = 64512;
const IN_CLUSTER: u32 = 0x0909_0909;
const IN_ROUTER_ID: u32 = 0x0100_0001;

pub fn check_inbound(c: &InboundCase) -> CheckResult {
    let rt = tokio::runtime::Builder::new_current_thread().enable_all().event_interval(1).build().map_err(|e| Failure::new("harness", e.to_string()))?;
    rt.block_on(inbound(c))
}

async fn inbound(c: &InboundCase) -> CheckResult {
    use crate::event::verif::{AdmitRig, NeighborCfg, adj_in};
    use crate::props::wirepeer::{WirePeer, fresh_loopback};
    use packet::bgp::{self, Capability, Message, PeerCodec, Update};
    let kind = c.peer % 5;
    // a confederation member needs a confederation; within one, iBGP peers may carry confederation segments
    let confed = c.confed || kind == 4;
    let peer_as: u32 = match kind {
        0 | 1 => 65100,
        2 | 3 => IN_LOCAL_AS,
        _ => 65010,
    };
    let src = fresh_loopback();
    let rig = std::rc::Rc::new(AdmitRig::new(IN_LOCAL_AS, if confed { Some((IN_CONFED_ID, vec![IN_LOCAL_AS, 65010])) } else { None }).await.map_err(|e| Failure::new("harness", e))?);
    let cfg = NeighborCfg {
        addr: src,
        remote_asn: peer_as,
        local_asn: 0,
        rs_client: kind == 1,
        rr_client: kind == 3,
        cluster_id: if c.cluster { Some(Ipv4Addr::from(IN_CLUSTER)) } else { None },
        admin_down: false,
        holdtime: 90,
        families: vec![(Family::IPV4, 0), (Family::IPV6, 0)],
        prefix_limit: None,
        gr: None,
        llgr: None,
    };
    if !rig.add_neighbor(&cfg).await {
        return Err(Failure::new("harness", format!("add_peer refuses {cfg:?}")));
    }
    let mut p = WirePeer::on(rig.clone(), src);
    p.connect().await?;
    let caps = vec![Capability::MultiProtocol(Family::IPV4), Capability::MultiProtocol(Family::IPV6), Capability::FourOctetAsNumber(peer_as)];
    if !p.establish(peer_as, 0, 0x0a00_0009, caps.clone()).await? {
        return Err(Failure::new("harness", "the session did not establish".to_string()));
    }
    let mut codec = PeerCodec::negotiate(&caps, &caps);
    let external = kind <= 1;
    let ibgp = kind == 2 || kind == 3;
    // the cluster id of an iBGP session: the configured one, else the router-id
    let local_cluster = if c.cluster { IN_CLUSTER } else { IN_ROUTER_ID };
    let mut info = CaseInfo::trivial();
    let (mut saw_loop, mut saw_clean) = (false, false);
    for (i, r) in c.routes.iter().enumerate() {
        // segment types the session may carry: confederation segments only inside a confederation
        let path: Vec<(u8, Vec<u32>)> = r.path.iter().map(|(t, a)| (if (*t == SEG_CONFED_SEQ || *t == SEG_CONFED_SET) && (external || !confed) { SEG_SEQ } else { *t }, a.clone())).filter(|(_, a)| !a.is_empty()).collect();
        let originator = match r.originator % 3 {
            0 => None,
            1 => Some(IN_ROUTER_ID),
            _ => Some(0x0a0a_0a0a),
        };
        let clusters: Vec<u32> = r.clusters.iter().map(|k| match k % 4 {
            0 => local_cluster,
            1 => if c.cluster { IN_ROUTER_ID } else { 0x0b0b_0b0b },
            k => 0x0c0c_0c00 + k as u32,
        }).collect();
        let spec = AttrSpec {
            origin: Some(0),
            as_path: Some(path.iter().map(|(t, a)| Seg { t: *t, n: a.len() as u16, base: 0, asns: a.clone() }).collect()),
            local_pref: if external { None } else { Some(100) },
            originator_id: originator,
            cluster_list: clusters.clone(),
            ..Default::default()
        };
        let shape = r.shape % 3;
        let net = if shape == 0 { v4(10, 80 + r.prefix % 6, i as u8, 0, 24) } else { packet::Nlri::V6(bgp::Ipv6Net { addr: std::net::Ipv6Addr::new(0x2001, 0xdb8, 80 + (r.prefix % 6) as u16, i as u16, 0, 0, 0, 0), mask: 64 }) };
        let mut attrs = spec.build();
        if r.order % 4 != 0 {
            attrs.push(packet::Attribute::new_with_bin(packet::Attribute::EXTENDED_COMMUNITY, vec![0x00, 0x02, 0xfd, 0xe8, 0, 0, 0, 9]).unwrap());
            match r.order % 4 {
                1 => attrs.reverse(),
                2 => attrs.rotate_right(1),
                _ => attrs.rotate_left(2),
            }
            info.classes.push("inbound/attributes-out-of-type-order");
        }
        let msg = if shape == 0 {
            Message::Update(Update::Reach { family: Family::IPV4, entries: vec![bgp::PathNlri { path_id: 0, nlri: net.clone() }], nexthop: Some(Nexthop::V4(Ipv4Addr::new(192, 0, 2, 7))), attr: Arc::new(attrs) })
        } else {
            Message::Update(Update::Reach { family: Family::IPV6, entries: vec![bgp::PathNlri { path_id: 0, nlri: net.clone() }], nexthop: Some(Nexthop::V6("2001:db8::7".parse().unwrap())), attr: Arc::new(attrs) })
        };
        if shape == 2 {
            // splice legacy Withdrawn Routes (10.99.<i>.0/24, never announced) into the encoded UPDATE
            let mut buf = bytes::BytesMut::new();
            let n = codec.encode_to(&msg, &mut buf).map_err(|e| Failure::new("harness", format!("encode: {e:?}")))?;
            if n == 1 && buf.len() > 23 && buf[19] == 0 && buf[20] == 0 {
                let w = [24u8, 10, 99, i as u8];
                let mut out = buf[..19].to_vec();
                out.extend_from_slice(&(w.len() as u16).to_be_bytes());
                out.extend_from_slice(&w);
                out.extend_from_slice(&buf[21..]);
                let len = out.len() as u16;
                out[16..18].copy_from_slice(&len.to_be_bytes());
                p.send(&out, 1, &[]).await?;
                info.classes.push("inbound/withdrawn-routes-and-mp-reach-in-one-update");
            } else {
                p.send(&buf, n.max(1) as u64, &[]).await?;
            }
        } else {
            p.send_msg(&mut codec, &msg).await?;
        }
        if p.is_closed() {
            return Err(Failure::new("harness", format!("the session was reset by route #{i} ({spec:?})")));
        }
        let all: Vec<u32> = path.iter().flat_map(|(_, a)| a.iter().copied()).collect();
        // towards peers outside the confederation the speaker is the confederation id, and a
        // member AS number seen in their paths is somebody else's (RFC 5065): not a loop
        let loop_as = if confed && external { all.contains(&IN_CONFED_ID) } else { all.contains(&IN_LOCAL_AS) || (confed && all.contains(&IN_CONFED_ID)) };
        let loop_orig = !external && originator == Some(IN_ROUTER_ID);
        let loop_cluster = ibgp && clusters.contains(&local_cluster);
        let looped = loop_as || loop_orig || loop_cluster;
        let held = adj_in(&rig.tables, src, &[Family::IPV4, Family::IPV6]).iter().any(|(_, n, _)| *n == format!("{net:?}"));
        if held == looped {
            let why = if loop_as { "as-path" } else if loop_orig { "originator-id" } else if loop_cluster { "cluster-list" } else { "none" };
            return Err(Failure::new("inbound-loop", format!("route #{i} {net} from a {} peer (confederation: {confed}, cluster id configured: {}): AS_PATH {path:?}, ORIGINATOR_ID {originator:?}, CLUSTER_LIST {clusters:x?}; loops by {why}; in the Adj-RIB-In: {held}", ["eBGP", "route-server-client", "iBGP", "iBGP rr-client", "confederation-member"][kind as usize], c.cluster))
                .with("peer", kind)
                .with("why", why)
                .with("held", held));
        }
        saw_loop |= looped;
        saw_clean |= !looped;
        if looped {
            info.classes.push(match (loop_as, loop_orig) {
                (true, _) => "inbound/as-path-loop",
                (_, true) => "inbound/originator-loop",
                _ => "inbound/cluster-loop",
            });
        }
    }
    info.nontrivial = saw_loop && saw_clean;
    Ok(info)
}

pub fn arb_inbound() -> impl Strategy<Value = InboundCase> {
    let asn = prop_oneof![3 => Just(IN_LOCAL_AS), 2 => Just(IN_CONFED_ID), 2 => Just(65010u32), 6 => 65100u32..65110, 1 => Just(4_200_000_000u32)];
    let seg = (prop_oneof![6 => Just(SEG_SEQ), 2 => Just(SEG_SET), 2 => Just(SEG_CONFED_SEQ), 1 => Just(SEG_CONFED_SET)], proptest::collection::vec(asn, 1..4));
    let route = (0u8..6, proptest::collection::vec(seg, 1..4), prop_oneof![4 => Just(0u8), 2 => Just(1u8), 2 => Just(2u8)], proptest::collection::vec(0u8..6, 0..3), prop_oneof![2 => Just(0u8), 3 => 1u8..4], prop_oneof![3 => Just(0u8), 1 => Just(1u8), 2 => Just(2u8)]).prop_map(|(prefix, path, originator, clusters, order, shape)| InRoute { prefix, path, originator, clusters, order, shape });
    (0u8..5, any::<bool>(), any::<bool>(), proptest::collection::vec(route, 1..8)).prop_map(|(peer, confed, cluster, routes)| InboundCase { peer, confed, cluster, routes })
}
