//! C09 — routes are propagated only where BGP allows, with correctly rewritten attributes.
//!
//! The full (source kind x receiver role x route-reflector x confederation) matrix,
//! crossed with generated attribute sets, goes through the daemon's export pipeline
//! (process_nlri_change with an empty export map, captured by a sink in the event hook
//! module) and is compared with a reference model written from the property statement.

use crate::cgen::wire::arb_wire_attrs;
use crate::cgen::*;
use crate::common::*;
use crate::event::verif::{NeighborParams, as_loop, export_once};
use proptest::prelude::*;
use rustybgp_packet as packet;
use rustybgp_packet::bgp::{Family, Nexthop};
use rustybgp_table as table;
use serde::{Deserialize, Serialize};
use serde_json::Value;
use std::net::{IpAddr, Ipv4Addr};
use std::sync::Arc;

pub const RULE: &str = "export-matrix: cases = (source kind: eBGP / iBGP / RR client / RS client / confed-eBGP / locally originated / kernel; LLGR-stale source or not; receiver role (5); receiver is the source peer or not; route-reflector cluster id or none; confederation id or none; \
attribute set: every attribute present/absent, AS_PATHs with every segment type incl. confederation segments and full 255-AS segments, unknown optional attributes transitive and not; next hop present / absent). One path, no export policy. \
Oracle: reference model of the statement: (1) suppressed iff receiver == source peer, or iBGP-learned to an iBGP receiver without reflection (no cluster id, or non-client to non-client), or across the route-server boundary; \
(2) to eBGP: confederation segments removed, then exactly one (confederation id | local AS) prepended, LOCAL_PREF / ORIGINATOR_ID / CLUSTER_LIST / AIGP / MED absent, next hop = local address; to iBGP / RR client: LOCAL_PREF present (100 if it was absent), AS_PATH and next hop as stored; \
reflected (cluster id set, iBGP-learned): ORIGINATOR_ID = stored or the source's router id, CLUSTER_LIST = cluster id + stored; to confed-eBGP: member AS prepended in a leading AS_CONFED_SEQUENCE, next hop = local address; to RS client: unchanged; \
LLGR-stale source: LLGR_STALE community present exactly once; unknown transitive attributes carry Partial, unknown non-transitive ones are absent; everything else byte-identical. AS_PATHs are compared after merging adjacent AS_SEQUENCE segments. \
as-loop: is_as_loop(attrs, local AS, confederation id) == the local AS (or the confederation id, when set and different) occurs in any segment. \
non-trivial := not suppressed and the receiver role differs from route-server client; distinct := distinct serialized case";

const LOCAL_AS: u32 = 65000;
const CONFED_ID: u32 = 64512;
const LOCAL_ADDR: Ipv4Addr = Ipv4Addr::new(10, 0, 0, 1);
const CLUSTER: Ipv4Addr = Ipv4Addr::new(9, 9, 9, 9);
const LLGR_STALE: u32 = 0xffff_0006;

#[derive(Clone, Debug, Serialize, Deserialize)]
pub struct Case {
    /// 0 eBGP, 1 iBGP, 2 RR client, 3 RS client, 4 confed eBGP, 5 local, 6 kernel
    pub src: u8,
    pub llgr_stale: bool,
    pub dst: u8,
    pub same_peer: bool,
    pub cluster: bool,
    pub confed: bool,
    pub attrs: AttrSpec,
    pub has_nh: bool,
}

fn role(r: u8) -> table::PeerRole {
    match r % 5 {
        0 => table::PeerRole::Ebgp,
        1 => table::PeerRole::Ibgp,
        2 => table::PeerRole::IbgpRrClient,
        3 => table::PeerRole::RsClient,
        _ => table::PeerRole::ConfedEbgp,
    }
}

fn segs_of(attrs: &[packet::Attribute]) -> Option<Vec<(u8, Vec<u32>)>> {
    let a = attrs.iter().find(|a| a.code() == packet::Attribute::AS_PATH)?;
    let b = a.binary()?;
    let mut out = Vec::new();
    let mut pos = 0;
    while pos + 2 <= b.len() {
        let (t, n) = (b[pos], b[pos + 1] as usize);
        let mut v = Vec::new();
        for i in 0..n {
            let o = pos + 2 + 4 * i;
            if o + 4 > b.len() {
                return None;
            }
            v.push(u32::from_be_bytes([b[o], b[o + 1], b[o + 2], b[o + 3]]));
        }
        out.push((t, v));
        pos += 2 + 4 * n;
    }
    Some(out)
}

/// adjacent segments of the same ordered type merged, empty segments dropped
fn norm(segs: &[(u8, Vec<u32>)]) -> Vec<(u8, Vec<u32>)> {
    let mut out: Vec<(u8, Vec<u32>)> = Vec::new();
    for (t, v) in segs {
        if v.is_empty() {
            continue;
        }
        match out.last_mut() {
            Some((lt, lv)) if *lt == *t && (*t == 2 || *t == 3) => lv.extend(v),
            _ => out.push((*t, v.clone())),
        }
    }
    out
}

type View = Vec<(u8, u8, Option<u32>, Option<Vec<u8>>)>;

fn view(attrs: &[packet::Attribute]) -> View {
    let mut v: View = attrs.iter().filter(|a| a.code() != packet::Attribute::AS_PATH).map(|a| (a.code(), a.flags() & !0x10, a.value(), a.binary().cloned())).collect();
    v.sort();
    v
}

pub fn check(c: &Case) -> CheckResult {
    let src_kind = c.src % 7;
    let peer_a = IpAddr::V4(Ipv4Addr::new(10, 0, 0, 2));
    let peer_b = IpAddr::V4(Ipv4Addr::new(10, 0, 0, 3));
    let source: Arc<table::Source> = match src_kind {
        5 => table::Source::local(),
        6 => table::Source::kernel(),
        k => {
            let r = role(k);
            let asn = match k {
                1 | 2 => LOCAL_AS,
                4 => 64601,
                _ => 65101,
            };
            let s = table::Source::new(peer_a, IpAddr::V4(LOCAL_ADDR), asn, LOCAL_AS, Ipv4Addr::new(2, 2, 2, 2), r);
            if c.llgr_stale {
                s.mark_llgr_stale();
            }
            Arc::new(s)
        }
    };
    let peer_learned = src_kind < 5;
    let llgr = c.llgr_stale && peer_learned;
    let dst = role(c.dst);
    let same_peer = c.same_peer && peer_learned;
    let mut spec = c.attrs.clone();
    if !peer_learned {
        // a route originated here has no received MED / reflection attributes
        spec.med = None;
        spec.originator_id = None;
        spec.cluster_list = vec![];
    }
    let stored = Arc::new(spec.build());
    let nh = if c.has_nh { Some(Nexthop::V4(Ipv4Addr::new(192, 0, 2, 7))) } else { None };
    let net = v4(10, 9, 0, 0, 16);
    let update = table::NlriChange { family: Family::IPV4, net: net.clone(), dest_id: 1, best_changed: true, any_changed: true, replaced_path_id: None, current_paths: Arc::new(vec![table::Path { local_path_id: 1, source: source.clone(), nexthop: nh, attr: stored.clone() }]) };
    let params = NeighborParams {
        remote_addr: if same_peer { peer_a } else { peer_b },
        role: dst,
        local_asn: LOCAL_AS,
        local_addr: IpAddr::V4(LOCAL_ADDR),
        confederation_id: if c.confed { CONFED_ID } else { 0 },
        cluster_id: if c.cluster { Some(CLUSTER) } else { None },
        families: vec![Family::IPV4],
        effective_max: 1,
        export_policy: None,
    };
    let got = catch(|| export_once(&update, &params)).map_err(|p| p.into_failure("process_nlri_change").with("src", src_kind).with("dst", c.dst % 5))?;
    let wit = |f: Failure| f.with("src", src_kind).with("dst", c.dst % 5).with("cluster", c.cluster).with("confed", c.confed);

    // ---- (1) where may it go ---------------------------------------------------
    let ibgp_learned = matches!(src_kind, 1 | 2);
    let dst_ibgp = matches!(dst, table::PeerRole::Ibgp | table::PeerRole::IbgpRrClient);
    let split_horizon = dst_ibgp && ibgp_learned && (!c.cluster || (src_kind == 1 && dst == table::PeerRole::Ibgp));
    let rs_boundary = peer_learned && ((src_kind == 3) != (dst == table::PeerRole::RsClient));
    if !peer_learned && dst == table::PeerRole::RsClient {
        // whether a locally originated route belongs to the route-server side is not stated
        return Ok(CaseInfo::trivial().class("local-to-rs-client (not judged)"));
    }
    let suppressed = same_peer || split_horizon || rs_boundary;
    if suppressed != got.reach.is_empty() {
        let why = if same_peer { "echo" } else if split_horizon { "ibgp-split-horizon" } else if rs_boundary { "rs-boundary" } else { "none" };
        return Err(wit(Failure::new("propagation", format!("a route from source kind {src_kind} to a {dst:?} receiver (same peer {same_peer}, cluster {}, confed {}) is {}; BGP {} ({why})", c.cluster, c.confed, if got.reach.is_empty() { "suppressed" } else { "advertised" }, if suppressed { "forbids it" } else { "allows it" })).with("rule", why).with("advertised", !got.reach.is_empty())));
    }
    if suppressed {
        return Ok(CaseInfo::trivial().class("suppressed"));
    }
    if got.reach.len() != 1 || !got.unreach.is_empty() {
        return Err(wit(Failure::new("propagation", format!("one path in, {} announcements and {} withdrawals out", got.reach.len(), got.unreach.len())).with("rule", "count").with("advertised", true)));
    }
    let (_, _, got_nh, got_attrs) = &got.reach[0];

    // ---- (2) what is sent ---------------------------------------------------------
    let mut want: Vec<packet::Attribute> = stored.as_ref().clone();
    let has = |v: &[packet::Attribute], code: u8| v.iter().any(|a| a.code() == code);
    // reflection
    if c.cluster && ibgp_learned {
        if !has(&want, packet::Attribute::ORIGINATOR_ID) {
            want.push(packet::Attribute::new_with_value(packet::Attribute::ORIGINATOR_ID, u32::from(Ipv4Addr::new(2, 2, 2, 2))).unwrap());
        }
        let mut cl = u32::from(CLUSTER).to_be_bytes().to_vec();
        if let Some(old) = want.iter().find(|a| a.code() == packet::Attribute::CLUSTER_LIST).and_then(|a| a.binary().cloned()) {
            cl.extend(old);
        }
        want.retain(|a| a.code() != packet::Attribute::CLUSTER_LIST);
        want.push(packet::Attribute::new_with_bin(packet::Attribute::CLUSTER_LIST, cl).unwrap());
    }
    if llgr {
        let mut cm = want.iter().find(|a| a.code() == packet::Attribute::COMMUNITY).and_then(|a| a.binary().cloned()).unwrap_or_default();
        if !cm.chunks(4).any(|x| x == LLGR_STALE.to_be_bytes()) {
            cm.extend_from_slice(&LLGR_STALE.to_be_bytes());
        }
        want.retain(|a| a.code() != packet::Attribute::COMMUNITY);
        want.push(packet::Attribute::new_with_bin(packet::Attribute::COMMUNITY, cm).unwrap());
    }
    let stored_segs = segs_of(&stored).unwrap_or_default();
    let mut want_segs = stored_segs.clone();
    let mut want_nh = nh.or(Some(Nexthop::V4(LOCAL_ADDR)));
    match dst {
        table::PeerRole::RsClient => {}
        table::PeerRole::Ibgp | table::PeerRole::IbgpRrClient => {
            if !has(&want, packet::Attribute::LOCAL_PREF) {
                want.push(packet::Attribute::new_with_value(packet::Attribute::LOCAL_PREF, 100).unwrap());
            }
        }
        table::PeerRole::ConfedEbgp => {
            match want_segs.first_mut() {
                Some((3, v)) if v.len() < 255 => v.insert(0, LOCAL_AS),
                _ => want_segs.insert(0, (3, vec![LOCAL_AS])),
            }
            // only a route injected through the API keeps an explicit next hop
            if src_kind != 5 || nh.is_none() {
                want_nh = Some(Nexthop::V4(LOCAL_ADDR));
            }
        }
        table::PeerRole::Ebgp => {
            want.retain(|a| !matches!(a.code(), packet::Attribute::LOCAL_PREF | packet::Attribute::ORIGINATOR_ID | packet::Attribute::CLUSTER_LIST | packet::Attribute::AIGP | packet::Attribute::MULTI_EXIT_DESC));
            want_segs.retain(|(t, _)| *t == 1 || *t == 2);
            want_segs.insert(0, (2, vec![if c.confed { CONFED_ID } else { LOCAL_AS }]));
            if src_kind != 5 || nh.is_none() {
                want_nh = Some(Nexthop::V4(LOCAL_ADDR));
            }
        }
    }
    // unknown attributes
    let mut want2 = Vec::new();
    for a in want {
        if a.is_opaque() {
            if a.flags() & 0x40 != 0 {
                want2.push(a.with_partial_bit());
            }
        } else {
            want2.push(a);
        }
    }
    let got_segs = segs_of(got_attrs);
    if got_segs.as_ref().map(|s| norm(s)) != Some(norm(&want_segs)) {
        return Err(wit(Failure::new("rewrite", format!("AS_PATH sent to the {dst:?} receiver is {:?}; stored {:?}, expected {:?}", got_segs, stored_segs, want_segs)).with("what", "as-path")));
    }
    if *got_nh != want_nh {
        return Err(wit(Failure::new("rewrite", format!("next hop sent to the {dst:?} receiver is {got_nh:?}; stored {nh:?}, expected {want_nh:?}")).with("what", "nexthop")));
    }
    let (gv, wv) = (view(got_attrs), view(&want2));
    if gv != wv {
        let code = gv.iter().map(|x| x.0).chain(wv.iter().map(|x| x.0)).find(|c| gv.iter().filter(|x| x.0 == *c).collect::<Vec<_>>() != wv.iter().filter(|x| x.0 == *c).collect::<Vec<_>>()).unwrap_or(0);
        return Err(wit(Failure::new("rewrite", format!("attribute {code} sent to the {dst:?} receiver: {:?}; expected {:?} (stored {:?})", gv.iter().filter(|x| x.0 == code).collect::<Vec<_>>(), wv.iter().filter(|x| x.0 == code).collect::<Vec<_>>(), view(&stored).iter().filter(|x| x.0 == code).collect::<Vec<_>>())).with("what", format!("attr-{code}"))));
    }
    let mut info = CaseInfo::nt(dst != table::PeerRole::RsClient);
    info.classes.push(match dst {
        table::PeerRole::Ebgp => "to-ebgp",
        table::PeerRole::Ibgp => "to-ibgp",
        table::PeerRole::IbgpRrClient => "to-rr-client",
        table::PeerRole::RsClient => "to-rs-client",
        table::PeerRole::ConfedEbgp => "to-confed",
    });
    if c.cluster && ibgp_learned {
        info.classes.push("reflected");
    }
    if llgr {
        info.classes.push("llgr-stale-source");
    }
    if stored_segs.iter().any(|(t, _)| *t >= 3) {
        info.classes.push("confed-segments-stored");
    }
    Ok(info)
}

#[derive(Clone, Debug, Serialize, Deserialize)]
pub struct LoopCase {
    pub attrs: AttrSpec,
    pub local_asn: u32,
    pub confed: u32,
}

pub fn check_loop(c: &LoopCase) -> CheckResult {
    let attrs = Arc::new(c.attrs.build());
    let got = catch(|| as_loop(&attrs, c.local_asn, c.confed)).map_err(|p| p.into_failure("is_as_loop"))?;
    let all: Vec<u32> = segs_of(&attrs).unwrap_or_default().into_iter().flat_map(|(_, v)| v).collect();
    let want = all.contains(&c.local_asn) || (c.confed != 0 && c.confed != c.local_asn && all.contains(&c.confed));
    if got != want {
        return Err(Failure::new("as-loop", format!("is_as_loop({:?}, local {}, confederation {}) = {got}; the path {} the local AS / confederation id", segs_of(&attrs), c.local_asn, c.confed, if want { "contains" } else { "does not contain" })));
    }
    Ok(CaseInfo::nt(want))
}

pub fn arb_case() -> impl Strategy<Value = Case> {
    (0u8..7, prop::bool::weighted(0.25), 0u8..5, prop::bool::weighted(0.15), any::<bool>(), any::<bool>(), arb_wire_attrs(), prop::bool::weighted(0.8), proptest::option::weighted(0.3, (200u8..250, proptest::collection::vec(any::<u8>(), 0..6)))).prop_map(|(src, llgr_stale, dst, same_peer, cluster, confed, mut attrs, has_nh, nontrans)| {
        if let Some((code, data)) = nontrans
            && !attrs.opaque.iter().any(|(c, _, _)| *c == code)
        {
            attrs.opaque.push((code, 0x80, data));
        }
        Case { src, llgr_stale, dst, same_peer, cluster, confed, attrs, has_nh }
    })
}

pub fn run(r: &Run) {
    r.set_rule(RULE);
    r.assume("the stored path is what the decoder / API produce (attributes in type order, ORIGIN and AS_PATH present); locally originated and kernel routes carry no MED, ORIGINATOR_ID or CLUSTER_LIST; export policy is absent (its actions are C14's subject)");
    r.assume("inbound ORIGINATOR_ID / CLUSTER_LIST loop checks live in PeerSession::rx_update and are not reached here; is_as_loop is checked on its own");
    r.prop("export-matrix", r.tier.pick(300_000, 6_000_000), arb_case, check);
    r.prop("as-loop", r.tier.pick(20_000, 500_000), || (arb_wire_attrs(), prop_oneof![Just(65000u32), Just(65002u32), Just(70000u32), Just(23456u32)], prop_oneof![Just(0u32), Just(65002u32), Just(65000u32), Just(70001u32)]).prop_map(|(attrs, local_asn, confed)| LoopCase { attrs, local_asn, confed }), check_loop);
}

pub fn replay(sub: &str, case: &Value) -> Result<CheckResult, String> {
    match sub {
        "as-loop" => Ok(check_loop(&decode_case(case)?)),
        _ => Ok(check(&decode_case(case)?)),
    }
}
