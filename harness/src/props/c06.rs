//! C06 — the RIB's change stream reproduces the RIB (see tablehist.rs).
use crate::common::*;
use crate::props::tablehist::{self, Case, Mode};
use serde_json::Value;

pub const RULE: &str = "cases: histories (insert incl. filtered / replacement / extra add-path paths, remove, session down with GR-restale or drop per family, reconnect with a fresh source object, \
restart-timer expiry with LLGR-restale + NO_LLGR purge or stale purge, stale / LLGR-stale purges, next-hop validity flips, families starting in deferral + end of deferral) over 3 peers x 2 families x a few prefixes x path-ids {0,1,2}. \
Every NlriChange returned by the real Table is fed to three consumers gated like process_nlri_change: one applying best_changed notifications, one applying any_changed notifications, and an Add-Path neighbour that refreshes a path it already holds (same local path id) only when replaced_path_id names it (compared by attribute value, next hop and source session); after every step all are compared with the Loc-RIB snapshot, \
the snapshot with a recount of the eligible paths in the RIB, and destination ids are checked for uniqueness, stability and shard tag. \
non-trivial := a prefix is compared after a notification for it was skipped by one of the consumers, or the history contains a session-down / restart-timer / end-of-deferral / limit rejection; distinct := distinct serialized case";

pub fn check(c: &Case) -> CheckResult {
    tablehist::check(c, Mode::C06)
}

// ---------------------------------------------------------------------------
// the change stream as a registered session receives it from the daemon's TableManager
// (TableShard::distribute_update decides who is sent what)
// ---------------------------------------------------------------------------

pub const TM_RULE: &str = "tm-stream: TableManager histories (3 peers, IPv4 / IPv6 prefixes, 2 path ids, inserts, removes, peer loss, stale marking and purge, import-policy soft resets, next-hop reports) with a consumer registered the way a session registers (no Add-Path receive families: a send-only Add-Path neighbour). The consumer applies every notification flagged any_changed (its ranked path list replaces what it held for the prefix); after every step what it holds equals the RIB's exportable paths (collect_loc_rib_paths) prefix by prefix, and a consumer that applies only best_changed notifications holds the RIB's best path. non-trivial := a step changes a prefix's path list without changing its best path";

#[derive(Clone, Debug, serde::Serialize, serde::Deserialize)]
pub struct TmCase {
    pub ops: Vec<crate::props::tmrig::TmOp>,
}

pub fn check_tm(c: &TmCase) -> CheckResult {
    use crate::event::ToPeerEvent;
    use crate::props::tmrig::Rig;
    use rustybgp_packet::Family;
    use std::collections::BTreeMap;
    use std::net::IpAddr;
    type PathKey = (IpAddr, u32, Option<IpAddr>, Vec<u8>);
    let key = |p: &rustybgp_table::Path| -> PathKey { (p.source.remote_addr, p.local_path_id, p.nexthop.map(|n| n.addr()), p.attr.iter().flat_map(|a| a.encode_to_bytes()).collect()) };
    let rig = Rig::new(false);
    let mut rx = rig.tm.register_peer("10.0.9.9".parse().unwrap(), Default::default(), |_| {});
    let mut all: BTreeMap<String, Vec<PathKey>> = BTreeMap::new();
    let mut best: BTreeMap<String, Option<PathKey>> = BTreeMap::new();
    let mut info = CaseInfo::trivial();
    for (i, op) in c.ops.iter().enumerate() {
        rig.apply(op);
        while let Ok(ev) = rx.try_recv() {
            if let ToPeerEvent::NlriChange(ch) = ev {
                let k = format!("{:?}|{:?}", ch.family, ch.net);
                if ch.any_changed {
                    all.insert(k.clone(), ch.current_paths.iter().map(key).collect());
                    if !ch.best_changed {
                        info.nontrivial = true;
                        info.classes.push("path-list-changes-best-does-not");
                    }
                }
                if ch.best_changed {
                    best.insert(k, ch.current_paths.first().map(key));
                }
            }
        }
        for family in [Family::IPV4, Family::IPV6] {
            let truth: BTreeMap<String, Vec<PathKey>> = rig.tm.collect_loc_rib_paths(family).iter().map(|ch| (format!("{:?}|{:?}", ch.family, ch.net), ch.current_paths.iter().map(key).collect())).collect();
            let fam = format!("{family:?}|");
            let keys: std::collections::BTreeSet<&String> = truth.keys().chain(all.keys().filter(|k| k.starts_with(&fam))).chain(best.keys().filter(|k| k.starts_with(&fam))).collect();
            for k in keys {
                let t = truth.get(k).cloned().unwrap_or_default();
                let mut have = all.get(k).cloned().unwrap_or_default();
                let mut want = t.clone();
                have.sort();
                want.sort();
                if have != want {
                    return Err(Failure::new("fold-addpath", format!("step #{i} ({op:?}): a registered session that applies every any_changed notification holds {} paths for {k}, the RIB has {} exportable paths (or different ones)", have.len(), want.len())).with("op", "tm"));
                }
                let b = best.get(k).cloned().flatten();
                if b != t.first().cloned() {
                    return Err(Failure::new("fold-best", format!("step #{i} ({op:?}): a registered session that applies only best_changed notifications holds {:?} as best of {k}, the RIB's best is {:?}", b.as_ref().map(|x| (x.0, x.1)), t.first().map(|x| (x.0, x.1)))).with("op", "tm"));
                }
            }
        }
    }
    Ok(info)
}

pub fn arb_tm_case() -> impl proptest::strategy::Strategy<Value = TmCase> {
    use crate::props::tmrig::TmOp;
    use proptest::prelude::*;
    let op = prop_oneof![
        12 => (0u8..3, 0u8..10, 0u8..2, 0u8..6, 0u8..3).prop_map(|(peer, prefix, path_id, attrs, nh)| TmOp::Insert { peer, prefix, path_id, attrs, nh }),
        5 => (0u8..3, 0u8..10, 0u8..2).prop_map(|(peer, prefix, path_id)| TmOp::Remove { peer, prefix, path_id }),
        1 => (0u8..3).prop_map(|peer| TmOp::DropPeer { peer }),
        1 => (0u8..3).prop_map(|peer| TmOp::MarkStale { peer }),
        1 => (0u8..3).prop_map(|peer| TmOp::DropStale { peer }),
        2 => (0u8..3).prop_map(|peer| TmOp::MarkLlgrStale { peer }),
        1 => (0u8..3).prop_map(|peer| TmOp::DropLlgrStale { peer }),
        // routes carrying NO_LLGR
        3 => (0u8..3, 0u8..10, 0u8..2, 50u8..56, 0u8..3).prop_map(|(peer, prefix, path_id, attrs, nh)| TmOp::Insert { peer, prefix, path_id, attrs, nh }),
        2 => (0u8..3, 0u8..3).prop_map(|(peer, policy)| TmOp::SoftResetIn { peer, policy }),
        3 => (0u8..3, any::<bool>()).prop_map(|(nh, reachable)| TmOp::NhReach { nh, reachable }),
    ];
    // few prefixes so that paths meet
    (0u8..8, proptest::collection::vec(op, 1..24)).prop_map(|(base, mut ops)| {
        for o in ops.iter_mut() {
            if let TmOp::Insert { prefix, .. } | TmOp::Remove { prefix, .. } = o {
                *prefix = base + (*prefix % 3);
            }
        }
        TmCase { ops }
    })
}

pub fn run(r: &Run) {
    r.set_rule(RULE);
    r.assume("deferral of a family starts only on an empty table (restarting speaker at start-up), as start_deferral_families is used");
    r.assume("operations are composed as TableShard composes them (disconnected / mark_stale / drop_stale / mark_llgr_stale / drop_llgr_stale / end_deferral)");
    r.assume("add-path consumer is compared as a set of paths (order among equally ranked paths is not fixed by the statement)");
    r.prop("histories", r.tier.pick(60_000, 2_000_000), || tablehist::arb_case(r.tier.pick(40, 120), false), check);
    r.prop("histories-with-limits", r.tier.pick(20_000, 500_000), || tablehist::arb_case(r.tier.pick(40, 120), true), check);
    r.assume(TM_RULE);
    r.prop("tm-stream", r.tier.pick(60_000, 1_500_000), arb_tm_case, check_tm);
}

pub fn replay(sub: &str, case: &Value) -> Result<CheckResult, String> {
    if sub == "tm-stream" {
        return Ok(check_tm(&decode_case(case)?));
    }
    let c: Case = decode_case(case)?;
    Ok(check(&c))
}
