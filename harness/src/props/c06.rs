//! C06 — the RIB's change stream reproduces the RIB (see tablehist.rs).
use crate::common::*;
use crate::props::tablehist::{self, Case, Mode};
use serde_json::Value;

pub const RULE: &str = "cases: histories (insert incl. filtered / replacement / extra add-path paths, remove, session down with GR-restale or drop per family, reconnect with a fresh source object, \
restart-timer expiry with LLGR-restale + NO_LLGR purge or stale purge, stale / LLGR-stale purges, next-hop validity flips, families starting in deferral + end of deferral) over 3 peers x 2 families x a few prefixes x path-ids {0,1,2}. \
Every NlriChange returned by the real Table is fed to three consumers gated like process_nlri_change: one applying best_changed notifications, one applying any_changed notifications, and an Add-Path neighbour that refreshes a path it already holds (same local path id) only when replaced_path_id names it (compared by attribute value, next hop and source session); after every step all are compared with the Loc-RIB snapshot, \
the snapshot with a recount of the eligible paths in the RIB, and destination ids are checked for uniqueness, stability and shard tag. \
non-trivial := a prefix is compared after a notification for it was skipped by one of the consumers, or the history contains a session-down / restart-timer / end-of-deferral / limit rejection; distinct := distinct serialized case";

pub fn check(c: &Case) -> CheckResult {
    tablehist::check(c, Mode::C06)
}

pub fn run(r: &Run) {
    r.set_rule(RULE);
    r.assume("deferral of a family starts only on an empty table (restarting speaker at start-up), as start_deferral_families is used");
    r.assume("operations are composed as TableShard composes them (disconnected / mark_stale / drop_stale / mark_llgr_stale / drop_llgr_stale / end_deferral)");
    r.assume("add-path consumer is compared as a set of paths (order among equally ranked paths is not fixed by the statement)");
    r.prop("histories", r.tier.pick(60_000, 2_000_000), || tablehist::arb_case(r.tier.pick(40, 120), false), check);
    r.prop("histories-with-limits", r.tier.pick(20_000, 500_000), || tablehist::arb_case(r.tier.pick(40, 120), true), check);
}

pub fn replay(_sub: &str, case: &Value) -> Result<CheckResult, String> {
    let c: Case = decode_case(case)?;
    Ok(check(&c))
}
