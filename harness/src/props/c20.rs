//! C20 — kernel FIB requests and next-hop tracking stay in step with the RIB.
//!
//! Histories over a real 3-shard TableManager whose KernelHandle is observed at the
//! channel (kernel::verif hook). After every step the requests issued so far are
//! replayed into a model FIB / registration counter and compared with the RIB.

use super::tmrig::*;
use crate::common::*;
use crate::table_manager::verif as tmv;
use proptest::prelude::*;
use rustybgp_kernel::verif::VerifRequest;
use rustybgp_packet::bgp::{Family, Nexthop};
use serde::{Deserialize, Serialize};
use serde_json::Value;
use std::collections::BTreeMap;
use std::net::IpAddr;

pub const RULE: &str = "fib-histories: cases = 1..20 steps over a 3-shard TableManager with an observed KernelHandle, 3 eBGP peers, 10 prefixes (IPv4 and IPv6), 2 path ids, 6 attribute variants (ties and non-ties before the router-id step), 4 shared next hops: \
insert_route (new / replace with another next hop / replace with other attributes), remove_route, peer loss, graceful-restart stale marking and stale purge, soft_reset_in after an import-policy change (filtering and un-filtering paths), next-hop reachability reports, \
and reachability reports scheduled inside an insert (between its read of the unreachable set and its shard lock). \
Oracle after every step: (1) replaying all FIB requests so far gives, per prefix, exactly the next-hop set of the RIB's current best path and the paths tied with it before the router-id step (none if there is no eligible path); \
(2) registrations minus unregistrations per address == number of peer-learned paths in the RIB whose next hop is that address, never negative; (3) no selected path has a next hop currently reported unreachable. \
non-trivial := at least one FIB request with >= 2 next hops, or a reachability report that changed a best path, or a replace that moved a path to another next hop; distinct := distinct serialized case";

#[derive(Clone, Debug, Serialize, Deserialize)]
pub struct Case {
    pub steps: Vec<Step>,
}

#[derive(Default)]
struct Model {
    fib: BTreeMap<String, Vec<String>>,
    refs: BTreeMap<IpAddr, i64>,
    min_ref: i64,
    multi: bool,
    requests: u64,
}

impl Model {
    fn absorb(&mut self, reqs: Vec<VerifRequest>) {
        for r in reqs {
            self.requests += 1;
            match r {
                VerifRequest::Apply(c) => {
                    let k = format!("{:?}|{:?}", c.table_id, c.net);
                    if c.nexthops.is_empty() {
                        self.fib.remove(&k);
                    } else {
                        let mut v: Vec<String> = c.nexthops.iter().map(|n| format!("{:?}", n.addr())).collect();
                        v.sort();
                        v.dedup();
                        self.multi |= v.len() >= 2;
                        self.fib.insert(k, v);
                    }
                }
                VerifRequest::RegisterNexthop(a) => *self.refs.entry(a).or_default() += 1,
                VerifRequest::UnregisterNexthop(a) => {
                    let e = self.refs.entry(a).or_default();
                    *e -= 1;
                    self.min_ref = self.min_ref.min(*e);
                }
                _ => {}
            }
        }
    }
}

fn op_kind(op: &TmOp) -> &'static str {
    match op {
        TmOp::Insert { .. } => "insert",
        TmOp::Remove { .. } => "remove",
        TmOp::DropPeer { .. } => "peer-drop",
        TmOp::MarkStale { .. } => "mark-stale",
        TmOp::DropStale { .. } => "drop-stale",
        TmOp::SoftResetIn { .. } => "soft-reset-in",
        TmOp::NhReach { .. } => "nexthop-report",
        TmOp::Subscribe => "subscribe",
        TmOp::Unsubscribe(_) => "unsubscribe",
    }
}

pub fn check(c: &Case) -> CheckResult {
    let rig = Rig::new(true);
    let mut m = Model::default();
    let mut info = CaseInfo::trivial();
    let mut kinds: Vec<&'static str> = Vec::new();
    for (i, st) in c.steps.iter().enumerate() {
        let fired = rig.step(st);
        if !kinds.contains(&op_kind(&st.op)) {
            kinds.push(op_kind(&st.op));
        }
        if fired {
            info.classes.push("report-inside-insert");
        }
        let reqs = rig.kernel_rx.borrow_mut().as_mut().unwrap().drain();
        m.absorb(reqs);
        let wit = |f: Failure| f.with("after", op_kind(&st.op)).with("nested", fired).with("history", kinds.clone());

        // ---- expected FIB from the RIB's current ranking ------------------------
        let invalid = tmv::nexthop_invalid(&rig.tm);
        let mut want: BTreeMap<String, Vec<String>> = BTreeMap::new();
        for family in [Family::IPV4, Family::IPV6] {
            for ch in rig.tm.collect_loc_rib_paths(family) {
                let Some(best) = ch.new_best() else { continue };
                if let Some(nh) = best.nexthop
                    && invalid.contains(&nh.addr())
                {
                    return Err(wit(Failure::new("unreachable-selected", format!("step #{i}: the best path of {:?} has next hop {:?}, which is currently reported unreachable ({invalid:?})", ch.net, nh.addr()))));
                }
                let mut v: Vec<String> = ch.ecmp_paths().into_iter().filter_map(|p| p.nexthop).map(|n| format!("{:?}", n.addr())).collect();
                v.sort();
                v.dedup();
                if !v.is_empty() {
                    want.insert(format!("None|{:?}", ch.net), v);
                }
            }
        }
        if want != m.fib {
            let k = want.keys().chain(m.fib.keys()).find(|k| want.get(*k) != m.fib.get(*k)).cloned().unwrap_or_default();
            let only_set = want.get(&k).is_some() && m.fib.get(&k).is_some();
            return Err(wit(Failure::new("fib-differs", format!("step #{i} ({:?}): replaying the FIB requests gives {k} -> {:?}, the RIB's best path and its ties give {:?}", st.op, m.fib.get(&k), want.get(&k))).with("what", if only_set { "next-hop-set" } else if want.get(&k).is_some() { "missing-in-fib" } else { "left-in-fib" })));
        }
        // ---- registrations --------------------------------------------------------
        let (pre, _) = tmv::rib_views(&rig.tm);
        let mut uses: BTreeMap<IpAddr, i64> = BTreeMap::new();
        for (_, (nh, _)) in pre.iter() {
            if let Some(nh) = nh {
                *uses.entry(nh.addr()).or_default() += 1;
            }
        }
        if m.min_ref < 0 {
            return Err(wit(Failure::new("nht-refcount", format!("step #{i}: more unregistrations than registrations for an address (balance {})", m.min_ref)).with("what", "negative")));
        }
        let have: BTreeMap<IpAddr, i64> = m.refs.iter().filter(|(_, v)| **v != 0).map(|(k, v)| (*k, *v)).collect();
        if have != uses {
            let a = have.keys().chain(uses.keys()).find(|a| have.get(*a) != uses.get(*a)).copied().unwrap();
            return Err(wit(Failure::new("nht-refcount", format!("step #{i} ({:?}): {} registrations outstanding for {a}, {} peer-learned paths use it", st.op, have.get(&a).copied().unwrap_or(0), uses.get(&a).copied().unwrap_or(0))).with("what", if have.get(&a).copied().unwrap_or(0) > uses.get(&a).copied().unwrap_or(0) { "leak" } else { "missing" })));
        }
    }
    info.nontrivial = m.multi || kinds.contains(&"nexthop-report");
    for k in kinds {
        info.classes.push(k);
    }
    if m.multi {
        info.classes.push("ecmp-request");
    }
    Ok(info)
}

fn arb_op() -> impl Strategy<Value = TmOp> {
    prop_oneof![
        10 => (0u8..N_PEERS, 0u8..N_PREFIX, 0u8..2, 0u8..6, 0u8..N_NH).prop_map(|(peer, prefix, path_id, attrs, nh)| TmOp::Insert { peer, prefix, path_id, attrs, nh }),
        4 => (0u8..N_PEERS, 0u8..N_PREFIX, 0u8..2).prop_map(|(peer, prefix, path_id)| TmOp::Remove { peer, prefix, path_id }),
        1 => (0u8..N_PEERS).prop_map(|peer| TmOp::DropPeer { peer }),
        1 => (0u8..N_PEERS).prop_map(|peer| TmOp::MarkStale { peer }),
        1 => (0u8..N_PEERS).prop_map(|peer| TmOp::DropStale { peer }),
        2 => (0u8..N_PEERS, 0u8..3).prop_map(|(peer, policy)| TmOp::SoftResetIn { peer, policy }),
        4 => (0u8..N_NH, any::<bool>()).prop_map(|(nh, reachable)| TmOp::NhReach { nh, reachable }),
    ]
}

pub fn arb_case(max: usize) -> impl Strategy<Value = Case> {
    let step = prop_oneof![
        8 => arb_op().prop_map(|op| Step { op, nested: None }),
        2 => (0u8..N_PEERS, 0u8..N_PREFIX, 0u8..2, 0u8..6, 0u8..N_NH, any::<bool>()).prop_map(|(peer, prefix, path_id, attrs, nh, reachable)| Step { op: TmOp::Insert { peer, prefix, path_id, attrs, nh }, nested: Some((0, TmOp::NhReach { nh, reachable })) }),
    ];
    // few prefixes per case so that paths meet
    (0u8..N_PREFIX, proptest::collection::vec(step, 1..max)).prop_map(|(base, mut steps)| {
        for s in steps.iter_mut() {
            if let TmOp::Insert { prefix, .. } | TmOp::Remove { prefix, .. } = &mut s.op {
                *prefix = base + (*prefix % 3);
            }
        }
        Case { steps }
    })
}

pub fn run(r: &Run) {
    r.set_rule(RULE);
    r.assume("the rig's import policies do not rewrite next hops, so the next hop shown by iter_reach is the registered one; VRF (VPN) FIB distribution is not generated");
    r.assume("the expected FIB uses the repository's own ranking of the final state (collect_loc_rib_paths / ecmp_paths, judged by C02); what is decided here is that the request stream keeps up with it");
    r.prop("fib-histories", r.tier.pick(150_000, 3_000_000), || arb_case(r.tier.pick(20, 40)), check);
}

pub fn replay(_sub: &str, case: &Value) -> Result<CheckResult, String> {
    Ok(check(&decode_case(case)?))
}
