//! C20 — kernel FIB requests and next-hop tracking stay in step with the RIB.
//!
//! Histories over a real 3-shard TableManager whose KernelHandle is observed at the
//! channel (kernel::verif hook). After every step the requests issued so far are
//! replayed into a model FIB / registration counter and compared with the RIB.

use super::tmrig::*;
use crate::common::*;
use crate::table_manager::verif as tmv;
use proptest::prelude::*;
use rustybgp_kernel::verif::VerifRequest;
use rustybgp_packet::bgp::{Family, Nexthop};
use serde::{Deserialize, Serialize};
use serde_json::Value;
use std::collections::BTreeMap;
use std::net::IpAddr;
use std::sync::Arc;

pub const RULE: &str = "fib-histories: cases = 1..20 steps over a 3-shard TableManager with an observed KernelHandle, 3 eBGP peers, 10 prefixes (IPv4 and IPv6), 2 path ids, 6 attribute variants (ties and non-ties before the router-id step), 4 shared next hops: \
insert_route (new / replace with another next hop / replace with other attributes), remove_route, peer loss, graceful-restart stale marking and stale purge, soft_reset_in after an import-policy change (filtering and un-filtering paths), next-hop reachability reports, locally originated (API) and redistributed kernel paths inserted and removed with the same next hops (they are selected and installed like any other path but hold no registration), in a third of the cases a per-session prefix limit of 1..3 (an insert refused for the limit stores nothing, registers nothing and ends the session), \
and reachability reports scheduled inside an insert (between its read of the unreachable set and its shard lock). \
Oracle after every step: (1) replaying all FIB requests so far gives, per prefix, exactly the next-hop set of the RIB's current best path and the paths tied with it before the router-id step (none if there is no eligible path); \
(2) registrations minus unregistrations per address == number of peer-learned paths in the RIB whose next hop is that address, never negative; (3) no selected path has a next hop currently reported unreachable. \
non-trivial := at least one FIB request with >= 2 next hops, or a reachability report that changed a best path, or a replace that moved a path to another next hop; distinct := distinct serialized case";

#[derive(Clone, Debug, Serialize, Deserialize)]
pub struct Case {
    pub steps: Vec<Step>,
    /// per-session prefix limit (each peer's session has a counter of its own, as PeerSession creates it)
    #[serde(default)]
    pub limit: Option<u8>,
}

#[derive(Default)]
struct Model {
    fib: BTreeMap<String, Vec<String>>,
    refs: BTreeMap<IpAddr, i64>,
    min_ref: i64,
    multi: bool,
    requests: u64,
}

impl Model {
    fn absorb(&mut self, reqs: Vec<VerifRequest>) {
        for r in reqs {
            self.requests += 1;
            match r {
                VerifRequest::Apply(c) => {
                    let k = format!("{:?}|{:?}", c.table_id, c.net);
                    if c.nexthops.is_empty() {
                        self.fib.remove(&k);
                    } else {
                        let mut v: Vec<String> = c.nexthops.iter().map(|n| format!("{:?}", n.addr())).collect();
                        v.sort();
                        v.dedup();
                        self.multi |= v.len() >= 2;
                        self.fib.insert(k, v);
                    }
                }
                VerifRequest::RegisterNexthop(a) => *self.refs.entry(a).or_default() += 1,
                VerifRequest::UnregisterNexthop(a) => {
                    let e = self.refs.entry(a).or_default();
                    *e -= 1;
                    self.min_ref = self.min_ref.min(*e);
                }
                _ => {}
            }
        }
    }
}

/// decision steps before the originator / router-id comparison, from the path's own data:
/// (LLGR-stale, LOCAL_PREF (default 100, higher first), AS_PATH length (a set counts 1, confederation
/// segments 0), ORIGIN, learned from an external peer, GR-stale, CLUSTER_LIST length)
fn tie_key(p: &rustybgp_table::Path) -> (bool, std::cmp::Reverse<u32>, usize, u32, bool, bool, usize) {
    let find = |code: u8| p.attr.iter().find(|a| a.code() == code);
    let llgr = p.source.is_llgr_stale() || find(8).and_then(|a| a.binary()).is_some_and(|b| b.chunks(4).any(|c| c == [0xff, 0xff, 0x00, 0x06]));
    let local_pref = find(5).and_then(|a| a.value()).unwrap_or(100);
    let mut hops = 0usize;
    if let Some(b) = find(2).and_then(|a| a.binary()) {
        let mut i = 0;
        while i + 2 <= b.len() {
            let (t, n) = (b[i], b[i + 1] as usize);
            hops += match t {
                2 => n,
                1 => 1,
                _ => 0,
            };
            i += 2 + 4 * n;
        }
    }
    let origin = find(1).and_then(|a| a.value()).unwrap_or(2);
    let external = matches!(p.source.role, rustybgp_table::PeerRole::Ebgp | rustybgp_table::PeerRole::RsClient);
    let cluster = find(10).and_then(|a| a.binary()).map(|b| b.len() / 4).unwrap_or(0);
    (llgr, std::cmp::Reverse(local_pref), hops, origin, !external, p.source.is_stale(), cluster)
}

fn op_kind(op: &TmOp) -> &'static str {
    match op {
        TmOp::Insert { .. } => "insert",
        TmOp::Remove { .. } => "remove",
        TmOp::DropPeer { .. } => "peer-drop",
        TmOp::MarkStale { .. } => "mark-stale",
        TmOp::DropStale { .. } => "drop-stale",
        TmOp::SoftResetIn { .. } => "soft-reset-in",
        TmOp::NhReach { .. } => "nexthop-report",
        TmOp::Subscribe => "subscribe",
        TmOp::Unsubscribe(_) => "unsubscribe",
        TmOp::InsertLocal { .. } => "insert-local",
        TmOp::RemoveLocal { .. } => "remove-local",
        TmOp::MarkLlgrStale { .. } => "mark-llgr-stale",
        TmOp::DropLlgrStale { .. } => "drop-llgr-stale",
    }
}

pub fn check(c: &Case) -> CheckResult {
    check_with(c, false)
}

pub fn check_vrf(c: &Case) -> CheckResult {
    check_with(c, true)
}

/// (kernel table, import route targets) of the VRFs of Rig::with_vrfs that have a kernel table
const VRF_TABLES: [(u32, &[u8]); 2] = [(10, &[1]), (20, &[1, 2])];

fn check_with(c: &Case, vrfs: bool) -> CheckResult {
    let rig = if vrfs { Rig::with_vrfs() } else { Rig::new(true) };
    let mut m = Model::default();
    let mut info = CaseInfo::trivial();
    let mut kinds: Vec<&'static str> = Vec::new();
    if let Some(max) = c.limit {
        *rig.limits.borrow_mut() = Some((max.max(1) as u32, (0..3).map(|_| Arc::new(std::sync::atomic::AtomicU64::new(0))).collect()));
    }
    for (i, st) in c.steps.iter().enumerate() {
        rig.exceeded.set(None);
        let fired = rig.step(st);
        if let Some(p) = rig.exceeded.get() {
            // the insert was refused for the session's prefix limit: the daemon sends Cease and the session ends
            rig.apply(&TmOp::DropPeer { peer: p });
            info.classes.push("limit-refused-insert");
        }
        if !kinds.contains(&op_kind(&st.op)) {
            kinds.push(op_kind(&st.op));
        }
        if fired {
            info.classes.push("report-inside-insert");
        }
        let reqs = rig.kernel_rx.borrow_mut().as_mut().unwrap().drain();
        m.absorb(reqs);
        let wit = |f: Failure| f.with("after", op_kind(&st.op)).with("nested", fired).with("history", kinds.clone());

        // ---- expected FIB from the RIB's current ranking ------------------------
        let invalid = tmv::nexthop_invalid(&rig.tm);
        let mut want: BTreeMap<String, Vec<String>> = BTreeMap::new();
        for family in [Family::IPV4, Family::IPV6, Family::IPV4_VPN] {
            if family == Family::IPV4_VPN && !vrfs {
                continue;
            }
            for ch in rig.tm.collect_loc_rib_paths(family) {
                let Some(best) = ch.new_best() else { continue };
                if let Some(nh) = best.nexthop
                    && invalid.contains(&nh.addr())
                {
                    return Err(wit(Failure::new("unreachable-selected", format!("step #{i}: the best path of {:?} has next hop {:?}, which is currently reported unreachable ({invalid:?})", ch.net, nh.addr()))));
                }
                // the best path and the paths that tie with it on every step before the final
                // identifier comparison (reference: tie_key below, written from the decision order)
                let bk = tie_key(best);
                let mut v: Vec<String> = ch.current_paths.iter().take_while(|p| tie_key(p) == bk).filter_map(|p| p.nexthop).map(|n| format!("{:?}", n.addr())).collect();
                v.sort();
                v.dedup();
                if !v.is_empty() {
                    want.insert(format!("None|{:?}", ch.net), v.clone());
                }
                // a VPN prefix is also installed, without its route distinguisher, in every VRF
                // one of whose import route targets the best path carries - and in no other
                if let rustybgp_packet::Nlri::VpnV4(n) = &ch.net
                    && !v.is_empty()
                {
                    let rts: Vec<[u8; 8]> = best.attr.iter().filter(|a| a.code() == 16).filter_map(|a| a.binary()).flat_map(|b| b.chunks_exact(8).map(|c| <[u8; 8]>::try_from(c).unwrap()).collect::<Vec<_>>()).collect();
                    for (table_id, import) in VRF_TABLES {
                        if import.iter().any(|n| rts.contains(&crate::props::tmrig::route_target(*n))) {
                            want.insert(format!("Some({table_id})|{:?}", rustybgp_packet::Nlri::V4(n.prefix)), v.clone());
                            info.classes.push("vrf-route-expected");
                        }
                    }
                }
            }
        }
        if want != m.fib {
            let k = want.keys().chain(m.fib.keys()).find(|k| want.get(*k) != m.fib.get(*k)).cloned().unwrap_or_default();
            let only_set = want.get(&k).is_some() && m.fib.get(&k).is_some();
            return Err(wit(Failure::new("fib-differs", format!("step #{i} ({:?}): replaying the FIB requests gives {k} -> {:?}, the RIB's best path and its ties give {:?}", st.op, m.fib.get(&k), want.get(&k))).with("vrf_table", k.starts_with("Some")).with("what", if only_set { "next-hop-set" } else if want.get(&k).is_some() { "missing-in-fib" } else { "left-in-fib" })));
        }
        // ---- registrations --------------------------------------------------------
        let (pre, _) = tmv::rib_views(&rig.tm);
        let mut uses: BTreeMap<IpAddr, i64> = BTreeMap::new();
        for (k, (nh, _)) in pre.iter() {
            // locally originated and redistributed kernel paths (source address 0.0.0.0) are not
            // tracked: only paths learned from a peer hold a registration
            if k.starts_with("0.0.0.0|") {
                continue;
            }
            if let Some(nh) = nh {
                *uses.entry(nh.addr()).or_default() += 1;
            }
        }
        if m.min_ref < 0 {
            return Err(wit(Failure::new("nht-refcount", format!("step #{i}: more unregistrations than registrations for an address (balance {})", m.min_ref)).with("what", "negative")));
        }
        let have: BTreeMap<IpAddr, i64> = m.refs.iter().filter(|(_, v)| **v != 0).map(|(k, v)| (*k, *v)).collect();
        if have != uses {
            let a = have.keys().chain(uses.keys()).find(|a| have.get(*a) != uses.get(*a)).copied().unwrap();
            return Err(wit(Failure::new("nht-refcount", format!("step #{i} ({:?}): {} registrations outstanding for {a}, {} peer-learned paths use it", st.op, have.get(&a).copied().unwrap_or(0), uses.get(&a).copied().unwrap_or(0))).with("what", if have.get(&a).copied().unwrap_or(0) > uses.get(&a).copied().unwrap_or(0) { "leak" } else { "missing" })));
        }
    }
    info.nontrivial = m.multi || kinds.contains(&"nexthop-report");
    for k in kinds {
        info.classes.push(k);
    }
    if m.multi {
        info.classes.push("ecmp-request");
    }
    Ok(info)
}

fn arb_op() -> impl Strategy<Value = TmOp> {
    prop_oneof![
        10 => (0u8..N_PEERS, 0u8..N_PREFIX, 0u8..2, 0u8..6, 0u8..N_NH).prop_map(|(peer, prefix, path_id, attrs, nh)| TmOp::Insert { peer, prefix, path_id, attrs, nh }),
        4 => (0u8..N_PEERS, 0u8..N_PREFIX, 0u8..2).prop_map(|(peer, prefix, path_id)| TmOp::Remove { peer, prefix, path_id }),
        1 => (0u8..N_PEERS).prop_map(|peer| TmOp::DropPeer { peer }),
        1 => (0u8..N_PEERS).prop_map(|peer| TmOp::MarkStale { peer }),
        1 => (0u8..N_PEERS).prop_map(|peer| TmOp::DropStale { peer }),
        2 => (0u8..N_PEERS, 0u8..3).prop_map(|(peer, policy)| TmOp::SoftResetIn { peer, policy }),
        4 => (0u8..N_NH, any::<bool>()).prop_map(|(nh, reachable)| TmOp::NhReach { nh, reachable }),
        2 => (0u8..2, 0u8..N_PREFIX, 0u8..6, 0u8..N_NH).prop_map(|(kind, prefix, attrs, nh)| TmOp::InsertLocal { kind, prefix, attrs, nh }),
        1 => (0u8..2, 0u8..N_PREFIX).prop_map(|(kind, prefix)| TmOp::RemoveLocal { kind, prefix }),
    ]
}

pub fn arb_case(max: usize) -> impl Strategy<Value = Case> {
    let step = prop_oneof![
        8 => arb_op().prop_map(|op| Step { op, nested: None }),
        2 => (0u8..N_PEERS, 0u8..N_PREFIX, 0u8..2, 0u8..6, 0u8..N_NH, any::<bool>()).prop_map(|(peer, prefix, path_id, attrs, nh, reachable)| Step { op: TmOp::Insert { peer, prefix, path_id, attrs, nh }, nested: Some((0, TmOp::NhReach { nh, reachable })) }),
    ];
    // few prefixes per case so that paths meet
    (0u8..N_PREFIX, proptest::collection::vec(step, 1..max)).prop_map(|(base, mut steps)| {
        for s in steps.iter_mut() {
            if let TmOp::Insert { prefix, .. } | TmOp::Remove { prefix, .. } | TmOp::InsertLocal { prefix, .. } | TmOp::RemoveLocal { prefix, .. } = &mut s.op {
                *prefix = base + (*prefix % 3);
            }
        }
        Case { steps, limit: None }
    })
}

/// `arb_case` with a per-session prefix limit in a third of the cases
pub fn arb_case_limits(max: usize) -> impl Strategy<Value = Case> {
    (arb_case(max), prop_oneof![2 => Just(None), 1 => (1u8..4).prop_map(Some)]).prop_map(|(mut c, limit)| {
        c.limit = limit;
        c
    })
}

/// histories over two VPNv4 prefixes with route-target variants, three VRFs configured
pub fn arb_vrf_case(max: usize) -> impl Strategy<Value = Case> {
    use crate::props::tmrig::VPN_PREFIX_BASE;
    let op = prop_oneof![
        10 => (0u8..N_PEERS, 0u8..2, 0u8..2, 0u8..12, 0u8..N_NH).prop_map(|(peer, prefix, path_id, attrs, nh)| TmOp::Insert { peer, prefix: VPN_PREFIX_BASE + prefix, path_id, attrs: 100 + attrs, nh }),
        4 => (0u8..N_PEERS, 0u8..2, 0u8..2).prop_map(|(peer, prefix, path_id)| TmOp::Remove { peer, prefix: VPN_PREFIX_BASE + prefix, path_id }),
        1 => (0u8..N_PEERS).prop_map(|peer| TmOp::DropPeer { peer }),
        1 => (0u8..N_PEERS).prop_map(|peer| TmOp::MarkStale { peer }),
        1 => (0u8..N_PEERS).prop_map(|peer| TmOp::DropStale { peer }),
        1 => (0u8..N_PEERS, 0u8..3).prop_map(|(peer, policy)| TmOp::SoftResetIn { peer, policy }),
        3 => (0u8..N_NH, any::<bool>()).prop_map(|(nh, reachable)| TmOp::NhReach { nh, reachable }),
        2 => (0u8..N_PEERS, 0u8..3, 0u8..2, 0u8..6, 0u8..N_NH).prop_map(|(peer, prefix, path_id, attrs, nh)| TmOp::Insert { peer, prefix, path_id, attrs, nh }),
    ];
    proptest::collection::vec(op.prop_map(|op| Step { op, nested: None }), 1..max).prop_map(|steps| Case { steps, limit: None })
}

pub const VRF_RULE: &str = "fib-vrf-histories: the same over VPNv4 prefixes (one route distinguisher per prefix) whose paths carry the route targets {1}, {2}, {1,2} or none, with three VRFs configured: a (kernel table 10, imports RT 1), b (table 20, imports RT 1 and 2), c (no kernel table, imports RT 2). Expected after every step: the VPN prefix itself in the main table as before, and the prefix without its route distinguisher in the table of exactly those VRFs one of whose import route targets the current best path carries, with the same next-hop set. non-trivial := as above";

pub fn run(r: &Run) {
    r.set_rule(RULE);
    r.assume("the rig's import policies do not rewrite next hops, so the next hop shown by iter_reach is the registered one; VRF (VPN) FIB distribution is not generated");
    r.assume("the expected FIB uses the repository's ranking of the final state (collect_loc_rib_paths, judged by C02) and an own computation of which ranked paths tie with the best before the identifier comparison (tie_key); what is decided here is that the request stream keeps up with it");
    r.prop("fib-histories", r.tier.pick(150_000, 3_000_000), || arb_case_limits(r.tier.pick(20, 40)), check);
    r.assume(VRF_RULE);
    r.prop("fib-vrf-histories", r.tier.pick(60_000, 1_500_000), || arb_vrf_case(r.tier.pick(16, 32)), check_vrf);
}

pub fn replay(sub: &str, case: &Value) -> Result<CheckResult, String> {
    if sub == "fib-vrf-histories" {
        return Ok(check_vrf(&decode_case(case)?));
    }
    replay_plain(sub, case)
}

fn replay_plain(_sub: &str, case: &Value) -> Result<CheckResult, String> {
    Ok(check(&decode_case(case)?))
}
