//! C14 policy-users — "a policy that is still referenced cannot be deleted or silently changed
//! underneath its users", where the users include neighbours with an export assignment of their
//! own: the daemon's Global::{add_policy, delete_policy, add_policy_assignment} (the glue behind
//! the AddPolicy / DeletePolicy / AddPolicyAssignment requests), not the table crate alone.

use crate::common::*;
use crate::event::verif::PolicyRig;
use proptest::prelude::*;
use rustybgp_table as table;
use serde::{Deserialize, Serialize};
use serde_json::Value;

pub const RULE: &str = "policy-users: cases = 2 neighbours, 4 statements, then 1..14 requests through the daemon's Global: AddPolicy (create, or append statements to an existing policy), AddPolicyAssignment for a neighbour's export direction or for the global import / export direction, DeletePolicy (whole policy or named statements of it, with or without preserving the statements). \
Oracle after every request: (1) a refused request has changed nothing - neither what the policy table lists (policies with their statement lists, statements) nor what any user evaluates; (2) every policy a user evaluates (a neighbour's own export assignment, the global assignments as the TableManager holds them) still exists under its name with exactly the statement list the user holds; (3) every statement of a listed policy exists. \
non-trivial := a DeletePolicy or appending AddPolicy aimed at a policy that only a neighbour's assignment references; distinct := distinct serialized case";

#[derive(Clone, Debug, Serialize, Deserialize)]
pub enum Op {
    AddPolicy { p: u8, stmts: Vec<u8> },
    /// user 0, 1: neighbour export; 2: global export; 3: global import
    Assign { user: u8, pols: Vec<u8>, accept: bool },
    DeletePolicy { p: u8, preserve: bool, all: bool, stmts: Vec<u8> },
}

#[derive(Clone, Debug, Serialize, Deserialize)]
pub struct Case {
    pub ops: Vec<Op>,
}

fn pname(p: u8) -> String {
    format!("p{}", p % 3)
}

fn sname(s: u8) -> String {
    format!("s{}", s % 4)
}

pub fn check(c: &Case) -> CheckResult {
    let mut rig = PolicyRig::new(2);
    if rig.peers.len() != 2 {
        return Err(Failure::new("harness", "add_peer refused a neighbour".to_string()));
    }
    for i in 0..4u8 {
        rig.ptable()
            .add_statement(&sname(i), vec![table::ConditionConfig::MedEq(i as u32)], Some(table::Disposition::Accept), table::Actions::default())
            .map_err(|e| Failure::new("harness", format!("add_statement: {e:?}")))?;
    }
    let mut info = CaseInfo::trivial();
    for (i, op) in c.ops.iter().enumerate() {
        let before = (rig.table_view(), rig.users_view());
        // is the target referenced by a neighbour only?
        let target = match op {
            Op::AddPolicy { p, .. } | Op::DeletePolicy { p, .. } => Some(pname(*p)),
            _ => None,
        };
        let peer_only = target.as_ref().is_some_and(|t| {
            let users: Vec<&String> = before.1.iter().filter(|(_, n, _)| n == t).map(|(u, _, _)| u).collect();
            !users.is_empty() && users.iter().all(|u| !u.starts_with("global"))
        });
        let exists = target.as_ref().is_some_and(|t| before.0.0.contains_key(t));
        let res = match op {
            Op::AddPolicy { p, stmts } => catch(|| rig.add_policy(&pname(*p), stmts.iter().map(|s| sname(*s)).collect())).map_err(|p| p.into_failure("Global::add_policy"))?,
            Op::Assign { user, pols, accept } => {
                let names: Vec<String> = pols.iter().map(|p| pname(*p)).collect();
                let (peer, export) = match user % 4 {
                    0 => (Some(0), true),
                    1 => (Some(1), true),
                    2 => (None, true),
                    _ => (None, false),
                };
                catch(|| rig.assign(peer, export, names, *accept)).map_err(|p| p.into_failure("Global::add_policy_assignment"))?
            }
            Op::DeletePolicy { p, preserve, all, stmts } => catch(|| rig.delete_policy(&pname(*p), *preserve, *all, stmts.iter().map(|s| sname(*s)).collect())).map_err(|p| p.into_failure("Global::delete_policy"))?,
        };
        let after = (rig.table_view(), rig.users_view());
        let kind = match op {
            Op::AddPolicy { .. } => "add-policy",
            Op::Assign { .. } => "assign",
            Op::DeletePolicy { .. } => "delete-policy",
        };
        let wit = |f: Failure| f.with("request", kind).with("target_used_by_neighbour_only", peer_only).with("refused", res.is_err());
        if res.is_err() && after != before {
            return Err(wit(Failure::new("refused-but-changed", format!("request #{i} {op:?} was refused ({}) but changed the policy configuration: listed before {:?}, after {:?}; users before {:?}, after {:?}", res.as_ref().err().unwrap(), before.0, after.0, before.1, after.1))));
        }
        for (user, name, stmts) in &after.1 {
            match after.0.0.get(name) {
                None => return Err(wit(Failure::new("policy-gone-under-user", format!("after request #{i} {op:?} (result {res:?}): {user} evaluates policy {name} ({stmts:?}), which the policy table no longer has")))),
                Some(listed) if listed != stmts => return Err(wit(Failure::new("policy-changed-under-user", format!("after request #{i} {op:?} (result {res:?}): {user} evaluates policy {name} with statements {stmts:?}, the policy table lists it with {listed:?}")))),
                _ => {}
            }
        }
        for (name, stmts) in &after.0.0 {
            if let Some(s) = stmts.iter().find(|s| !after.0.1.contains(*s)) {
                return Err(wit(Failure::new("statement-gone-under-policy", format!("after request #{i} {op:?}: policy {name} lists statement {s}, which no longer exists"))));
            }
        }
        if peer_only && exists && !matches!(op, Op::Assign { .. }) {
            info.nontrivial = true;
            info.classes.push("aimed-at-neighbour-only-policy");
        }
        info.classes.push(if res.is_ok() { "accepted" } else { "refused" });
        info.classes.push(kind);
    }
    Ok(info)
}

pub fn arb_case() -> impl Strategy<Value = Case> {
    let op = prop_oneof![
        4 => (0u8..3, proptest::collection::vec(0u8..4, 1..3)).prop_map(|(p, stmts)| Op::AddPolicy { p, stmts }),
        4 => (0u8..4, proptest::collection::vec(0u8..3, 1..3), any::<bool>()).prop_map(|(user, pols, accept)| Op::Assign { user, pols, accept }),
        4 => (0u8..3, any::<bool>(), any::<bool>(), proptest::collection::vec(0u8..4, 0..3)).prop_map(|(p, preserve, all, stmts)| Op::DeletePolicy { p, preserve, all, stmts }),
    ];
    // in most cases a policy is created and given to a neighbour first, so that later requests meet a policy
    // that only a neighbour's assignment references
    (proptest::option::weighted(0.6, (0u8..3, proptest::collection::vec(0u8..4, 1..3), 0u8..2, any::<bool>())), proptest::collection::vec(op, 1..14)).prop_map(|(lead, mut ops)| {
        if let Some((p, stmts, user, accept)) = lead {
            ops.insert(0, Op::Assign { user, pols: vec![p], accept });
            ops.insert(0, Op::AddPolicy { p, stmts });
        }
        Case { ops }
    })
}

pub fn replay(case: &Value) -> Result<CheckResult, String> {
    Ok(check(&decode_case(case)?))
}
