//! C18 (and C19 for the embedded PDUs) end to end: the daemon's `BmpClient::serve` over a
//! real socket, fed by real BGP sessions. The check plays one or two BGP peers (wire level)
//! and the BMP station; the station folds what it receives with the independent BMP reader
//! and is compared with the RIB's pre- and post-policy Adj-RIB-In at every quiescent point.

use crate::bmp::BmpPolicy;
use crate::common::*;
use crate::event::verif::{AdmitRig, NeighborCfg};
use crate::props::tmrig::attrs_variant;
use crate::props::wirepeer::{WirePeer, tcp_pair};
use crate::table_manager::verif as tmv;
use crate::wire::mon::{self, BmpBody};
use proptest::prelude::*;
use rustybgp_packet as packet;
use rustybgp_packet::bgp::{self, Family, Message, PeerCodec, Update};
use serde::{Deserialize, Serialize};
use serde_json::Value;
use std::collections::{BTreeMap, BTreeSet};
use std::net::{IpAddr, Ipv4Addr};
use std::rc::Rc;
use std::sync::Arc;
use std::time::Duration;

pub const RULE: &str = "bmp-station: histories of two wire-level BGP peers (session up / closed, announce with 6 attribute variants of which two are rejected by the import policy and the others rewritten by it (MED, community), withdraw; IPv4 prefixes) and up to two BMP stations that connect at any point (policy pre, post or both) to the daemon's BmpClient::serve over a loopback socket; in 40% of the cases the peers send Add-Path and the daemon only receives it, and the station decides from the two OPENs of Peer Up whether monitored UPDATEs carry path identifiers. \
The station's byte stream is cut into BMP messages by the independent reader, embedded UPDATEs are parsed by the repository's codec, and Route Monitoring is folded per (peer, prefix) into a pre-policy and a post-policy view (Peer Down clears the peer). At every quiescent point each view the station asked for equals the RIB's (Table::iter_reach / iter_reach_post); \
Peer Down is seen only for a peer whose Peer Up the station was sent; the stream tiles into well-formed messages starting with Initiation. non-trivial := a station connects while routes are held, or a peer goes down while a station is connected";

#[derive(Clone, Debug, Serialize, Deserialize)]
pub enum Op {
    Up(u8),
    Down(u8),
    Announce {
        peer: u8,
        prefix: u8,
        variant: u8,
        /// path identifier (sessions with Add-Path only)
        #[serde(default)]
        pid: u8,
    },
    Withdraw {
        peer: u8,
        prefix: u8,
        #[serde(default)]
        pid: u8,
    },
    /// a station connects asking for pre (0), post (1) or both (2)
    Station(u8),
    StationGone(u8),
}

#[derive(Clone, Debug, Serialize, Deserialize)]
pub struct Case {
    /// the peers send Add-Path and the daemon only receives it (an asymmetric negotiation)
    #[serde(default)]
    pub addpath: bool,
    pub ops: Vec<Op>,
}

type View = BTreeMap<String, (Option<IpAddr>, Vec<(u8, u8, Option<u32>, Option<Vec<u8>>)>)>;

fn attr_view(attrs: &[packet::Attribute]) -> Vec<(u8, u8, Option<u32>, Option<Vec<u8>>)> {
    let mut v: Vec<_> = attrs.iter().map(|a| (a.code(), a.flags() & !0x10, a.value(), a.binary().cloned())).collect();
    v.sort();
    v
}

struct Station {
    stream: tokio::net::TcpStream,
    cancel: tokio_util::sync::CancellationToken,
    task: tokio::task::JoinHandle<()>,
    buf: Vec<u8>,
    policy: u8,
    initiated: bool,
    up: BTreeSet<IpAddr>,
    /// per peer: do the UPDATEs received from it carry path identifiers, according to the two OPENs of its Peer Up
    addpath_in: BTreeMap<IpAddr, bool>,
    pre: View,
    post: View,
    closed: bool,
    messages: usize,
}

impl Station {
    /// read what has arrived and fold it
    fn absorb(&mut self) -> Result<(), Failure> {
        let mut chunk = [0u8; 16384];
        while !self.closed {
            match self.stream.try_read(&mut chunk) {
                Ok(0) => self.closed = true,
                Ok(n) => self.buf.extend_from_slice(&chunk[..n]),
                Err(e) if e.kind() == std::io::ErrorKind::WouldBlock => break,
                Err(_) => self.closed = true,
            }
        }
        loop {
            if self.buf.len() < 6 {
                return Ok(());
            }
            let len = u32::from_be_bytes([self.buf[1], self.buf[2], self.buf[3], self.buf[4]]) as usize;
            if len < 6 {
                return Err(Failure::new("bmp-framing", format!("BMP message length {len}")));
            }
            if self.buf.len() < len {
                return Ok(());
            }
            let one: Vec<u8> = self.buf.drain(..len).collect();
            let msgs = mon::read_bmp(&one).map_err(|e| Failure::new("bmp-framing", format!("message #{}: {e}", self.messages)))?;
            for m in msgs {
                self.messages += 1;
                self.fold(m)?;
            }
        }
    }

    fn fold(&mut self, m: BmpBody) -> Result<(), Failure> {
        match m {
            BmpBody::Initiation(_) => {
                if self.messages != 1 {
                    return Err(Failure::new("bmp-order", "Initiation is not the first message".to_string()));
                }
                self.initiated = true;
            }
            _ if !self.initiated => return Err(Failure::new("bmp-order", "the stream does not start with Initiation".to_string())),
            BmpBody::PeerUp { peer, sent_open, received_open, .. } => {
                if peer.peer_type == 0 {
                    self.up.insert(peer.addr);
                    // Add-Path towards the daemon: it advertised "receive" and the peer "send" for IPv4 unicast
                    let modes = |pdu: &[u8]| -> u8 {
                        match PeerCodec::new().parse_message(pdu) {
                            Ok(bgp::ParsedMessage::Open(o)) => o.capability.iter().filter_map(|c| if let bgp::Capability::AddPath(v) = c { Some(v.iter().filter(|(f, _)| *f == Family::IPV4).map(|(_, m)| *m).fold(0, |a, b| a | b)) } else { None }).fold(0, |a, b| a | b),
                            _ => 0,
                        }
                    };
                    self.addpath_in.insert(peer.addr, modes(&sent_open) & 1 != 0 && modes(&received_open) & 2 != 0);
                }
            }
            BmpBody::PeerDown { peer, .. } => {
                if peer.peer_type == 0 {
                    if !self.up.remove(&peer.addr) {
                        return Err(Failure::new("peer-down-without-up", format!("Peer Down for {} whose Peer Up this station was never sent", peer.addr)));
                    }
                    let p = format!("{}|", peer.addr);
                    self.pre.retain(|k, _| !k.starts_with(&p));
                    self.post.retain(|k, _| !k.starts_with(&p));
                }
            }
            BmpBody::RouteMonitoring { peer, pdus } => {
                if peer.peer_type != 0 || peer.flags & 0x10 != 0 {
                    return Ok(()); // Loc-RIB instance or Adj-RIB-Out
                }
                let post = peer.flags & 0x40 != 0;
                for pdu in pdus {
                    let mut codec = PeerCodec::new();
                    codec.set_family(Family::IPV4, bgp::FamilyState { addpath_rx: self.addpath_in.get(&peer.addr).copied().unwrap_or(false), addpath_tx: false });
                    let parsed = codec.parse_message(&pdu).map_err(|n| Failure::new("bmp-embedded", format!("Route Monitoring for {}: embedded UPDATE does not parse: {n:?}", peer.addr)))?;
                    let msgs: Vec<Message> = bgp::validate_message(parsed, false).map_err(|n| Failure::new("bmp-embedded", format!("Route Monitoring for {}: embedded UPDATE is refused: {n:?}", peer.addr)))?.collect();
                    let view = if post { &mut self.post } else { &mut self.pre };
                    for msg in msgs {
                        match msg {
                            Message::Update(Update::Reach { family, entries, nexthop, attr }) => {
                                for e in entries {
                                    view.insert(format!("{}|{:?}|{:?}", peer.addr, family, e), (nexthop.map(|n| n.addr()), attr_view(&attr)));
                                }
                            }
                            Message::Update(Update::Unreach { family, entries }) => {
                                for e in entries {
                                    view.remove(&format!("{}|{:?}|{:?}", peer.addr, family, e));
                                }
                            }
                            _ => {}
                        }
                    }
                }
            }
            _ => {}
        }
        Ok(())
    }
}

fn prefix(i: u8) -> packet::Nlri {
    crate::cgen::v4(10, 60 + i % 5, 0, 0, 16)
}

pub fn check(c: &Case) -> CheckResult {
    let rt = tokio::runtime::Builder::new_current_thread().enable_all().event_interval(1).build().map_err(|e| Failure::new("harness", e.to_string()))?;
    rt.block_on(run_case(c))
}

async fn settle() {
    for _ in 0..3 {
        std::thread::sleep(Duration::from_micros(150));
        for _ in 0..8 {
            tokio::task::yield_now().await;
        }
    }
}

async fn run_case(c: &Case) -> CheckResult {
    let h = |e: String| Failure::new("harness", e);
    let rig = Rc::new(AdmitRig::new(65000, None).await.map_err(h)?);
    // import policy: reject routes carrying 65000:1 (attribute variants 4 and 5)
    let (_policy_table, import) = {
        use super::c14::*;
        let p = Program {
            prefix_sets: vec![vec![(1, 8, 32)]],
            neighbor_sets: vec![vec![0]],
            aspath_sets: vec![vec![AsPat::Include(1)]],
            comm_sets: vec![vec![CommPat::Exact(0xfde8_0001)]],
            ext_sets: vec![vec![1]],
            large_sets: vec![vec![(1, 2, 3)]],
            policies: vec![vec![0, 1]],
            // ... and rewrite the accepted ones (MED 77, community 65000:2 added), so that the post-policy view differs from the pre-policy one in content too
            stmts: vec![Stmt { conds: vec![Cond::CommunitySet(0, Opt::Any)], disp: Some(false), act: Act::default() }, Stmt { conds: vec![], disp: Some(true), act: Act { med: Some((false, 77)), community: Some((0, vec![0xfde8_0002])), ..Act::default() } }],
            assign: vec![0],
            default_accept: true,
            export: false,
            is_confed: false,
        };
        load(&p).map_err(|e| Failure::new("harness", format!("policy load: {e}")))?
    };
    rig.tables.import_policy.store(Some(import));
    let mut peers: Vec<WirePeer> = Vec::new();
    let mut codecs: Vec<PeerCodec> = Vec::new();
    let mut live = [false; 2];
    for i in 0..2u8 {
        let src = crate::props::wirepeer::fresh_loopback();
        let cfg = NeighborCfg { addr: src, remote_asn: 65101 + i as u32, local_asn: 0, rs_client: false, rr_client: false, cluster_id: None, admin_down: false, holdtime: 90, families: vec![(Family::IPV4, if c.addpath { 1 } else { 0 })], prefix_limit: None, gr: None, llgr: None };
        if !rig.add_neighbor(&cfg).await {
            return Err(Failure::new("harness", "add_peer refuses the neighbour".to_string()));
        }
        peers.push(WirePeer::on(rig.clone(), src));
        let mut codec = PeerCodec::new();
        codec.set_family(Family::IPV4, bgp::FamilyState { addpath_rx: false, addpath_tx: c.addpath });
        codecs.push(codec);
    }
    let mut stations: Vec<Station> = Vec::new();
    let mut info = CaseInfo::trivial();

    for (step, op) in c.ops.iter().enumerate() {
        match op {
            Op::Up(p) => {
                let p = *p as usize % 2;
                if live[p] {
                    continue;
                }
                peers[p].connect().await?;
                let asn = 65101 + p as u32;
                let mut caps = vec![bgp::Capability::MultiProtocol(Family::IPV4), bgp::Capability::FourOctetAsNumber(asn)];
                if c.addpath {
                    caps.push(bgp::Capability::AddPath(vec![(Family::IPV4, 2)]));
                }
                if !peers[p].establish(asn, 0, 0x0a0b_0002 + p as u32, caps).await? {
                    return Err(Failure::new("harness", "the session did not establish".to_string()));
                }
                live[p] = true;
            }
            Op::Down(p) => {
                let p = *p as usize % 2;
                if !live[p] {
                    continue;
                }
                peers[p].close().await?;
                live[p] = false;
                if !stations.is_empty() {
                    info.nontrivial = true;
                    info.classes.push("peer-down-while-station-connected");
                }
            }
            Op::Announce { peer, prefix: px, variant, pid } => {
                let p = *peer as usize % 2;
                if !live[p] {
                    continue;
                }
                let msg = Message::Update(Update::Reach { family: Family::IPV4, entries: vec![bgp::PathNlri { path_id: if c.addpath { 1 + (*pid % 2) as u32 } else { 0 }, nlri: prefix(*px) }], nexthop: Some(bgp::Nexthop::V4(Ipv4Addr::new(192, 0, 2, 1 + variant % 3))), attr: attrs_variant(*variant % 6) });
                peers[p].send_msg(&mut codecs[p], &msg).await?;
            }
            Op::Withdraw { peer, prefix: px, pid } => {
                let p = *peer as usize % 2;
                if !live[p] {
                    continue;
                }
                let msg = Message::Update(Update::Unreach { family: Family::IPV4, entries: vec![bgp::PathNlri { path_id: if c.addpath { 1 + (*pid % 2) as u32 } else { 0 }, nlri: prefix(*px) }] });
                peers[p].send_msg(&mut codecs[p], &msg).await?;
            }
            Op::Station(policy) => {
                if stations.len() >= 2 {
                    continue;
                }
                let (ours, theirs) = tcp_pair().map_err(h)?;
                let cancel = tokio_util::sync::CancellationToken::new();
                let pol = match policy % 3 {
                    0 => BmpPolicy::Pre,
                    1 => BmpPolicy::Post,
                    _ => BmpPolicy::Both,
                };
                let task = crate::bmp::verif::spawn_serve(theirs, cancel.clone(), rig.global.clone(), rig.tables.clone(), pol);
                let (pre, _) = tmv::rib_views(&rig.tables);
                if !pre.is_empty() {
                    info.nontrivial = true;
                    info.classes.push("station-connects-to-filled-rib");
                }
                stations.push(Station { stream: ours, cancel, task, buf: vec![], policy: policy % 3, initiated: false, up: BTreeSet::new(), addpath_in: BTreeMap::new(), pre: View::new(), post: View::new(), closed: false, messages: 0 });
            }
            Op::StationGone(k) => {
                if stations.is_empty() {
                    continue;
                }
                let s = stations.remove(*k as usize % stations.len());
                s.cancel.cancel();
                drop(s.stream);
                for _ in 0..8000 {
                    settle().await;
                    if s.task.is_finished() {
                        break;
                    }
                }
                if !s.task.is_finished() {
                    return Err(Failure::new("bmp-serve-hangs", "BmpClient::serve did not end after the station went away".to_string()));
                }
            }
        }
        // quiescence: the stations have received everything the daemon has to say
        let mut quiet = 0;
        let mut sizes: Vec<usize> = stations.iter().map(|s| s.messages + s.buf.len()).collect();
        for _ in 0..4000 {
            settle().await;
            for s in stations.iter_mut() {
                s.absorb()?;
            }
            let now: Vec<usize> = stations.iter().map(|s| s.messages + s.buf.len()).collect();
            if now == sizes {
                quiet += 1;
                if quiet >= 4 {
                    break;
                }
            } else {
                quiet = 0;
                sizes = now;
            }
        }
        let (pre, post) = tmv::rib_views(&rig.tables);
        let as_view = |m: &tmv::RibView| -> View { m.iter().map(|(k, (nh, a))| (k.clone(), (nh.map(|n| n.addr()), attr_view(a)))).collect() };
        let (pre, post) = (as_view(&pre), as_view(&post));
        for (k, s) in stations.iter().enumerate() {
            if s.closed {
                return Err(Failure::new("bmp-closed", format!("step #{step} ({op:?}): the daemon closed the BMP connection of station {k}")));
            }
            for (name, want, got, wanted) in [("pre-policy", &pre, &s.pre, s.policy != 1), ("post-policy", &post, &s.post, s.policy != 0)] {
                if !wanted {
                    if !got.is_empty() {
                        return Err(Failure::new("bmp-unwanted", format!("step #{step}: station {k} did not ask for the {name} view and was sent {} routes of it", got.len())));
                    }
                    continue;
                }
                if want != got {
                    let key = want.keys().chain(got.keys()).find(|x| want.get(*x) != got.get(*x)).cloned().unwrap_or_default();
                    return Err(Failure::new("station-view-differs", format!("step #{step} ({op:?}): station {k}'s {name} Adj-RIB-In differs from the RIB's at {key}: the RIB has {:?}, the station {:?} (RIB {} routes, station {})", want.get(&key), got.get(&key), want.len(), got.len()))
                        .with("view", name)
                        .with("rib_has", want.contains_key(&key))
                        .with("station_has", got.contains_key(&key)));
                }
            }
        }
    }
    for s in stations {
        s.cancel.cancel();
    }
    let _ = Arc::new(());
    Ok(info)
}

pub fn arb_case(max: usize) -> impl Strategy<Value = Case> {
    let op = prop_oneof![
        3 => (0u8..2).prop_map(Op::Up),
        1 => (0u8..2).prop_map(Op::Down),
        8 => (0u8..2, 0u8..5, 0u8..6, 0u8..2).prop_map(|(peer, prefix, variant, pid)| Op::Announce { peer, prefix, variant, pid }),
        3 => (0u8..2, 0u8..5, 0u8..2).prop_map(|(peer, prefix, pid)| Op::Withdraw { peer, prefix, pid }),
        3 => (0u8..3).prop_map(Op::Station),
        1 => (0u8..2).prop_map(Op::StationGone),
    ];
    (prop::bool::weighted(0.4), proptest::collection::vec(op, 1..max)).prop_map(|(addpath, mut ops)| {
        ops.insert(0, Op::Up(0));
        Case { addpath, ops }
    })
}

pub fn replay(case: &Value) -> Result<CheckResult, String> {
    Ok(check(&decode_case(case)?))
}
