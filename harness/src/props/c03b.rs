//! C03 bfd-session — what stands behind the BFD socket: every control packet the decoder accepts
//! goes to the per-peer task of daemon/src/bfd.rs (peer_loop, through the guarded hook), which
//! must take it without panicking, wedging or misreading it, under both arithmetic profiles.

use crate::bfd::verif::{PeerRig, config, spawn_peer};
use crate::common::*;
use proptest::prelude::*;
use rustybgp_packet as packet;
use serde::{Deserialize, Serialize};
use serde_json::Value;
use std::net::IpAddr;
use std::sync::Arc;
use std::time::Duration;

pub const RULE: &str = "bfd-session: cases = a BFD peer configuration (desired min TX 10 ms..u32::MAX us, required min RX 1 us..u32::MAX us, detect multiplier 1..255) and 1..24 steps: a 24-byte control packet built field by field \
(state, poll/final/demand bits, detect multiplier 0..255, my/your discriminator = 0, the session's own or a foreign one, the three interval fields from boundary values 0, 1, 2^31-1, 2^31, 2^32-1 and ordinary ones; optionally a wrong length or version), handed to the repository's decoder and, if accepted, to the daemon's per-peer BFD task the way the socket loop does; or the (paused) clock advanced by 1 ms..2 s. \
Oracle after every packet, with no time elapsed since it was handed over: the task is alive and has counted the packet (a packet whose Your Discriminator is neither 0 nor the session's is discarded and not counted); the session state it publishes equals RFC 5880 6.8.6 applied to the previous state and the received state (own transcription); \
a SessionDown notification is emitted iff that transition leaves Init/Up - in particular no detection time-out can fire while no time passes. After a clock advance the model re-reads the published state (detection timing is not judged) and the task must still be alive and count the next packet. \
non-trivial := the session reached Up or Init and a packet with an interval field >= 2^31 or a detect multiplier of 0 or >= 128 arrived while it was; distinct := distinct serialized case";

#[derive(Clone, Debug, Serialize, Deserialize)]
pub struct Pkt {
    pub state: u8,
    pub bits: u8,
    pub mult: u8,
    pub my_disc: u32,
    /// 0: zero, 1: the session's discriminator, 2: a foreign one
    pub your: u8,
    pub tx: u32,
    pub rx: u32,
    pub echo: u32,
    /// 0: well-formed; 1: length byte off; 2: version off; 3: truncated
    pub damage: u8,
}

#[derive(Clone, Debug, Serialize, Deserialize)]
pub enum Step {
    Packet(Pkt),
    Advance(u16),
}

#[derive(Clone, Debug, Serialize, Deserialize)]
pub struct Case {
    pub tx_us: u32,
    pub rx_us: u32,
    pub mult: u8,
    pub steps: Vec<Step>,
}

#[derive(Clone, Copy, PartialEq, Eq, Debug)]
enum St {
    AdminDown,
    Down,
    Init,
    Up,
}

/// RFC 5880 section 6.8.6 (reception of BFD control packets), state part
fn rfc_next(cur: St, remote: St) -> St {
    if remote == St::AdminDown {
        return if cur != St::Down { St::Down } else { cur };
    }
    match cur {
        St::Down => match remote {
            St::Down => St::Init,
            St::Init => St::Up,
            _ => cur,
        },
        St::Init => match remote {
            St::Init | St::Up => St::Up,
            _ => cur,
        },
        St::Up => match remote {
            St::Down => St::Down,
            _ => cur,
        },
        St::AdminDown => cur,
    }
}

fn api_state(s: St) -> i32 {
    match s {
        St::Up => 1,
        St::Down => 2,
        St::AdminDown => 3,
        St::Init => 4,
    }
}

fn from_api(v: i32) -> Option<St> {
    match v {
        1 => Some(St::Up),
        2 => Some(St::Down),
        3 => Some(St::AdminDown),
        4 => Some(St::Init),
        _ => None,
    }
}

fn up_or_init(s: St) -> bool {
    matches!(s, St::Up | St::Init)
}

fn bytes_of(p: &Pkt, disc: u32) -> Vec<u8> {
    let your = match p.your % 3 {
        0 => 0,
        1 => disc,
        _ => disc ^ 0x5a5a_0000 | 1,
    };
    let mut b = vec![0x20 | (p.bits & 0x1f), ((p.state & 3) << 6) | (p.bits >> 2 & 0x3b), p.mult, 24];
    b.extend_from_slice(&p.my_disc.to_be_bytes());
    b.extend_from_slice(&your.to_be_bytes());
    b.extend_from_slice(&p.tx.to_be_bytes());
    b.extend_from_slice(&p.rx.to_be_bytes());
    b.extend_from_slice(&p.echo.to_be_bytes());
    match p.damage % 8 {
        1 => b[3] = 25,
        2 => b[0] = (b[0] & 0x1f) | 0x40,
        3 => b.truncate(23),
        _ => {}
    }
    b
}

pub fn check(c: &Case) -> CheckResult {
    let rt = tokio::runtime::Builder::new_current_thread().enable_all().start_paused(true).event_interval(1).build().map_err(|e| Failure::new("harness", e.to_string()))?;
    rt.block_on(run_case(c))
}

async fn settle() {
    for _ in 0..24 {
        tokio::task::yield_now().await;
    }
}

async fn run_case(c: &Case) -> CheckResult {
    // what the task sends goes to a socket of ours (never read); the fall-back socket is ours too
    let addr: IpAddr = crate::props::wirepeer::fresh_loopback();
    let sink = std::net::UdpSocket::bind((addr, 0)).map_err(|e| Failure::new("harness", e.to_string()))?;
    let port = sink.local_addr().map_err(|e| Failure::new("harness", e.to_string()))?.port();
    let server = std::net::UdpSocket::bind((addr, 0)).map_err(|e| Failure::new("harness", e.to_string()))?;
    server.set_nonblocking(true).map_err(|e| Failure::new("harness", e.to_string()))?;
    let server = Arc::new(tokio::net::UdpSocket::from_std(server).map_err(|e| Failure::new("harness", e.to_string()))?);
    let disc = 0x0101_0101u32;
    let mut rig: PeerRig = spawn_peer(addr, config(c.tx_us.max(10_000), c.rx_us.max(1), c.mult.max(1), port), disc, server);
    settle().await;
    if rig.task.is_finished() {
        return Err(Failure::new("harness", "the BFD peer task ended before any packet (no send socket?)".to_string()));
    }
    let mut cur = St::Down;
    let mut counted = 0u64;
    let mut info = CaseInfo::trivial();
    rig.session_downs();
    for (i, st) in c.steps.iter().enumerate() {
        match st {
            Step::Advance(ms) => {
                tokio::time::advance(Duration::from_millis(1 + *ms as u64 % 2000)).await;
                settle().await;
                if rig.task.is_finished() {
                    return Err(Failure::new("bfd-task-died", format!("step #{i}: the per-peer BFD task ended while time passed")).with("after", "advance"));
                }
                // detection timing is not judged: take over what the task publishes
                let (s, _, _) = rig.snapshot();
                if let Some(s) = from_api(s) {
                    cur = s;
                }
                rig.session_downs();
                info.classes.push("clock-advanced");
            }
            Step::Packet(p) => {
                let bytes = bytes_of(p, disc);
                let msg = match catch(|| packet::bfd::Message::decode(&bytes)).map_err(|p| p.into_failure("bfd-decode"))? {
                    Ok(m) => m,
                    Err(_) => {
                        info.classes.push("refused-by-decoder");
                        continue;
                    }
                };
                let Some(tx) = rig.tx.as_ref() else { break };
                if tx.send(msg).is_err() {
                    return Err(Failure::new("bfd-task-died", format!("step #{i}: the per-peer BFD task no longer takes packets")).with("after", "packet"));
                }
                settle().await;
                let extreme = p.tx >= 0x8000_0000 || p.rx >= 0x8000_0000 || p.mult == 0 || p.mult >= 128;
                let wit = |f: Failure| f.with("extreme_fields", extreme).with("state_before", format!("{cur:?}"));
                if rig.task.is_finished() {
                    return Err(wit(Failure::new("bfd-task-died", format!("step #{i}: the per-peer BFD task ended (panicked) on the control packet {p:?}")).with("after", "packet")));
                }
                let foreign = p.your % 3 == 2;
                let remote = match p.state & 3 {
                    0 => St::AdminDown,
                    1 => St::Down,
                    2 => St::Init,
                    _ => St::Up,
                };
                let next = if foreign { cur } else { rfc_next(cur, remote) };
                if !foreign {
                    counted += 1;
                }
                let (s, rx, _) = rig.snapshot();
                if rx != counted {
                    return Err(wit(Failure::new("bfd-not-consumed", format!("step #{i}: {counted} packets for this session were handed over, the task has counted {rx}")).with("foreign_discriminator", foreign)));
                }
                let downs = rig.session_downs();
                // (nothing is published before the first counted packet)
                if counted > 0 && from_api(s) != Some(next) {
                    return Err(wit(Failure::new("bfd-state", format!("step #{i}: state {cur:?}, received {remote:?} ({p:?}): RFC 5880 6.8.6 gives {next:?}, the task publishes {:?} with no time elapsed", from_api(s))).with("published_down", s == api_state(St::Down))));
                }
                let want_down = usize::from(up_or_init(cur) && !up_or_init(next));
                if downs != want_down {
                    return Err(wit(Failure::new("bfd-session-down", format!("step #{i}: state {cur:?} -> {next:?} on {p:?}: {downs} SessionDown notification(s), expected {want_down}"))));
                }
                if up_or_init(cur) && extreme && !foreign {
                    info.nontrivial = true;
                }
                cur = next;
                info.classes.push(match next {
                    St::Up => "up",
                    St::Init => "init",
                    _ => "down",
                });
            }
        }
    }
    // deregistration ends the task
    rig.tx = None;
    settle().await;
    if !rig.task.is_finished() {
        rig.task.abort();
    }
    drop(sink);
    Ok(info)
}

fn arb_interval() -> impl Strategy<Value = u32> {
    prop_oneof![
        3 => prop_oneof![Just(0u32), Just(1), Just(0x7fff_ffff), Just(0x8000_0000), Just(0x8000_0001), Just(0xffff_ffff), Just(0x4000_0000), Just(0x0100_0000)],
        3 => prop_oneof![Just(1_000u32), Just(50_000), Just(300_000), Just(1_000_000)],
        1 => any::<u32>(),
    ]
}

pub fn arb_case() -> impl Strategy<Value = Case> {
    let pkt = (0u8..4, any::<u8>(), prop_oneof![3 => Just(3u8), 1 => Just(0u8), 1 => Just(1u8), 1 => Just(2u8), 1 => Just(4u8), 1 => Just(128u8), 1 => Just(255u8), 2 => any::<u8>()], any::<u32>(), prop_oneof![3 => Just(1u8), 2 => Just(0u8), 1 => Just(2u8)], arb_interval(), arb_interval(), arb_interval(), prop_oneof![9 => Just(0u8), 1 => 1u8..4])
        .prop_map(|(state, bits, mult, my_disc, your, tx, rx, echo, damage)| Pkt { state, bits, mult, my_disc, your, tx, rx, echo, damage });
    // sessions should come up: bias the received states towards the three-way handshake
    let step = prop_oneof![
        10 => pkt.prop_map(Step::Packet),
        1 => (0u16..2000).prop_map(Step::Advance),
    ];
    (prop_oneof![Just(10_000u32), Just(300_000), Just(1_000_000), Just(u32::MAX)], arb_interval(), prop_oneof![2 => Just(3u8), 1 => Just(1u8), 1 => Just(255u8), 1 => 1u8..=255], proptest::collection::vec(step, 1..24)).prop_map(|(tx_us, rx_us, mult, mut steps)| {
        // the first two packets usually bring the session up (Down, then Init/Up)
        let mut k = 0;
        for s in steps.iter_mut() {
            if let Step::Packet(p) = s {
                if k == 0 && p.bits & 1 == 0 {
                    p.state = 1;
                    p.your = 0;
                    p.damage = 0;
                }
                if k == 1 && p.bits & 2 == 0 {
                    p.state = 2 + (p.bits >> 2 & 1);
                    p.your = 1;
                    p.damage = 0;
                }
                k += 1;
            }
        }
        Case { tx_us, rx_us, mult, steps }
    })
}

pub fn replay(case: &Value) -> Result<CheckResult, String> {
    Ok(check(&decode_case(case)?))
}
