//! C18 — a monitoring subscriber reconstructs the exact Adj-RIB-In whenever it subscribes.
//!
//! Histories of TableManager calls over 3 shards with the schedule owned by the harness
//! (props/tmrig.rs): a call can be run at any scheduling point of another call, i.e. a
//! subscribe (snapshot walk) in the middle of a writer, or writers between the shard
//! visits of a snapshot walk. At quiescence every live subscriber's fold of
//! (snapshot + live events) must equal the pre- and post-policy Adj-RIB-In of the RIB.

use super::tmrig::*;
use crate::common::*;
use crate::table_manager::verif as tmv;
use proptest::prelude::*;
use serde::{Deserialize, Serialize};
use serde_json::Value;
use std::collections::BTreeMap;

pub const RULE: &str = "subscribe-histories: cases = 1..14 steps over a 3-shard TableManager with 3 peers (IPv4 and IPv6 sessions), 10 prefixes of two families, 2 path ids, 6 attribute variants, 3 import-policy variants; \
steps: insert_route / remove_route / peer loss (unregister_peer dropping its families, then the PeerDown event, the daemon's order) / soft_reset_in after an import-policy change / subscribe(snapshot) / unsubscribe, each optionally with another complete call run at the k-th scheduling point inside it \
(hooks before every shard-lock acquisition and after subscriber registration: a subscribe inside a writer, a writer between the shard visits of a snapshot walk). \
Oracle at quiescence, for every live subscriber: exactly one EndOfSnapshot, and the fold of all delivered events per (peer, family, prefix, path id) - reach sets, withdraw removes, PeerDown clears the peer (RFC 7854 §4.9) - equals the RIB's Adj-RIB-In pre-policy (iter_reach) and post-policy (iter_reach_post), next hop and attributes included. \
peer-pairing: generated peer-up / peer-down sequences through the BMP client's pairing functions against a set model. \
non-trivial := a nested call actually ran inside a step that involves a subscribe (either side) and the RIB was non-empty; distinct := distinct serialized case";

#[derive(Clone, Debug, Serialize, Deserialize)]
pub struct Case {
    pub steps: Vec<Step>,
}

fn view(m: &BTreeMap<String, (Option<rustybgp_packet::bgp::Nexthop>, std::sync::Arc<Vec<rustybgp_packet::Attribute>>)>) -> BTreeMap<String, String> {
    m.iter().map(|(k, (nh, a))| (k.clone(), format!("{nh:?} {a:?}"))).collect()
}

fn op_name(op: &TmOp) -> &'static str {
    match op {
        TmOp::Insert { .. } => "insert_route",
        TmOp::Remove { .. } => "remove_route",
        TmOp::DropPeer { .. } => "drop_families",
        TmOp::MarkStale { .. } => "mark_stale",
        TmOp::DropStale { .. } => "drop_stale",
        TmOp::SoftResetIn { .. } => "soft_reset_in",
        TmOp::NhReach { .. } => "update_nexthop_validity",
        TmOp::Subscribe => "subscribe",
        TmOp::Unsubscribe(_) => "unsubscribe",
        TmOp::InsertLocal { .. } => "insert-local",
        TmOp::RemoveLocal { .. } => "remove-local",
        TmOp::MarkLlgrStale { .. } => "mark-llgr-stale",
        TmOp::DropLlgrStale { .. } => "drop-llgr-stale",
    }
}

pub fn check(c: &Case) -> CheckResult {
    let rig = Rig::new(false);
    let mut interesting = false;
    let mut race_with: Vec<&'static str> = Vec::new();
    for st in &c.steps {
        let fired = rig.step(st);
        if fired
            && let Some((_, n)) = &st.nested
            && (matches!(st.op, TmOp::Subscribe) || matches!(n, TmOp::Subscribe))
        {
            interesting = true;
            let other = if matches!(st.op, TmOp::Subscribe) { op_name(n) } else { op_name(&st.op) };
            if !race_with.contains(&other) {
                race_with.push(other);
            }
        }
    }
    rig.drain();
    let (pre, post) = tmv::rib_views(&rig.tm);
    let (pre, post) = (view(&pre), view(&post));
    let mut info = CaseInfo::nt(interesting && !pre.is_empty());
    for r in &race_with {
        info.classes.push(match *r {
            "insert_route" => "subscribe-vs-insert",
            "remove_route" => "subscribe-vs-remove",
            "drop_families" => "subscribe-vs-peer-drop",
            "soft_reset_in" => "subscribe-vs-soft-reset",
            "subscribe" => "subscribe-vs-subscribe",
            _ => "subscribe-vs-other",
        });
    }
    for (i, s) in rig.subs.borrow().iter().enumerate() {
        if !s.active {
            continue;
        }
        let wit = |f: Failure| f.with("concurrent", s.concurrent).with("race_with", race_with.clone());
        if s.end_of_snapshot != 1 {
            return Err(wit(Failure::new("end-of-snapshot", format!("subscriber #{i} saw {} EndOfSnapshot markers", s.end_of_snapshot))));
        }
        for (which, want, got) in [("pre-policy", &pre, view(&s.pre)), ("post-policy", &post, view(&s.post))] {
            if *want != got {
                let missing: Vec<_> = want.iter().filter(|(k, v)| got.get(*k) != Some(v)).take(2).collect();
                let extra: Vec<_> = got.iter().filter(|(k, v)| want.get(*k) != Some(v)).take(2).collect();
                return Err(wit(Failure::new("fold-differs", format!("subscriber #{i} ({} events, {} before EndOfSnapshot): its {which} Adj-RIB-In differs from the RIB's: the RIB holds {} routes, the subscriber {}; in the RIB but not (or different) at the subscriber: {missing:?}; at the subscriber but not (or different) in the RIB: {extra:?}", s.events, s.snapshot_events, want.len(), got.len()))
                    .with("which", which)
                    .with("stale_at_subscriber", !extra.is_empty())));
            }
        }
        info.classes.push("subscriber-checked");
    }
    Ok(info)
}

// ---------------------------------------------------------------------------
// peer-up / peer-down pairing of the BMP client
// ---------------------------------------------------------------------------

#[derive(Clone, Debug, Serialize, Deserialize)]
pub struct PairCase {
    /// (peer, up?)
    pub events: Vec<(u8, bool)>,
}

pub fn check_pairing(c: &PairCase) -> CheckResult {
    let mut p = crate::bmp::verif::Pairing::new();
    let mut up: std::collections::BTreeSet<u8> = Default::default();
    let mut downs = 0;
    for (i, (peer, is_up)) in c.events.iter().enumerate() {
        let addr = peer_ip(*peer);
        if *is_up {
            p.up(addr);
            up.insert(*peer % N_PEERS);
        } else {
            let forwarded = p.down(addr);
            let want = up.remove(&(*peer % N_PEERS));
            if forwarded != want {
                return Err(Failure::new("peer-pairing", format!("event #{i}: peer down for {addr} is {} although its peer up was {}", if forwarded { "forwarded" } else { "suppressed" }, if want { "reported and not yet followed by a peer down" } else { "never reported (or already closed)" })));
            }
            downs += forwarded as u32;
        }
    }
    Ok(CaseInfo::nt(downs > 0))
}

// ---------------------------------------------------------------------------
// generators
// ---------------------------------------------------------------------------

fn arb_writer() -> impl Strategy<Value = TmOp> {
    prop_oneof![
        8 => (0u8..N_PEERS, 0u8..N_PREFIX, 0u8..2, 0u8..6, 0u8..N_NH).prop_map(|(peer, prefix, path_id, attrs, nh)| TmOp::Insert { peer, prefix, path_id, attrs, nh }),
        4 => (0u8..N_PEERS, 0u8..N_PREFIX, 0u8..2).prop_map(|(peer, prefix, path_id)| TmOp::Remove { peer, prefix, path_id }),
        // FlowSpec routes: no next hop
        3 => (0u8..N_PEERS, 0u8..2, 0u8..2, 0u8..6).prop_map(|(peer, prefix, path_id, attrs)| TmOp::Insert { peer, prefix: crate::props::tmrig::FLOWSPEC_PREFIX_BASE + prefix, path_id, attrs, nh: 0 }),
        1 => (0u8..N_PEERS, 0u8..2, 0u8..2).prop_map(|(peer, prefix, path_id)| TmOp::Remove { peer, prefix: crate::props::tmrig::FLOWSPEC_PREFIX_BASE + prefix, path_id }),
        1 => (0u8..N_PEERS).prop_map(|peer| TmOp::DropPeer { peer }),
        2 => (0u8..N_PEERS, 0u8..3).prop_map(|(peer, policy)| TmOp::SoftResetIn { peer, policy }),
    ]
}

fn arb_step() -> impl Strategy<Value = Step> {
    prop_oneof![
        6 => arb_writer().prop_map(|op| Step { op, nested: None }),
        2 => Just(Step { op: TmOp::Subscribe, nested: None }),
        // a writer between the shard visits of a snapshot walk
        4 => (0u8..6, arb_writer()).prop_map(|(k, w)| Step { op: TmOp::Subscribe, nested: Some((k, w)) }),
        // a subscribe in the middle of a writer
        4 => (arb_writer(), 0u8..4).prop_map(|(w, k)| Step { op: w, nested: Some((k, TmOp::Subscribe)) }),
        1 => (0u8..4).prop_map(|k| Step { op: TmOp::Unsubscribe(k), nested: None }),
    ]
}

pub fn arb_case(max: usize) -> impl Strategy<Value = Case> {
    // a filled RIB first, so that snapshots have something to say
    (proptest::collection::vec(arb_writer().prop_map(|op| Step { op, nested: None }), 0..8), proptest::collection::vec(arb_step(), 1..max)).prop_map(|(mut a, b)| {
        a.extend(b);
        Case { steps: a }
    })
}

pub fn run(r: &Run) {
    r.set_rule(RULE);
    r.assume("TableManager calls are synchronous and hold at most one shard lock at a time, so every interleaving of real threads is equivalent to running one call completely at a point where the other holds no lock: the points marked by the guarded hooks");
    r.assume("a lost peer's routes leave the RIB without per-route withdraw events; the subscriber removes them on the PeerDown event the daemon emits right after (RFC 7854 §4.9); graceful-restart retention (stale routes of a peer that is down) is out of this check's scope");
    r.prop("subscribe-histories", r.tier.pick(150_000, 4_000_000), || arb_case(r.tier.pick(14, 24)), check);
    r.prop("peer-pairing", r.tier.pick(20_000, 300_000), || proptest::collection::vec((0u8..N_PEERS, any::<bool>()), 0..16).prop_map(|events| PairCase { events }), check_pairing);
    r.assume("snapshot-fold: the BMP client folds every Adj-RIB-In event that arrives before the end-of-snapshot marker into its per-peer snapshot map (bmp.rs apply_snapshot) and writes the map out when the marker comes (flush_peer_snapshot); cases = 1..600 generated announce/withdraw changes of several peers, families, path ids and NLRI counts (the generator of C19 `converters`), applied in order; expected: the flushed records of the chosen peer hold, per (family, prefix, path id), exactly the last announced state, and nothing for keys whose last event was a withdrawal. non-trivial := the flushed peer holds two or more routes, or the case contains a withdrawal");
    r.prop("snapshot-fold", r.tier.pick(6_000, 200_000), || super::c19::arb_conv(r.tier.pick(600, 2500)), super::c19::check_conv);
    r.assume(super::c18e::RULE);
    r.slow(|| r.prop("bmp-station", r.tier.pick(2_500, 80_000), || super::c18e::arb_case(r.tier.pick(16, 28)), super::c18e::check));
}

pub fn replay(sub: &str, case: &Value) -> Result<CheckResult, String> {
    match sub {
        "peer-pairing" => Ok(check_pairing(&decode_case(case)?)),
        "bmp-station" => super::c18e::replay(case),
        "snapshot-fold" => super::c19::replay("converters", case),
        _ => Ok(check(&decode_case(case)?)),
    }
}
