//! export-rpki — origin validation as the export path of a live session uses it
//! (shared by C12, C14 and C01).
//!
//! A real PeerSession (in_daemon/event_verif.rs Neighbor: on_established,
//! handle_prefix_update, PendingTx) observes a 3-shard TableManager whose RPKI table
//! holds generated VRPs. The neighbour's export policy — its own assignment, or the
//! global one it inherits — has one statement conditioned on the validation state.
//! What the flushed messages leave at the neighbour is compared with an own RFC 6811
//! classification of every current best path.

use super::c01::{Wire, attr_has_community};
use super::tmrig::*;
use crate::common::*;
use crate::event::verif::{Neighbor, NeighborParams};
use proptest::prelude::*;
use rustybgp_packet as packet;
use rustybgp_packet::bgp::Family;
use rustybgp_table as table;
use serde::{Deserialize, Serialize};
use serde_json::Value;
use std::collections::BTreeMap;
use std::net::{IpAddr, Ipv4Addr, Ipv6Addr};
use std::sync::Arc;

pub const RULE: &str = "export-rpki: cases = (1..6 VRPs placed relative to the rig's prefixes: covering with 0..4 fewer bits, or 1..2 more specific; max-length from the VRP's length up to 6 more; origin AS 65100, 65101, 0, the local AS or an unrelated one; plus one unrelated VRP per family so that neither table is empty), \
an eBGP neighbour whose export policy is `if rpki == S then reject` or `if rpki == S then add community 65000:2` (S = valid / invalid / not-found), attached to the neighbour itself or as the global assignment, 0..6 routes present before the session comes up, then 1..20 steps: \
insert/replace (3 eBGP sources, AS_PATH ending in 65100 or 65101), remove, deliver k queued changes to the session (handle_prefix_update), flush. \
Oracle after everything is delivered and flushed: the neighbour holds a prefix iff it has a best path and (reject policy) the RFC 6811 state of that best path (own classification from the VRP list: covering VRPs, one of them with the origin AS, not AS 0, and max-length >= route length -> valid; covered but none matching -> invalid; not covered -> not-found) differs from S; under the tagging policy every best path is held and carries 65000:2 iff its state is S. \
non-trivial := a route that changed after the session came up is in state S; distinct := distinct serialized case";

#[derive(Clone, Debug, Serialize, Deserialize)]
pub struct VrpSpec {
    /// prefix index of the rig the VRP is placed at
    pub at: u8,
    /// 0..=4: that many bits shorter than the route (covering); 5, 6: one or two bits longer (more specific)
    pub rel: u8,
    /// max-length = VRP length + extra
    pub extra: u8,
    /// 0: 65100, 1: 65101, 2: AS 0, 3: 64999, 4: the local AS
    pub asn: u8,
}

#[derive(Clone, Debug, Serialize, Deserialize)]
pub enum Step {
    W(TmOp),
    Deliver(u8),
    Flush,
}

#[derive(Clone, Debug, Serialize, Deserialize)]
pub struct Case {
    pub vrps: Vec<VrpSpec>,
    /// 0 valid, 1 invalid, 2 not-found
    pub state: u8,
    /// reject, or accept with a community
    pub tag: bool,
    /// the assignment is the neighbour's own (else global)
    pub per_peer: bool,
    pub prefill: Vec<TmOp>,
    pub steps: Vec<Step>,
}

#[derive(Clone, Copy, PartialEq, Eq, Debug)]
enum St {
    Valid,
    Invalid,
    NotFound,
}

fn net_bits(n: &packet::Nlri) -> Option<(bool, u128, u8)> {
    match n {
        packet::Nlri::V4(n) => Some((false, (u32::from(n.addr) as u128) << 96, n.mask)),
        packet::Nlri::V6(n) => Some((true, u128::from(n.addr), n.mask)),
        _ => None,
    }
}

fn top(bits: u128, len: u8) -> u128 {
    if len == 0 { 0 } else { bits & (u128::MAX << (128 - len as u32)) }
}

/// (v6, bits, len, maxlen, asn)
type Vrp = (bool, u128, u8, u8, u32);

fn vrp_of(s: &VrpSpec) -> Vrp {
    let (_, nlri) = prefix(s.at % N_PREFIX);
    let (v6, bits, rl) = net_bits(&nlri).unwrap();
    let width = if v6 { 128 } else { 32 };
    let len = if s.rel % 7 <= 4 { rl - (s.rel % 7) } else { (rl + (s.rel % 7 - 4)).min(width) };
    let maxlen = (len + s.extra % 7).min(width);
    let asn = match s.asn % 5 {
        0 => 65100,
        1 => 65101,
        2 => 0,
        3 => 64999,
        _ => LOCAL_ASN,
    };
    (v6, top(bits, len), len, maxlen, asn)
}

fn classify(vrps: &[Vrp], v6: bool, bits: u128, len: u8, origin: Option<u32>) -> St {
    let covering: Vec<&Vrp> = vrps.iter().filter(|v| v.0 == v6 && v.2 <= len && top(bits, v.2) == v.1).collect();
    if covering.is_empty() {
        St::NotFound
    } else if covering.iter().any(|v| v.4 != 0 && Some(v.4) == origin && v.3 >= len) {
        St::Valid
    } else {
        St::Invalid
    }
}

/// origin AS of an AS_PATH attribute (4-octet encoding): the last AS of a trailing AS_SEQUENCE
fn origin_as(attrs: &[packet::Attribute]) -> Option<u32> {
    let bin = attrs.iter().find(|a| a.code() == packet::Attribute::AS_PATH)?.binary()?.clone();
    let mut i = 0;
    let mut last: Option<(u8, Vec<u32>)> = None;
    while i + 2 <= bin.len() {
        let (t, n) = (bin[i], bin[i + 1] as usize);
        i += 2;
        let mut v = Vec::new();
        for _ in 0..n {
            v.push(u32::from_be_bytes(bin.get(i..i + 4)?.try_into().ok()?));
            i += 4;
        }
        last = Some((t, v));
    }
    match last {
        Some((2, v)) => v.last().copied(),
        _ => None,
    }
}

fn assignment(state: u8, tag: bool) -> (table::PolicyTable, Arc<table::PolicyAssignment>) {
    let st = match state % 3 {
        0 => table::RpkiValidationState::Valid,
        1 => table::RpkiValidationState::Invalid,
        _ => table::RpkiValidationState::NotFound,
    };
    let mut t = table::PolicyTable::new();
    let (disp, act) = if tag {
        (Some(table::Disposition::Accept), table::Actions { community: Some(table::CommunityAction { action_type: table::CommunityActionType::Add, communities: vec![0xfde8_0002] }), ..Default::default() })
    } else {
        (Some(table::Disposition::Reject), table::Actions::default())
    };
    t.add_statement("ov", vec![table::ConditionConfig::Rpki(st)], disp, act).expect("statement loads");
    t.add_policy("ovp", vec!["ov".to_string()]).expect("policy loads");
    let a = t.build_assignment(None, "global", table::PolicyDirection::Export, table::Disposition::Accept, vec!["ovp".to_string()]).expect("assignment builds");
    (t, a)
}

pub fn check(c: &Case) -> CheckResult {
    let rt = tokio::runtime::Builder::new_current_thread().enable_all().build().map_err(|e| Failure::new("harness", e.to_string()))?;
    rt.block_on(run_case(c))
}

/// install the generated VRPs and one unrelated VRP per family; returns the list the model uses
fn install_vrps(rig: &Rig, specs: &[VrpSpec]) -> Vec<Vrp> {
    let mut vrps: Vec<Vrp> = specs.iter().map(vrp_of).collect();
    vrps.push((false, (u32::from(Ipv4Addr::new(203, 0, 113, 0)) as u128) << 96, 24, 24, 64999));
    vrps.push((true, 0x2001_0db9u128 << 96, 32, 48, 64999));
    let cache = Arc::new(IpAddr::V4(Ipv4Addr::new(192, 0, 2, 200)));
    let roas: Vec<(packet::IpNet, Arc<table::Roa>)> = vrps
        .iter()
        .map(|(v6, bits, len, maxlen, asn)| {
            let addr = if *v6 { IpAddr::V6(Ipv6Addr::from(*bits)) } else { IpAddr::V4(Ipv4Addr::from((*bits >> 96) as u32)) };
            (packet::IpNet::new(addr, *len), Arc::new(table::Roa::new(*maxlen, *asn, cache.clone())))
        })
        .collect();
    rig.tm.rpki_insert(roas);
    vrps
}

async fn run_case(c: &Case) -> CheckResult {
    let rig = Rig::new(false);
    let vrps = install_vrps(&rig, &c.vrps);
    let (_keep, a) = assignment(c.state, c.tag);
    if !c.per_peer {
        rig.tm.export_policy.store(Some(a.clone()));
    }
    for op in &c.prefill {
        rig.apply(op);
    }
    let params = NeighborParams {
        remote_addr: IpAddr::V4(Ipv4Addr::new(10, 0, 0, 9)),
        role: table::PeerRole::Ebgp,
        local_asn: LOCAL_ASN,
        local_addr: IpAddr::V4(Ipv4Addr::new(10, 0, 0, 1)),
        confederation_id: 0,
        cluster_id: None,
        families: vec![Family::IPV4, Family::IPV6],
        effective_max: 1,
        export_policy: if c.per_peer { Some(a.clone()) } else { None },
    };
    let mut n = Neighbor::establish(&rig.tm, params).await;
    let mut w = Wire::new(false);
    // prefixes written after the session came up
    let mut live: Vec<u8> = Vec::new();
    for s in &c.steps {
        match s {
            Step::W(op) => {
                if let TmOp::Insert { prefix, .. } | TmOp::Remove { prefix, .. } = op
                    && !live.contains(&(prefix % N_PREFIX))
                {
                    live.push(prefix % N_PREFIX);
                }
                catch(|| rig.apply(op)).map_err(|p| p.into_failure("table-manager"))?;
            }
            Step::Deliver(k) => {
                n.deliver(*k as usize).await;
            }
            Step::Flush => {
                let msgs = catch(|| n.flush()).map_err(|p| p.into_failure("drain_messages"))?;
                w.send(msgs)?;
            }
        }
    }
    while n.deliver(64).await > 0 {}
    let msgs = catch(|| n.flush()).map_err(|p| p.into_failure("drain_messages"))?;
    w.send(msgs)?;

    let want_state = match c.state % 3 {
        0 => St::Valid,
        1 => St::Invalid,
        _ => St::NotFound,
    };
    let mut info = CaseInfo::trivial();
    // expected view: one entry per prefix with a best path
    let mut expect: BTreeMap<String, (St, bool)> = BTreeMap::new();
    for family in [Family::IPV4, Family::IPV6] {
        for ch in rig.tm.collect_loc_rib_paths(family) {
            let Some(best) = ch.new_best() else { continue };
            let Some((v6, bits, len)) = net_bits(&ch.net) else { continue };
            let st = classify(&vrps, v6, bits, len, origin_as(&best.attr));
            let is_live = (0..N_PREFIX).any(|i| live.contains(&i) && prefix(i).1 == ch.net);
            expect.insert(format!("{family:?}|{:?}|0", ch.net), (st, is_live));
        }
    }
    for (k, (st, is_live)) in &expect {
        let held = w.mirror.get(k);
        let in_s = *st == want_state;
        let what = if *is_live { "changed-after-establishment" } else { "initial-dump-only" };
        if c.tag {
            let Some((_, attrs)) = held else {
                return Err(Failure::new("export-rpki", format!("{k} has a best path (state {st:?}) but the neighbour does not hold it under a policy that rejects nothing")).with("what", "missing").with("route", what).with("per_peer", c.per_peer));
            };
            let tagged = attr_has_community(attrs, 0xfde8_0002);
            if tagged != in_s {
                return Err(Failure::new("export-rpki", format!("{k}: best path has validation state {st:?}, the policy tags state {want_state:?}; the neighbour holds it {} the community", if tagged { "with" } else { "without" })).with("what", if tagged { "tagged-wrongly" } else { "not-tagged" }).with("route", what).with("per_peer", c.per_peer));
            }
        } else if held.is_some() == in_s {
            return Err(Failure::new("export-rpki", format!("{k}: best path has validation state {st:?}, the policy rejects state {want_state:?}; the neighbour {} it", if held.is_some() { "holds" } else { "does not hold" })).with("what", if held.is_some() { "not-rejected" } else { "rejected-wrongly" }).with("route", what).with("per_peer", c.per_peer));
        }
        if in_s && *is_live {
            info.nontrivial = true;
        }
        info.classes.push(match st {
            St::Valid => "state-valid",
            St::Invalid => "state-invalid",
            St::NotFound => "state-not-found",
        });
    }
    if let Some(k) = w.mirror.keys().find(|k| !expect.contains_key(*k)) {
        return Err(Failure::new("export-rpki", format!("the neighbour holds {k}, which has no best path any more")).with("what", "stale").with("per_peer", c.per_peer));
    }
    info.classes.push(if c.per_peer { "per-peer-assignment" } else { "global-assignment" });
    info.classes.push(if c.tag { "tagging-policy" } else { "rejecting-policy" });
    n.close(&rig.tm);
    Ok(info)
}

fn arb_writer() -> impl Strategy<Value = TmOp> {
    prop_oneof![
        10 => (0u8..N_PEERS, 0u8..N_PREFIX, 0u8..6, 0u8..N_NH).prop_map(|(peer, prefix, attrs, nh)| TmOp::Insert { peer, prefix, path_id: 0, attrs, nh }),
        3 => (0u8..N_PEERS, 0u8..N_PREFIX).prop_map(|(peer, prefix)| TmOp::Remove { peer, prefix, path_id: 0 }),
    ]
}

pub fn arb_case(max: usize) -> impl Strategy<Value = Case> {
    let vrp = (0u8..3, 0u8..7, 0u8..7, 0u8..5).prop_map(|(at, rel, extra, asn)| VrpSpec { at, rel, extra, asn });
    let step = prop_oneof![
        6 => arb_writer().prop_map(Step::W),
        2 => (1u8..4).prop_map(Step::Deliver),
        2 => Just(Step::Flush),
    ];
    (proptest::collection::vec(vrp, 1..6), 0u8..3, any::<bool>(), any::<bool>(), proptest::collection::vec(arb_writer(), 0..6), proptest::collection::vec(step, 1..max), 0u8..N_PREFIX).prop_map(|(mut vrps, state, tag, per_peer, mut prefill, mut steps, base)| {
        // three prefixes per case; the VRPs sit at the same three
        let squeeze = |op: &mut TmOp| {
            if let TmOp::Insert { prefix, .. } | TmOp::Remove { prefix, .. } = op {
                *prefix = (base + (*prefix % 3)) % N_PREFIX;
            }
        };
        prefill.iter_mut().for_each(squeeze);
        for s in steps.iter_mut() {
            if let Step::W(w) = s {
                squeeze(w);
            }
        }
        for v in vrps.iter_mut() {
            v.at = (base + v.at % 3) % N_PREFIX;
        }
        Case { vrps, state, tag, per_peer, prefill, steps }
    })
}

pub fn replay(case: &Value) -> Result<CheckResult, String> {
    Ok(check(&decode_case(case)?))
}

// ---------------------------------------------------------------------------
// api-rpki: the state shown by the API (TableManager::collect_paths)
// ---------------------------------------------------------------------------

pub const API_RULE: &str = "api-rpki: VRPs as in export-rpki; 1..14 writes into a 3-shard TableManager: paths of 3 peers (2 path ids) and of the API / kernel sources, with an AS_PATH ending in 65100 / 65101 or an empty AS_PATH (no origin AS), removes. Then TableManager::collect_paths (what ListPath shows) for both families: every listed path carries a validation result, and its state is the own RFC 6811 classification of (prefix, origin AS of that path); for a path without origin AS both readings the statement leaves open are accepted for that path - no origin (never valid) or the local AS of the session it came from (0 for API / kernel paths) - but nothing else, in particular not the state of another path of the same prefix. non-trivial := a prefix lists two or more paths without origin AS from sources with different local AS; distinct := distinct serialized case";

#[derive(Clone, Debug, Serialize, Deserialize)]
pub struct ApiCase {
    pub vrps: Vec<VrpSpec>,
    pub writes: Vec<TmOp>,
}

pub fn check_api(c: &ApiCase) -> CheckResult {
    let rig = Rig::new(false);
    let vrps = install_vrps(&rig, &c.vrps);
    for op in &c.writes {
        catch(|| rig.apply(op)).map_err(|p| p.into_failure("table-manager"))?;
    }
    let mut info = CaseInfo::trivial();
    for family in [Family::IPV4, Family::IPV6] {
        let listed = catch(|| rig.tm.collect_paths(table::TableQuery::Global, family, Vec::new(), true)).map_err(|p| p.into_failure("collect_paths"))?;
        for d in &listed {
            let Some((v6, bits, len)) = net_bits(&d.net) else { continue };
            let mut originless: Vec<u32> = Vec::new();
            for p in &d.paths {
                let origin = origin_as(&p.attr);
                let allowed: Vec<St> = match origin {
                    Some(o) => vec![classify(&vrps, v6, bits, len, Some(o))],
                    None => {
                        originless.push(p.source.local_asn);
                        vec![classify(&vrps, v6, bits, len, None), classify(&vrps, v6, bits, len, Some(p.source.local_asn))]
                    }
                };
                let got = match p.validation.as_ref().map(|v| v.state) {
                    Some(table::RpkiValidationState::Valid) => Some(St::Valid),
                    Some(table::RpkiValidationState::Invalid) => Some(St::Invalid),
                    Some(table::RpkiValidationState::NotFound) => Some(St::NotFound),
                    _ => None,
                };
                if !got.is_some_and(|g| allowed.contains(&g)) {
                    let who = if p.source.is_local() { "api" } else if p.source.is_kernel() { "kernel" } else { "peer" };
                    return Err(Failure::new("api-rpki", format!("{:?}: the path of {} ({who} source, local AS {}, origin AS {origin:?}) is listed with validation state {got:?}; RFC 6811 over the installed VRPs gives {allowed:?}", d.net, p.source.remote_addr, p.source.local_asn)).with("source", who).with("originless", origin.is_none()).with("paths", d.paths.len().min(3)));
                }
                info.classes.push(match got {
                    Some(St::Valid) => "listed-valid",
                    Some(St::Invalid) => "listed-invalid",
                    _ => "listed-not-found",
                });
            }
            originless.sort();
            originless.dedup();
            if originless.len() >= 2 {
                info.nontrivial = true;
            }
        }
    }
    Ok(info)
}

pub fn arb_api_case() -> impl Strategy<Value = ApiCase> {
    let vrp = (0u8..3, 0u8..7, 0u8..7, 0u8..5).prop_map(|(at, rel, extra, asn)| VrpSpec { at, rel, extra, asn });
    let attrs = prop_oneof![1 => 0u8..6, 1 => 60u8..66];
    let w = prop_oneof![
        6 => (0u8..N_PEERS, 0u8..N_PREFIX, 0u8..2, attrs.clone(), 0u8..N_NH).prop_map(|(peer, prefix, path_id, attrs, nh)| TmOp::Insert { peer, prefix, path_id, attrs, nh }),
        4 => (0u8..2, 0u8..N_PREFIX, attrs, 0u8..N_NH).prop_map(|(kind, prefix, attrs, nh)| TmOp::InsertLocal { kind, prefix, attrs, nh }),
        1 => (0u8..N_PEERS, 0u8..N_PREFIX, 0u8..2).prop_map(|(peer, prefix, path_id)| TmOp::Remove { peer, prefix, path_id }),
    ];
    (proptest::collection::vec(vrp, 1..6), proptest::collection::vec(w, 1..14), 0u8..N_PREFIX).prop_map(|(mut vrps, mut writes, base)| {
        for op in writes.iter_mut() {
            if let TmOp::Insert { prefix, .. } | TmOp::Remove { prefix, .. } | TmOp::InsertLocal { prefix, .. } = op {
                *prefix = (base + (*prefix % 2)) % N_PREFIX;
            }
        }
        for v in vrps.iter_mut() {
            v.at = (base + v.at % 2) % N_PREFIX;
        }
        ApiCase { vrps, writes }
    })
}

pub fn replay_api(case: &Value) -> Result<CheckResult, String> {
    Ok(check_api(&decode_case(case)?))
}
