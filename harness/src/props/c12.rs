//! C12 — RPKI origin validation returns exactly the RFC 6811 state.
//!
//! Generator: one route prefix and 0..8 VRPs placed *relative to the route* on a
//! prefix tree (ancestors, equal, descendants, siblings, unrelated), lengths on and
//! off byte boundaries, IPv4 and IPv6, colliding AS numbers {0, A, B}, max-lengths
//! around the route length, all origin derivations; plus histories of
//! insert / remove / drop-source / reset over two caches.
//! Oracle: brute-force RFC 6811 on bit strings + a model set keyed by
//! (cache, prefix, max-length, AS).

use crate::common::*;
use proptest::prelude::*;
use rustybgp_packet as packet;
use rustybgp_table as table;
use serde::{Deserialize, Serialize};
use serde_json::Value;
use std::collections::BTreeSet;
use std::net::{IpAddr, Ipv4Addr, Ipv6Addr};
use std::sync::Arc;

pub const RULE: &str = "cases: (route prefix, VRP set placed relative to the route on a prefix tree, origin derivation) \
and VRP histories (insert/remove/drop-source/reset over two caches), each followed by validate(); plus bounded-exhaustive \
enumeration of every (route, VRP[, VRP]) over small bit windows placed on and across byte boundaries. \
non-trivial := at least one VRP strictly shorter than the route covers it, or a more-specific / sibling VRP is present \
(the shapes where a byte-prefix trie walk and RFC 6811 'covering' differ); distinct := distinct serialized case";

#[derive(Clone, Debug, Serialize, Deserialize, PartialEq, Eq, PartialOrd, Ord)]
pub struct Vrp {
    pub cache: u8,
    /// prefix bits, left aligned in 128 bits (IPv4 uses the top 32)
    #[serde(with = "crate::common::hex128")]
    pub bits: u128,
    pub len: u8,
    pub maxlen: u8,
    pub asn: u32,
}

#[derive(Clone, Debug, Serialize, Deserialize)]
pub enum Origin {
    /// AS_PATH whose last segment is an AS_SEQUENCE ending in this AS
    SeqTail { lead: Vec<u32>, asn: u32 },
    /// last segment is an AS_SET
    SetTail { seq: Vec<u32>, set: Vec<u32> },
    /// AS_PATH attribute present but empty
    EmptyPath,
    /// no AS_PATH attribute at all
    NoPath,
}

#[derive(Clone, Debug, Serialize, Deserialize)]
pub enum Op {
    Insert(Vrp),
    Remove(Vrp),
    DropSource(u8),
    Reset(u8, Vec<Vrp>),
    Validate,
}

#[derive(Clone, Debug, Serialize, Deserialize)]
pub struct Case {
    pub v6: bool,
    #[serde(with = "crate::common::hex128")]
    pub route_bits: u128,
    pub route_len: u8,
    pub origin: Origin,
    pub local_asn: u32,
    pub ops: Vec<Op>,
}

fn width(v6: bool) -> u8 {
    if v6 { 128 } else { 32 }
}

fn mask_bits(bits: u128, len: u8) -> u128 {
    if len == 0 {
        0
    } else if len >= 128 {
        bits
    } else {
        bits & (!0u128 << (128 - len as u32))
    }
}

fn ipnet(v6: bool, bits: u128, len: u8) -> packet::IpNet {
    if v6 {
        packet::IpNet::new(IpAddr::V6(Ipv6Addr::from(bits)), len)
    } else {
        packet::IpNet::new(IpAddr::V4(Ipv4Addr::from((bits >> 96) as u32)), len)
    }
}

fn nlri(v6: bool, bits: u128, len: u8) -> packet::Nlri {
    if v6 {
        packet::Nlri::V6(packet::bgp::Ipv6Net {
            addr: Ipv6Addr::from(bits),
            mask: len,
        })
    } else {
        packet::Nlri::V4(packet::bgp::Ipv4Net {
            addr: Ipv4Addr::from((bits >> 96) as u32),
            mask: len,
        })
    }
}

fn ipnet_key(n: &packet::IpNet) -> (u128, u8) {
    match n {
        packet::IpNet::V4(n) => ((u32::from(n.addr) as u128) << 96, n.mask),
        packet::IpNet::V6(n) => (u128::from(n.addr), n.mask),
    }
}

fn as_path_attr(segs: &[(u8, &[u32])]) -> packet::Attribute {
    let mut bin = Vec::new();
    for (t, asns) in segs {
        bin.push(*t);
        bin.push(asns.len() as u8);
        for a in *asns {
            bin.extend_from_slice(&a.to_be_bytes());
        }
    }
    packet::Attribute::new_with_bin(packet::Attribute::AS_PATH, bin).unwrap()
}

fn covers(v: &Vrp, route_bits: u128, route_len: u8) -> bool {
    v.len <= route_len && mask_bits(route_bits, v.len) == v.bits
}

#[derive(Clone, Copy, PartialEq, Eq, Debug)]
enum St {
    Valid,
    Invalid,
    NotFound,
}

fn model_state(vrps: &BTreeSet<Vrp>, route_bits: u128, route_len: u8, origin: Option<u32>) -> St {
    let cov: Vec<&Vrp> = vrps.iter().filter(|v| covers(v, route_bits, route_len)).collect();
    if cov.is_empty() {
        return St::NotFound;
    }
    let ok = cov
        .iter()
        .any(|v| v.asn != 0 && Some(v.asn) == origin && v.maxlen >= route_len);
    if ok { St::Valid } else { St::Invalid }
}

pub fn check(c: &Case) -> CheckResult {
    let w = width(c.v6);
    let fam = if c.v6 {
        packet::Family::IPV6
    } else {
        packet::Family::IPV4
    };
    let caches: Vec<Arc<IpAddr>> = (0..3u8)
        .map(|i| Arc::new(IpAddr::V4(Ipv4Addr::new(192, 0, 2, 1 + i))))
        .collect();
    let mk_roa = |v: &Vrp| Arc::new(table::Roa::new(v.maxlen, v.asn, caches[v.cache as usize % 3].clone()));
    let source = Arc::new(table::Source::new(
        IpAddr::V4(Ipv4Addr::new(10, 0, 0, 1)),
        IpAddr::V4(Ipv4Addr::new(10, 0, 0, 254)),
        65100,
        c.local_asn,
        Ipv4Addr::new(1, 1, 1, 1),
        table::PeerRole::Ebgp,
    ));
    // attributes + expected origin AS (None = "NONE" of RFC 6811, matches nothing)
    let mut attrs = vec![packet::Attribute::new_with_value(packet::Attribute::ORIGIN, 0).unwrap()];
    let (origin_rfc, lenient): (Option<u32>, bool) = match &c.origin {
        Origin::SeqTail { lead, asn } => {
            let mut seq = lead.clone();
            seq.push(*asn);
            attrs.push(as_path_attr(&[(2, &seq)]));
            (Some(*asn), false)
        }
        Origin::SetTail { seq, set } => {
            if seq.is_empty() {
                attrs.push(as_path_attr(&[(1, set)]));
            } else {
                attrs.push(as_path_attr(&[(2, seq), (1, set)]));
            }
            // RFC 6811: origin is NONE. The statement does not fix this derivation
            // (GoBGP reports NotFound, this code falls back to the local AS), so the
            // oracle accepts any of the three for this origin kind.
            (None, true)
        }
        Origin::EmptyPath => {
            attrs.push(as_path_attr(&[]));
            (Some(c.local_asn), false)
        }
        Origin::NoPath => (Some(c.local_asn), false),
    };
    let attrs = Arc::new(attrs);
    let route = nlri(c.v6, c.route_bits, c.route_len);

    let mut t = table::RpkiTable::new();
    let mut model: BTreeSet<Vrp> = BTreeSet::new();
    let norm = |v: &Vrp| Vrp {
        cache: v.cache % 3,
        bits: mask_bits(v.bits, v.len.min(w)),
        len: v.len.min(w),
        maxlen: v.maxlen.max(v.len.min(w)).min(w),
        asn: v.asn,
    };

    let mut nontrivial = false;
    let mut validations = 0u32;
    let mut had_mutation_after_insert = false;

    let mut do_validate = |t: &table::RpkiTable, model: &BTreeSet<Vrp>, step: usize| -> Result<(), Failure> {
        let got = t.validate(&source, &route, &attrs);
        let expect = model_state(model, c.route_bits, c.route_len, origin_rfc);
        let mut alts = vec![expect];
        if lenient {
            alts.push(model_state(model, c.route_bits, c.route_len, Some(c.local_asn)));
            alts.push(St::NotFound);
        }
        let shorter_cover = model
            .iter()
            .any(|v| v.len < c.route_len && covers(v, c.route_bits, c.route_len));
        let longer_or_sibling = model.iter().any(|v| !covers(v, c.route_bits, c.route_len));
        let got_state = match &got {
            None => {
                // "no table for this family": only acceptable when no VRP of the family exists
                if model.is_empty() {
                    St::NotFound
                } else {
                    return Err(Failure::new("rfc6811", format!("step {step}: validate() returned None with {} VRPs installed", model.len()))
                        .with("expected", format!("{expect:?}"))
                        .with("got", "None"));
                }
            }
            Some(v) => match v.state {
                table::RpkiValidationState::Valid => St::Valid,
                table::RpkiValidationState::Invalid => St::Invalid,
                table::RpkiValidationState::NotFound => St::NotFound,
                _ => {
                    return Err(Failure::new("rfc6811", format!("step {step}: validate() returned state None"))
                        .with("expected", format!("{expect:?}"))
                        .with("got", "StateNone"));
                }
            },
        };
        if !alts.contains(&got_state) {
            return Err(Failure::new(
                "rfc6811",
                format!(
                    "step {step}: route {}/{} origin {:?}: expected {:?}, got {:?} (VRPs: {:?})",
                    if c.v6 { Ipv6Addr::from(c.route_bits).to_string() } else { Ipv4Addr::from((c.route_bits >> 96) as u32).to_string() },
                    c.route_len, origin_rfc, expect, got_state,
                    model.iter().map(|v| format!("{}/{}-{} AS{} c{}", if c.v6 { Ipv6Addr::from(v.bits).to_string() } else { Ipv4Addr::from((v.bits >> 96) as u32).to_string() }, v.len, v.maxlen, v.asn, v.cache)).collect::<Vec<_>>()
                ),
            )
            .with("expected", format!("{expect:?}"))
            .with("got", format!("{got_state:?}"))
            .with("shorter_cover_present", shorter_cover)
            .with("non_covering_present", longer_or_sibling));
        }
        if let Some(v) = &got {
            // every VRP listed must cover the route; every "matched" one must match
            for (list, name) in [(&v.matched, "matched"), (&v.unmatched_asn, "unmatched_asn"), (&v.unmatched_length, "unmatched_length")] {
                for (n, roa) in list.iter() {
                    let (bits, len) = ipnet_key(n);
                    let vv = Vrp { cache: 0, bits, len, maxlen: roa.max_length, asn: roa.as_number };
                    if !covers(&vv, c.route_bits, c.route_len) {
                        return Err(Failure::new("rfc6811-lists", format!("step {step}: {name} lists non-covering VRP {n}"))
                            .with("list", name));
                    }
                    let in_model = model.iter().any(|m| m.bits == bits && m.len == len && m.maxlen == roa.max_length && m.asn == roa.as_number);
                    if !in_model {
                        return Err(Failure::new("rfc6811-lists", format!("step {step}: {name} lists VRP {n} not installed")).with("list", name));
                    }
                    if name == "matched" && !lenient {
                        let m = roa.as_number != 0 && Some(roa.as_number) == origin_rfc && roa.max_length >= c.route_len;
                        if !m {
                            return Err(Failure::new("rfc6811-lists", format!("step {step}: matched lists VRP {n} AS{} max {} that does not match", roa.as_number, roa.max_length)).with("list", name));
                        }
                    }
                }
            }
        }
        if shorter_cover || longer_or_sibling {
            nontrivial = true;
        }
        validations += 1;
        Ok(())
    };

    for (i, op) in c.ops.iter().enumerate() {
        match op {
            Op::Insert(v) => {
                let v = norm(v);
                t.insert(ipnet(c.v6, v.bits, v.len), mk_roa(&v));
                model.insert(v);
            }
            Op::Remove(v) => {
                let v = norm(v);
                let roa = mk_roa(&v);
                t.remove(ipnet(c.v6, v.bits, v.len), &roa);
                model.remove(&v);
                had_mutation_after_insert = true;
            }
            Op::DropSource(cidx) => {
                let cidx = cidx % 3;
                t.drop_source(caches[cidx as usize].clone());
                model.retain(|v| v.cache != cidx);
                had_mutation_after_insert = true;
            }
            Op::Reset(cidx, vs) => {
                let cidx = cidx % 3;
                t.drop_source(caches[cidx as usize].clone());
                model.retain(|v| v.cache != cidx);
                for v in vs {
                    let mut v = norm(v);
                    v.cache = cidx;
                    t.insert(ipnet(c.v6, v.bits, v.len), mk_roa(&v));
                    model.insert(v);
                }
                had_mutation_after_insert = true;
            }
            Op::Validate => {
                do_validate(&t, &model, i)?;
            }
        }
        // set semantics: iter() == model, keyed (cache, prefix, maxlen, AS)
        let mut got: Vec<Vrp> = t
            .iter(fam)
            .map(|(n, r)| {
                let (bits, len) = ipnet_key(&n);
                let cache = caches.iter().position(|a| Arc::ptr_eq(a, &r.source)).unwrap_or(99) as u8;
                Vrp { cache, bits, len, maxlen: r.max_length, asn: r.as_number }
            })
            .collect();
        got.sort();
        let want: Vec<Vrp> = model.iter().cloned().collect();
        if got != want {
            return Err(Failure::new(
                "vrp-set",
                format!("step {i} ({op:?}): installed VRPs differ from the model set: got {} entries, want {}", got.len(), want.len()),
            )
            .with("got_len", got.len())
            .with("want_len", want.len()));
        }
        // the other family must stay empty
        let other = if c.v6 { packet::Family::IPV4 } else { packet::Family::IPV6 };
        if t.iter(other).count() != 0 {
            return Err(Failure::new("vrp-set", format!("step {i}: VRP leaked into the other family")));
        }
    }
    do_validate(&t, &model, c.ops.len())?;
    let lenient_case = lenient;
    Ok(CaseInfo::nt(nontrivial)
        .class_if(c.v6, "ipv6")
        .class_if(!c.v6, "ipv4")
        .class_if(c.route_len % 8 != 0, "route-len-off-byte-boundary")
        .class_if(had_mutation_after_insert, "history-with-remove/drop/reset")
        .class_if(lenient_case, "origin-as-set-tail")
        .class_if(matches!(c.origin, Origin::EmptyPath | Origin::NoPath), "origin-local-as")
        .class_if(validations > 1, "multi-validate"))
}

// ---------------------------------------------------------------------------
// generators
// ---------------------------------------------------------------------------

const AS_A: u32 = 64500;
const AS_B: u32 = 64501;

fn arb_asn() -> impl Strategy<Value = u32> {
    prop_oneof![3 => Just(AS_A), 2 => Just(AS_B), 1 => Just(0u32), 1 => Just(4_200_000_000u32)]
}

fn arb_len(w: u8) -> BoxedStrategy<u8> {
    prop_oneof![
        4 => 0..=w,
        2 => prop_oneof![Just(0u8), Just(1), Just(7), Just(8), Just(9), Just(15), Just(16), Just(17), Just(23), Just(24), Just(25), Just(w - 1), Just(w)],
    ]
    .boxed()
}

/// A VRP placed relative to the route.
fn arb_vrp(route_bits: u128, route_len: u8, w: u8) -> BoxedStrategy<Vrp> {
    (0u8..5, any::<u128>(), any::<u8>(), any::<u8>(), 0u8..5, arb_asn(), 0u8..2)
        .prop_map(move |(rel, rnd, l1, l2, mk, asn, cache)| {
            let (bits, len) = match rel {
                // ancestor (strictly shorter) or equal
                0 | 1 => {
                    let len = if route_len == 0 { 0 } else if rel == 1 { route_len } else { l1 % route_len };
                    (mask_bits(route_bits, len), len)
                }
                // descendant: shares the route's bits, longer
                2 => {
                    let extra = if route_len >= w { 0 } else { 1 + l1 % (w - route_len) };
                    let len = route_len + extra;
                    let low = if route_len >= 128 { 0 } else { rnd >> route_len as u32 };
                    (mask_bits(mask_bits(route_bits, route_len) | low, len), len)
                }
                // sibling: differs in one bit k < max(route_len,1)
                3 => {
                    let span = route_len.max(1);
                    let k = l1 % span; // bit index that differs
                    let len = (k + 1).max((k + 1) + l2 % (w - k)); // >= k+1
                    let len = len.min(w);
                    let flipped = route_bits ^ (1u128 << (127 - k as u32));
                    (mask_bits(flipped, len), len)
                }
                // unrelated
                _ => {
                    let len = l1 % (w + 1);
                    let b = if w == 32 { rnd & (!0u128 << 96) } else { rnd };
                    (mask_bits(b, len), len)
                }
            };
            let maxlen = match mk {
                0 => len,
                1 => route_len.max(len),
                2 => route_len.saturating_sub(1).max(len),
                3 => w,
                _ => (len as u16 + (l2 as u16 % (w as u16 - len as u16 + 1))) as u8,
            };
            Vrp { cache, bits, len, maxlen: maxlen.min(w), asn }
        })
        .boxed()
}

fn arb_origin() -> impl Strategy<Value = Origin> {
    prop_oneof![
        6 => (proptest::collection::vec(arb_asn(), 0..3), arb_asn()).prop_map(|(lead, asn)| Origin::SeqTail { lead, asn }),
        1 => (proptest::collection::vec(arb_asn(), 0..2), proptest::collection::vec(arb_asn(), 1..3)).prop_map(|(seq, set)| Origin::SetTail { seq, set }),
        1 => Just(Origin::EmptyPath),
        1 => Just(Origin::NoPath),
    ]
}

pub fn arb_case(max_vrps: usize, history: bool) -> BoxedStrategy<Case> {
    (any::<bool>(), any::<u128>())
        .prop_flat_map(move |(v6, rnd)| {
            let w = width(v6);
            (Just(v6), Just(rnd), arb_len(w))
        })
        .prop_flat_map(move |(v6, rnd, route_len)| {
            let w = width(v6);
            let base = if v6 { rnd } else { rnd & (!0u128 << 96) };
            let route_bits = mask_bits(base, route_len);
            let vrp = arb_vrp(route_bits, route_len, w);
            let op = if history {
                prop_oneof![
                    6 => vrp.clone().prop_map(Op::Insert),
                    2 => vrp.clone().prop_map(Op::Remove),
                    1 => (0u8..2).prop_map(Op::DropSource),
                    1 => ((0u8..2), proptest::collection::vec(vrp.clone(), 0..3)).prop_map(|(c, v)| Op::Reset(c, v)),
                    2 => Just(Op::Validate),
                ]
                .boxed()
            } else {
                vrp.clone().prop_map(Op::Insert).boxed()
            };
            (
                Just(v6),
                Just(route_bits),
                Just(route_len),
                arb_origin(),
                prop_oneof![Just(AS_A), Just(AS_B), Just(65000u32)],
                proptest::collection::vec(op, 0..=max_vrps),
            )
        })
        .prop_map(|(v6, route_bits, route_len, origin, local_asn, ops)| Case { v6, route_bits, route_len, origin, local_asn, ops })
        .prop_map(|mut c| {
            // removal ops are only interesting when they can hit: retarget half of them at an inserted VRP
            let mut inserted: Vec<Vrp> = Vec::new();
            for (i, op) in c.ops.iter_mut().enumerate() {
                match op {
                    Op::Insert(v) => inserted.push(v.clone()),
                    Op::Remove(v) => {
                        if !inserted.is_empty() && i % 3 != 0 {
                            *v = inserted[(v.len as usize) % inserted.len()].clone();
                        }
                    }
                    _ => {}
                }
            }
            c
        })
        .boxed()
}

/// Every (route, 1 or 2 VRPs) over a window of `wbits` bits starting at bit `off`.
fn exhaustive_cases(v6: bool, off: u8, wbits: u8, pairs: bool) -> impl Iterator<Item = Case> + Send {
    let base: u128 = 0xA5C3_3C5A_96E1_1E69_5AA5_C33C_6996_E11Eu128;
    let base = if v6 { base } else { base & (!0u128 << 96) };
    let w = width(v6);
    // all prefixes: len in off..=off+wbits under the common base, plus ancestors len < off (a few)
    let mut prefixes: Vec<(u128, u8)> = Vec::new();
    for l in 0..=wbits {
        let len = off + l;
        for v in 0..(1u128 << l) {
            let bits = if l == 0 {
                mask_bits(base, off)
            } else {
                mask_bits(base, off) | (v << (128 - len as u32))
            };
            prefixes.push((bits, len));
        }
    }
    if off > 0 {
        prefixes.push((mask_bits(base, off - 1), off - 1));
        prefixes.push((0, 0));
    }
    let prefixes = Arc::new(prefixes);
    let maxlens = move |len: u8| -> Vec<u8> {
        let mut m = vec![len, (len + 1).min(w), (off + wbits).min(w), w];
        m.sort();
        m.dedup();
        m
    };
    let mut vrps: Vec<Vrp> = Vec::new();
    for (bits, len) in prefixes.iter() {
        for ml in maxlens(*len) {
            for asn in [AS_A, AS_B, 0] {
                vrps.push(Vrp { cache: 0, bits: *bits, len: *len, maxlen: ml, asn });
            }
        }
    }
    let vrps = Arc::new(vrps);
    let p2 = prefixes.clone();
    let n_v = vrps.len();
    (0..p2.len()).flat_map(move |ri| {
        let (rb, rl) = p2[ri];
        let vrps = vrps.clone();
        let total = if pairs { n_v * n_v } else { n_v };
        (0..total).filter_map(move |k| {
            let (i, j) = (k % n_v, k / n_v);
            if pairs && j <= i {
                return None;
            }
            let mut ops = vec![Op::Insert(vrps[i].clone())];
            if pairs {
                let mut b = vrps[j].clone();
                b.cache = 1;
                ops.push(Op::Insert(b));
            }
            Some(Case {
                v6,
                route_bits: rb,
                route_len: rl,
                origin: Origin::SeqTail { lead: vec![], asn: AS_A },
                local_asn: 65000,
                ops,
            })
        })
    })
}

pub fn run(r: &Run) {
    r.set_rule(RULE);
    r.assume("VRP prefixes are canonical (host bits zero) and len <= maxlen <= address width, as a conforming RTR cache sends them");
    r.assume("for an AS_PATH ending in an AS_SET the statement does not fix the origin derivation: RFC 6811 NONE, local-AS fallback and NotFound are all accepted");
    let q = r.tier == Tier::Quick;
    r.prop("vrp-set-vs-route", r.tier.pick(300_000, 4_000_000), || arb_case(8, false), check);
    r.prop("vrp-history", r.tier.pick(150_000, 2_000_000), || arb_case(14, true), check);
    // the VRP set validation runs on is what the RTR client installed: the same scripted caches as C13
    // (full responses incl. empty ones after a Cache Reset, incremental rounds, session loss), judged
    // by the same fold, so that glue that leaves stale VRPs in the table is visible here too
    r.assume("rtr-fed-vrps: shared with C13 (cache scripts through RpkiClient::serve_inner); validation results follow from the VRP set, which is what is compared");
    r.prop("rtr-fed-vrps", r.tier.pick(6_000, 120_000), crate::props::c13::arb_case, crate::props::c13::check);
    // "the validation state used by policy": an export policy conditioned on the state, evaluated by a live session
    r.assume(crate::props::rpkiexp::RULE);
    r.prop("export-rpki", r.tier.pick(30_000, 600_000), || crate::props::rpkiexp::arb_case(r.tier.pick(20, 36)), crate::props::rpkiexp::check);
    // "... and shown by the API"
    r.assume(crate::props::rpkiexp::API_RULE);
    r.prop("api-rpki", r.tier.pick(60_000, 1_500_000), crate::props::rpkiexp::arb_api_case, crate::props::rpkiexp::check_api);
    // bounded-exhaustive windows: on a byte boundary, across one, deep in the address
    let windows: Vec<(bool, u8, u8, bool)> = if q {
        vec![(false, 0, 5, false), (false, 6, 5, false), (false, 21, 5, false), (true, 61, 4, false), (true, 123, 5, false), (false, 14, 2, true), (false, 0, 2, true), (true, 63, 2, true)]
    } else {
        vec![
            (false, 0, 6, false), (false, 5, 6, false), (false, 13, 6, false), (false, 26, 6, false),
            (true, 0, 5, false), (true, 61, 5, false), (true, 122, 6, false),
            (false, 0, 3, true), (false, 6, 3, true), (false, 22, 3, true), (true, 62, 3, true),
        ]
    };
    for (k, (v6, off, wb, pairs)) in windows.into_iter().enumerate() {
        let name: &'static str = Box::leak(format!("exhaustive-{}-off{}-w{}-{}", if v6 { "v6" } else { "v4" }, off, wb, if pairs { "pairs" } else { "single" }).into_boxed_str());
        let _ = k;
        r.exhaustive(name, exhaustive_cases(v6, off, wb, pairs), check);
        if r.has_violation() {
            break;
        }
    }
}

pub fn replay(sub: &str, case: &Value) -> Result<CheckResult, String> {
    if sub == "rtr-fed-vrps" {
        return Ok(crate::props::c13::check(&decode_case(case)?));
    }
    if sub == "api-rpki" {
        return crate::props::rpkiexp::replay_api(case);
    }
    if sub == "export-rpki" {
        return crate::props::rpkiexp::replay(case);
    }
    let c: Case = decode_case(case)?;
    Ok(check(&c))
}
