//! C02 — selected and ranked paths are maximal under the stated decision order.
//!
//! One prefix (IPv4 or EVPN type-2), a history of operations over up to 5 sources;
//! after every step the ranking the real `Table` reports is compared with the
//! reference order of `model::order`.

use crate::common::*;
use crate::cgen::*;
use crate::model::order::{self, Key, PathView};
use proptest::prelude::*;
use rustybgp_packet as packet;
use rustybgp_table as table;
use serde::{Deserialize, Serialize};
use serde_json::Value;
use std::collections::{BTreeMap, HashMap};
use std::sync::Arc;

pub const RULE: &str = "cases: one prefix (IPv4 unicast or EVPN type-2), 2-5 sources with roles/router-ids from small colliding domains, \
a history of insert/replace/remove/drop-peer/GR-restale/LLGR-restale/stale-purge/reconnect/next-hop-flip operations; after every step the reported ranking \
(collect_loc_rib_paths, every NlriChange.current_paths, ecmp_paths, destinations(Global)) is checked against the reference order. \
non-trivial := at some step >= 2 paths were eligible and the step of the decision order that separates best from runner-up is not the first applicable one \
(LOCAL_PREF), or a tie class of >= 2 (ECMP), or an ineligible (filtered / next-hop-invalid) path outranks the best; distinct := distinct serialized case. \
The 'deciding-step/*' classes histogram which step separated best and runner-up.";

#[derive(Clone, Debug, Serialize, Deserialize)]
pub struct PathSpec {
    pub src: u8,
    pub pid: u32,
    pub attrs: AttrSpec,
    pub nh: u8,
    pub filtered: bool,
}

#[derive(Clone, Debug, Serialize, Deserialize)]
pub enum Op {
    Insert(PathSpec),
    Remove { src: u8, pid: u32 },
    DropPeer(u8),
    Restale(u8),
    RestaleLlgr(u8),
    DropStale(u8),
    /// the peer re-established: later inserts use a fresh (non-stale) source object
    Reconnect(u8),
    NexthopFlip { nh: u8, reachable: bool },
}

#[derive(Clone, Debug, Serialize, Deserialize)]
pub struct Case {
    pub evpn: bool,
    pub sources: Vec<SourceSpec>,
    pub ops: Vec<Op>,
}

struct MPath {
    tag: usize,
    src: u8,
    generation: usize,
    pid: u32,
    attrs: AttrSpec,
    nh: u8,
    filtered: bool,
    nh_invalid: bool,
}

struct SrcGen {
    arc: Arc<table::Source>,
    gr_stale: bool,
    llgr_stale: bool,
}

fn evpn_nlri() -> packet::Nlri {
    packet::Nlri::Evpn(packet::evpn::EvpnNlri::MacIpAdvertisement(
        packet::evpn::MacIpAdvertisement {
            rd: packet::rd::RouteDistinguisher::TwoOctetAs { admin: 65000, assigned: 1 },
            esi: packet::evpn::Esi::ZERO,
            etag: 0,
            mac: [0, 1, 2, 3, 4, 5],
            ip: None,
            label1: 100,
            label2: None,
        },
    ))
}

pub fn check(c: &Case) -> CheckResult {
    let (family, net) = if c.evpn {
        (packet::Family::L2VPN_EVPN, evpn_nlri())
    } else {
        (packet::Family::IPV4, v4(10, 1, 0, 0, 16))
    };
    let nsrc = c.sources.len().max(1);
    let mut gens: Vec<Vec<SrcGen>> = c
        .sources
        .iter()
        .map(|s| vec![SrcGen { arc: s.build(), gr_stale: false, llgr_stale: false }])
        .collect();
    let mut t = table::Table::new(0);
    let mut model: Vec<MPath> = Vec::new();
    let mut by_ptr: HashMap<usize, usize> = HashMap::new(); // attr Arc ptr -> tag
    let mut keep_alive: Vec<Arc<Vec<packet::Attribute>>> = Vec::new();
    let mut invalid_nh: std::collections::BTreeSet<u8> = Default::default();
    let mut next_tag = 0usize;

    let mut info = CaseInfo::trivial();
    let mut step_hist: BTreeMap<usize, u32> = BTreeMap::new();

    let key_of = |m: &MPath, gens: &Vec<Vec<SrcGen>>| -> Key {
        let g = &gens[m.src as usize][m.generation];
        order::key(&PathView {
            attrs: &m.attrs,
            role: c.sources[m.src as usize].role,
            source_router_id: c.sources[m.src as usize].router_id,
            source_gr_stale: g.gr_stale,
            source_llgr_stale: g.llgr_stale,
            evpn_type2: c.evpn,
        })
    };

    for (step, op) in c.ops.iter().enumerate() {
        let mut emitted: Vec<table::NlriChange> = Vec::new();
        match op {
            Op::Insert(p) => {
                let s = (p.src as usize) % nsrc;
                let generation = gens[s].len() - 1;
                let attr = Arc::new(p.attrs.build());
                keep_alive.push(attr.clone());
                let tag = next_tag;
                next_tag += 1;
                by_ptr.insert(Arc::as_ptr(&attr) as usize, tag);
                let nh_invalid = invalid_nh.contains(&p.nh);
                let r = t.insert(
                    gens[s][generation].arc.clone(),
                    family,
                    net.clone(),
                    p.pid,
                    Some(nexthop(p.nh)),
                    attr,
                    None,
                    p.filtered,
                    nh_invalid,
                    None,
                    0,
                );
                if let table::InsertResult::Changed(ch) = r {
                    emitted.push(ch);
                }
                model.retain(|m| !(m.src as usize == s && m.pid == p.pid));
                model.push(MPath { tag, src: s as u8, generation, pid: p.pid, attrs: p.attrs.clone(), nh: p.nh, filtered: p.filtered, nh_invalid });
            }
            Op::Remove { src, pid } => {
                let s = (*src as usize) % nsrc;
                let generation = gens[s].len() - 1;
                let (ch, _) = t.remove(gens[s][generation].arc.clone(), family, net.clone(), *pid, None);
                emitted.extend(ch);
                model.retain(|m| !(m.src as usize == s && m.pid == *pid));
            }
            Op::DropPeer(src) => {
                let s = (*src as usize) % nsrc;
                let (chs, _) = t.drop(c.sources[s].addr(), family);
                emitted.extend(chs);
                model.retain(|m| m.src as usize != s);
            }
            Op::Restale(src) | Op::RestaleLlgr(src) => {
                let s = (*src as usize) % nsrc;
                let llgr = matches!(op, Op::RestaleLlgr(_));
                let chs = if llgr { t.restale_llgr(c.sources[s].addr(), family) } else { t.restale(c.sources[s].addr(), family) };
                emitted.extend(chs);
                // the flag lives on the source object of every path of that peer present here
                for m in model.iter().filter(|m| m.src as usize == s) {
                    let g = &mut gens[s][m.generation];
                    if llgr { g.llgr_stale = true } else { g.gr_stale = true }
                }
            }
            Op::DropStale(src) => {
                let s = (*src as usize) % nsrc;
                let (chs, _) = t.drop_stale(c.sources[s].addr(), family, None);
                emitted.extend(chs);
                model.retain(|m| !(m.src as usize == s && gens[s][m.generation].gr_stale));
            }
            Op::Reconnect(src) => {
                let s = (*src as usize) % nsrc;
                gens[s].push(SrcGen { arc: c.sources[s].build(), gr_stale: false, llgr_stale: false });
            }
            Op::NexthopFlip { nh, reachable } => {
                let chs = t.update_nexthop_validity(nexthop(*nh).addr(), *reachable);
                emitted.extend(chs);
                if *reachable { invalid_nh.remove(nh); } else { invalid_nh.insert(*nh); }
                for m in model.iter_mut().filter(|m| m.nh == *nh) {
                    m.nh_invalid = !*reachable;
                }
            }
        }

        // ---- oracle -----------------------------------------------------
        let eligible: Vec<&MPath> = model.iter().filter(|m| !m.filtered && !m.nh_invalid).collect();
        let mut want_tags: Vec<usize> = eligible.iter().map(|m| m.tag).collect();
        want_tags.sort();
        let tag_key: HashMap<usize, Key> = model.iter().map(|m| (m.tag, key_of(m, &gens))).collect();

        let verify_list = |what: &str, paths: &[table::Path]| -> Result<Vec<usize>, Failure> {
            let mut tags = Vec::new();
            for p in paths {
                let Some(tag) = by_ptr.get(&(Arc::as_ptr(&p.attr) as usize)) else {
                    return Err(Failure::new("ranking-set", format!("step {step} {op:?}: {what} contains a path that was never inserted")).with("what", what));
                };
                tags.push(*tag);
            }
            let mut sorted = tags.clone();
            sorted.sort();
            if sorted != want_tags {
                let ineligible_listed = tags.iter().any(|t| !want_tags.contains(t));
                let stale_tag = tags.iter().any(|t| !model.iter().any(|m| m.tag == *t));
                return Err(Failure::new(
                    "ranking-set",
                    format!("step {step} {op:?}: {what} lists {} paths but the eligible set has {} (ineligible listed: {ineligible_listed}, removed path listed: {stale_tag})", tags.len(), want_tags.len()),
                )
                .with("what", what)
                .with("op", op_name(op))
                .with("ineligible_listed", ineligible_listed)
                .with("removed_listed", stale_tag));
            }
            for w in tags.windows(2) {
                let (a, b) = (&tag_key[&w[0]], &tag_key[&w[1]]);
                if a > b {
                    let stepi = a.deciding_step(b).unwrap_or(99);
                    return Err(Failure::new(
                        "ranking-order",
                        format!(
                            "step {step} {op:?}: {what} ranks a path above one that beats it at decision step '{}': upper key {:?}, lower key {:?}",
                            order::STEP_NAMES.get(stepi).unwrap_or(&"?"), a, b
                        ),
                    )
                    .with("what", what)
                    .with("op", op_name(op))
                    .with("decision_step", order::STEP_NAMES.get(stepi).copied().unwrap_or("?")));
                }
            }
            Ok(tags)
        };

        for ch in &emitted {
            if ch.net != net {
                return Err(Failure::new("ranking-set", format!("step {step}: change for a foreign prefix")));
            }
            verify_list("NlriChange.current_paths", &ch.current_paths)?;
        }
        let snap = t.collect_loc_rib_paths(&family);
        let listed: Vec<table::Path> = snap
            .iter()
            .find(|ch| ch.net == net)
            .map(|ch| ch.current_paths.as_ref().clone())
            .unwrap_or_default();
        if snap.len() > 1 {
            return Err(Failure::new("ranking-set", format!("step {step}: snapshot has {} destinations for one prefix", snap.len())));
        }
        let tags = verify_list("collect_loc_rib_paths", &listed)?;
        // limited view is a prefix of the ranking
        for k in 1..=2usize {
            let lim = t.collect_loc_rib_paths_limited(&family, k);
            let l: Vec<usize> = lim
                .iter()
                .flat_map(|ch| ch.current_paths.iter())
                .filter_map(|p| by_ptr.get(&(Arc::as_ptr(&p.attr) as usize)).copied())
                .collect();
            let want: Vec<usize> = tags.iter().take(k).copied().collect();
            if l != want {
                return Err(Failure::new("ranking-prefix", format!("step {step} {op:?}: add-path view limited to {k} is not a prefix of the ranking")).with("what", "limited"));
            }
        }
        // ECMP list == leading run that ties with the best before the router-id step
        if let Some(ch) = snap.iter().find(|ch| ch.net == net) {
            let ecmp: Vec<usize> = ch
                .ecmp_paths()
                .iter()
                .filter_map(|p| by_ptr.get(&(Arc::as_ptr(&p.attr) as usize)).copied())
                .collect();
            let best_class = tag_key[&tags[0]].ecmp_class();
            let want: Vec<usize> = tags.iter().take_while(|t| tag_key[t].ecmp_class() == best_class).copied().collect();
            // C02: the ECMP list is a prefix of the ranking (all families).
            if ecmp.is_empty() || ecmp.len() > tags.len() || ecmp[..] != tags[..ecmp.len()] {
                return Err(Failure::new("ecmp", format!("step {step} {op:?}: ecmp_paths() is not a non-empty prefix of the ranking")).with("got", ecmp.len()).with("want", "prefix"));
            }
            // For IP prefixes (the only ones installed in the FIB) it is exactly the tie
            // class of the best before the router-id step; for EVPN type-2 the MAC-mobility
            // step is not part of the multipath notion the statement fixes.
            if !c.evpn && ecmp != want {
                return Err(Failure::new(
                    "ecmp",
                    format!("step {step} {op:?}: ecmp_paths() has {} paths, the tie class of the best has {}", ecmp.len(), want.len()),
                )
                .with("got", ecmp.len())
                .with("want", want.len())
                .with("llgr_in_ranking", tags.iter().any(|t| tag_key[t].llgr_stale)));
            }
            if want.len() >= 2 {
                info.nontrivial = true;
                info = info.class("ecmp-tie-class>=2");
            }
        }
        // API listing (destinations(Global)): eligible paths appear in ranking order
        let api: Vec<usize> = t
            .destinations(table::TableQuery::Global, family, vec![], false)
            .flat_map(|d| d.paths.into_iter())
            .filter_map(|p| by_ptr.get(&(Arc::as_ptr(&p.attr) as usize)).copied())
            .filter(|tag| want_tags.contains(tag))
            .collect();
        for w in api.windows(2) {
            let (a, b) = (&tag_key[&w[0]], &tag_key[&w[1]]);
            if a > b {
                let stepi = a.deciding_step(b).unwrap_or(99);
                return Err(Failure::new("ranking-order", format!("step {step} {op:?}: destinations(Global) lists eligible paths out of decision order (step '{}')", order::STEP_NAMES.get(stepi).unwrap_or(&"?")))
                    .with("what", "destinations(Global)")
                    .with("op", op_name(op))
                    .with("decision_step", order::STEP_NAMES.get(stepi).copied().unwrap_or("?")));
            }
        }

        // ---- evidence classes -------------------------------------------
        if tags.len() >= 2 {
            let ds = tag_key[&tags[0]].deciding_step(&tag_key[&tags[1]]);
            if let Some(s) = ds {
                *step_hist.entry(s).or_default() += 1;
                if s != 2 {
                    info.nontrivial = true;
                }
            }
        }
        if let Some(best) = tags.first() {
            let bk = &tag_key[best];
            if model.iter().any(|m| (m.filtered || m.nh_invalid) && tag_key[&m.tag] < *bk) {
                info.nontrivial = true;
                info = info.class("ineligible-outranks-best");
            }
        }
    }
    for (s, _) in step_hist {
        info = info.class(match s {
            0 => "deciding-step/mac-mobility",
            1 => "deciding-step/llgr-stale",
            2 => "deciding-step/local-pref",
            3 => "deciding-step/as-path-length",
            4 => "deciding-step/origin",
            5 => "deciding-step/ebgp-over-ibgp",
            6 => "deciding-step/gr-stale",
            7 => "deciding-step/cluster-list-length",
            _ => "deciding-step/router-id",
        });
    }
    let long = c.ops.iter().any(|o| matches!(o, Op::Insert(p) if p.attrs.hops() >= 256));
    Ok(info.class_if(long, "as-path>=256-hops").class_if(c.evpn, "evpn-type2"))
}

fn op_name(op: &Op) -> &'static str {
    match op {
        Op::Insert(_) => "insert",
        Op::Remove { .. } => "remove",
        Op::DropPeer(_) => "drop-peer",
        Op::Restale(_) => "restale",
        Op::RestaleLlgr(_) => "restale-llgr",
        Op::DropStale(_) => "drop-stale",
        Op::Reconnect(_) => "reconnect",
        Op::NexthopFlip { .. } => "nexthop-flip",
    }
}

// ---------------------------------------------------------------------------
// generators
// ---------------------------------------------------------------------------

fn arb_sources() -> impl Strategy<Value = Vec<SourceSpec>> {
    proptest::collection::vec((arb_role(), prop_oneof![Just(1u32), Just(2u32), Just(3u32), Just(0x0a00_0001u32)]), 2..6).prop_map(|v| {
        v.into_iter()
            .enumerate()
            .map(|(i, (role, router_id))| SourceSpec { idx: i as u8, role, router_id })
            .collect()
    })
}

fn arb_path(evpn: bool, max_seq: u16) -> impl Strategy<Value = PathSpec> {
    (0u8..5, 0u32..3, arb_bestpath_attrs(max_seq), 0u8..3, prop::bool::weighted(0.15), if evpn { proptest::option::weighted(0.6, 1u32..4).boxed() } else { Just(None).boxed() })
        .prop_map(|(src, pid, mut attrs, nh, filtered, mm)| {
            if let Some(seq) = mm {
                // MAC mobility extended community: type 0x06 subtype 0x00, flags, reserved, seq
                attrs.ext_communities.push((0x0600u64 << 48) | seq as u64);
            }
            PathSpec { src, pid, attrs, nh, filtered }
        })
}

/// Paths derived from one shared base attribute set by at most one small delta each,
/// so that the early decision steps tie and the late ones (eBGP/iBGP, GR-stale,
/// CLUSTER_LIST, router-id) and the ECMP tie class decide.
fn arb_path_near(evpn: bool, base: AttrSpec) -> impl Strategy<Value = PathSpec> {
    (0u8..5, 0u32..2, 0u8..12, 0u8..3, prop::bool::weighted(0.1), 1u32..3).prop_map(move |(src, pid, delta, nh, filtered, k)| {
        let mut attrs = base.clone();
        match delta {
            0 => attrs.local_pref = Some(100 + 100 * (k % 2)),
            1 => attrs.as_path = Some(vec![Seg { t: SEG_SEQ, n: k as u16, base: 65001, asns: vec![] }]),
            2 => attrs.origin = Some((k % 3) as u8),
            3 => attrs.cluster_list = vec![7; k as usize],
            4 | 5 => attrs.originator_id = Some(k),
            6 => attrs.communities.push(LLGR_STALE),
            7 if evpn => attrs.ext_communities.push((0x0600u64 << 48) | k as u64),
            _ => {}
        }
        PathSpec { src, pid, attrs, nh, filtered }
    })
}

pub fn arb_case_ties(max_ops: usize) -> impl Strategy<Value = Case> {
    (prop::bool::weighted(0.15), arb_sources(), arb_bestpath_attrs(3)).prop_flat_map(move |(evpn, sources, base)| {
        let op = prop_oneof![
            12 => arb_path_near(evpn, base.clone()).prop_map(Op::Insert),
            1 => (0u8..5, 0u32..2).prop_map(|(src, pid)| Op::Remove { src, pid }),
            3 => (0u8..5).prop_map(Op::Restale),
            2 => (0u8..5).prop_map(Op::RestaleLlgr),
            1 => (0u8..5).prop_map(Op::DropStale),
            1 => (0u8..5).prop_map(Op::Reconnect),
            1 => (0u8..3, any::<bool>()).prop_map(|(nh, reachable)| Op::NexthopFlip { nh, reachable }),
        ];
        (Just(evpn), Just(sources), proptest::collection::vec(op, 2..=max_ops)).prop_map(|(evpn, sources, ops)| Case { evpn, sources, ops })
    })
}

pub fn arb_case(max_ops: usize, history: bool, max_seq: u16) -> impl Strategy<Value = Case> {
    (prop::bool::weighted(0.2), arb_sources()).prop_flat_map(move |(evpn, sources)| {
        let op = if history {
            prop_oneof![
                10 => arb_path(evpn, max_seq).prop_map(Op::Insert),
                2 => (0u8..5, 0u32..3).prop_map(|(src, pid)| Op::Remove { src, pid }),
                1 => (0u8..5).prop_map(Op::DropPeer),
                2 => (0u8..5).prop_map(Op::Restale),
                2 => (0u8..5).prop_map(Op::RestaleLlgr),
                1 => (0u8..5).prop_map(Op::DropStale),
                1 => (0u8..5).prop_map(Op::Reconnect),
                2 => (0u8..3, any::<bool>()).prop_map(|(nh, reachable)| Op::NexthopFlip { nh, reachable }),
            ]
            .boxed()
        } else {
            arb_path(evpn, max_seq).prop_map(Op::Insert).boxed()
        };
        (Just(evpn), Just(sources), proptest::collection::vec(op, 2..=max_ops))
            .prop_map(|(evpn, sources, ops)| Case { evpn, sources, ops })
    })
}

// ---------------------------------------------------------------------------
// eligibility through the daemon's TableManager: which paths enter the ranking at all is
// decided by glue (the next-hop-invalid flag insert_route computes from the reachability
// reports, the import policy it applies) for peer-learned, API and kernel paths alike
// ---------------------------------------------------------------------------

pub const TM_RULE: &str = "tm-eligibility: TableManager histories over 3 peers plus the API source and the kernel source (insert / replace / remove, import-policy soft reset, next-hop reachability reports before and after the paths arrive). After every step no ranked (exportable) path of any prefix has a next hop that is currently reported unreachable, whatever its source and whatever came first, the report or the path; and the ranking the TableManager hands out is in the reference decision order restricted to what the check can see without the harness's own bookkeeping (LOCAL_PREF, AS_PATH length, ORIGIN), and there is one ranked list per prefix (paths with different path identifiers compete with each other). non-trivial := a path of the API or kernel source is inserted while its next hop is reported unreachable";

#[derive(Clone, Debug, Serialize, Deserialize)]
pub struct TmCase {
    pub ops: Vec<crate::props::tmrig::TmOp>,
}

pub fn check_tm(c: &TmCase) -> CheckResult {
    use crate::props::tmrig::{Rig, TmOp, nh_addr};
    use crate::table_manager::verif as tmv;
    let rig = Rig::new(false);
    let mut info = CaseInfo::trivial();
    for (i, op) in c.ops.iter().enumerate() {
        if let TmOp::InsertLocal { nh, .. } = op
            && tmv::nexthop_invalid(&rig.tm).contains(&nh_addr(*nh, false).addr())
        {
            info.nontrivial = true;
            info.classes.push("local-path-inserted-on-unreachable-next-hop");
        }
        rig.apply(op);
        let invalid = tmv::nexthop_invalid(&rig.tm);
        for family in [packet::Family::IPV4, packet::Family::IPV6] {
            let mut seen: Vec<String> = Vec::new();
            for ch in rig.tm.collect_loc_rib_paths(family) {
                // one ranking per prefix: all paths of a prefix (whatever their path identifiers) compete in one list
                let k = format!("{:?}", ch.net);
                if seen.contains(&k) {
                    return Err(Failure::new("split-ranking", format!("step #{i} ({op:?}): {k} has more than one ranked list (its paths are ranked apart from each other: {} paths in this one)", ch.current_paths.len())).with("step", "tm"));
                }
                seen.push(k);
                let mut prev: Option<(std::cmp::Reverse<u32>, usize, u32)> = None;
                for p in ch.current_paths.iter() {
                    if let Some(nh) = p.nexthop
                        && invalid.contains(&nh.addr())
                    {
                        let who = if p.source.is_local() { "api" } else if p.source.is_kernel() { "kernel" } else { "peer" };
                        return Err(Failure::new("unreachable-ranked", format!("step #{i} ({op:?}): {:?} ranks a path of the {who} source whose next hop {} is reported unreachable ({invalid:?})", ch.net, nh.addr())).with("source", who));
                    }
                    // the first three steps of the decision order, from the path's own attributes
                    let find = |code: u8| p.attr.iter().find(|a| a.code() == code);
                    let lp = find(5).and_then(|a| a.value()).unwrap_or(100);
                    let hops = find(2).and_then(|a| a.binary()).map(|b| {
                        let (mut k, mut n) = (0usize, 0usize);
                        while k + 2 <= b.len() {
                            n += match b[k] {
                                2 => b[k + 1] as usize,
                                1 => 1,
                                _ => 0,
                            };
                            k += 2 + 4 * b[k + 1] as usize;
                        }
                        n
                    }).unwrap_or(0);
                    let origin = find(1).and_then(|a| a.value()).unwrap_or(2);
                    let key = (std::cmp::Reverse(lp), hops, origin);
                    if let Some(pk) = &prev
                        && !p.source.is_llgr_stale()
                        && *pk > key
                    {
                        return Err(Failure::new("ranking-order", format!("step #{i} ({op:?}): {:?} ranks a path with (LOCAL_PREF, AS_PATH length, ORIGIN) = ({lp}, {hops}, {origin}) behind a worse one", ch.net)).with("step", "tm"));
                    }
                    prev = Some(key);
                }
            }
        }
    }
    Ok(info)
}

pub fn arb_tm_case() -> impl Strategy<Value = TmCase> {
    use crate::props::tmrig::TmOp;
    let op = prop_oneof![
        6 => (0u8..3, 0u8..4, 0u8..2, 0u8..6, 0u8..3).prop_map(|(peer, prefix, path_id, attrs, nh)| TmOp::Insert { peer, prefix, path_id, attrs, nh }),
        6 => (0u8..2, 0u8..4, 0u8..4, 0u8..3).prop_map(|(kind, prefix, attrs, nh)| TmOp::InsertLocal { kind, prefix, attrs, nh }),
        2 => (0u8..3, 0u8..4, 0u8..2).prop_map(|(peer, prefix, path_id)| TmOp::Remove { peer, prefix, path_id }),
        1 => (0u8..2, 0u8..4).prop_map(|(kind, prefix)| TmOp::RemoveLocal { kind, prefix }),
        6 => (0u8..3, prop::bool::weighted(0.4)).prop_map(|(nh, reachable)| TmOp::NhReach { nh, reachable }),
        1 => (0u8..3, 0u8..3).prop_map(|(peer, policy)| TmOp::SoftResetIn { peer, policy }),
    ];
    proptest::collection::vec(op, 1..20).prop_map(|ops| TmCase { ops })
}

pub fn run(r: &Run) {
    r.set_rule(RULE);
    r.assume("a MAC-mobility community, when generated, has sequence >= 1, so 'absent' and 'sequence 0' (which the statement does not order) never meet");
    r.assume("AS_PATH segments are non-empty (an empty AS_SET's hop count is not fixed by the statement)");
    r.assume("the next-hop-invalid flag passed to insert is consistent with the reachability reports so far, as the daemon's next-hop tracker makes it");
    let max_seq = 300u16;
    r.prop("arrival-orders", r.tier.pick(150_000, 3_000_000), || arb_case(7, false, max_seq), check);
    r.prop("histories", r.tier.pick(150_000, 3_000_000), || arb_case(r.tier.pick(14, 30), true, max_seq), check);
    r.prop("near-ties", r.tier.pick(200_000, 4_000_000), || arb_case_ties(r.tier.pick(12, 24)), check);
    r.assume(TM_RULE);
    r.prop("tm-eligibility", r.tier.pick(60_000, 1_500_000), arb_tm_case, check_tm);
    // what a registered session is sent must be the RIB's ranking (shared with C06): a fan-out that skips a
    // session leaves it advertising something other than the leading paths of the ranking
    r.assume(crate::props::c06::TM_RULE);
    r.prop("tm-ranking-stream", r.tier.pick(30_000, 600_000), crate::props::c06::arb_tm_case, crate::props::c06::check_tm);
}

pub fn replay(sub: &str, case: &Value) -> Result<CheckResult, String> {
    if sub == "tm-eligibility" {
        return Ok(check_tm(&decode_case(case)?));
    }
    if sub == "tm-ranking-stream" {
        return Ok(crate::props::c06::check_tm(&decode_case(case)?));
    }
    let c: Case = decode_case(case)?;
    Ok(check(&c))
}
