//! C15 — route counters and prefix limits match the RIB's real contents (see tablehist.rs).
use crate::common::*;
use crate::props::tablehist::{self, Case, Mode};
use serde_json::Value;

pub const RULE: &str = "cases: the C06 history generator with per-(peer, family) prefix limits from {none,0,1,2,5}, per-session limit counters created the way PeerSession creates them (fresh on every reconnect), \
and a limit rejection followed by the session teardown the daemon performs. After every step a recount of destinations(Global, enable_filtered=true) is compared with state(), peer_stats() and every live session's limit counter, \
and a successful insert must not leave the peer above its maximum. \
non-trivial := the history contains a session-down (drop or GR-restale), a restart-timer purge / LLGR step, or a limit rejection; distinct := distinct serialized case";

pub fn check(c: &Case) -> CheckResult {
    tablehist::check(c, Mode::C15)
}

pub fn run(r: &Run) {
    r.set_rule(RULE);
    r.assume("'received' = prefixes with at least one path of the peer, 'accepted' = unfiltered paths of the peer (the meaning pinned by the existing suite)");
    r.assume("the limit counter is compared only while its session is up (a counter of a closed session is dead state)");
    r.prop("histories-with-limits", r.tier.pick(60_000, 2_000_000), || tablehist::arb_case(r.tier.pick(40, 120), true), check);
    r.prop("histories", r.tier.pick(20_000, 500_000), || tablehist::arb_case(r.tier.pick(40, 120), false), check);
}

pub fn replay(_sub: &str, case: &Value) -> Result<CheckResult, String> {
    let c: Case = decode_case(case)?;
    Ok(check(&c))
}
