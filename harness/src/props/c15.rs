//! C15 — route counters and prefix limits match the RIB's real contents (see tablehist.rs).
use crate::common::*;
use crate::props::tablehist::{self, Case, Mode};
use serde_json::Value;

pub const RULE: &str = "cases: the C06 history generator with per-(peer, family) prefix limits from {none,0,1,2,5}, per-session limit counters created the way PeerSession creates them (fresh on every reconnect), \
and a limit rejection followed by the session teardown the daemon performs. After every step a recount of destinations(Global, enable_filtered=true) is compared with state(), peer_stats() and every live session's limit counter, \
and a successful insert must not leave the peer above its maximum. \
non-trivial := the history contains a session-down (drop or GR-restale), a restart-timer purge / LLGR step, or a limit rejection; distinct := distinct serialized case";

pub fn check(c: &Case) -> CheckResult {
    tablehist::check(c, Mode::C15)
}

// ---------------------------------------------------------------------------
// the per-session prefix-limit counter through the daemon's TableManager: insert_route
// decides which (maximum, counter) pair reaches Table::insert, remove_route which counter
// is decremented; an import policy is in force so that rejected paths are held too
// ---------------------------------------------------------------------------

pub const TM_RULE: &str = "tm-limits: TableManager histories (3 peers, each session with its own prefix-limit counter and a generated maximum; inserts incl. replacements and extra path ids, removes, peer loss = new session with a fresh counter, import-policy soft resets that reject and re-admit paths). After every step the counter of each live session equals the number of distinct prefixes the RIB holds from that peer (accepted or rejected by import policy), it never wraps below zero, and the number of held prefixes exceeds the maximum only in a step whose insert signalled the limit (after which the session is closed, as the daemon does). non-trivial := the import policy rejects a path of a peer, or the limit is signalled";

#[derive(Clone, Debug, serde::Serialize, serde::Deserialize)]
pub struct TmCase {
    pub max: u8,
    pub ops: Vec<crate::props::tmrig::TmOp>,
}

pub fn check_tm(c: &TmCase) -> CheckResult {
    use crate::props::tmrig::{Rig, TmOp, peer_ip};
    use crate::table_manager::verif as tmv;
    use std::collections::BTreeSet;
    use std::sync::Arc;
    use std::sync::atomic::{AtomicU64, Ordering};
    let rig = Rig::new(false);
    let max = c.max.max(1) as u32;
    *rig.limits.borrow_mut() = Some((max, (0..3).map(|_| Arc::new(AtomicU64::new(0))).collect()));
    let mut info = CaseInfo::trivial();
    for (i, op) in c.ops.iter().enumerate() {
        rig.exceeded.set(None);
        rig.apply(op);
        let signalled = rig.exceeded.get();
        let (pre, post) = tmv::rib_views(&rig.tm);
        if pre.len() != post.len() {
            info.nontrivial = true;
            info.classes.push("import-policy-rejects-a-path");
        }
        for p in 0..3u8 {
            let me = format!("{}|", peer_ip(p));
            let held: BTreeSet<String> = pre.keys().filter(|k| k.starts_with(&me)).map(|k| {
                // (peer, family, PathNlri { path_id, nlri }) -> family + nlri
                let fam = k.split('|').nth(1).unwrap_or("");
                let nlri = k.split("nlri: ").nth(1).unwrap_or(k);
                format!("{fam}|{nlri}")
            }).collect();
            let counter = rig.limits.borrow().as_ref().map(|(_, v)| v[p as usize].load(Ordering::Relaxed)).unwrap_or(0);
            if counter > u32::MAX as u64 {
                return Err(Failure::new("limit-counter", format!("step #{i} ({op:?}): the prefix-limit counter of peer {p} wrapped below zero ({counter:#x})")).with("what", "underflow"));
            }
            if counter != held.len() as u64 {
                return Err(Failure::new("limit-counter", format!("step #{i} ({op:?}): the prefix-limit counter of peer {p}'s session is {counter}, the RIB holds {} distinct prefixes from it ({} of its paths rejected by import policy)", held.len(), pre.keys().filter(|k| k.starts_with(&me) && !post.contains_key(*k)).count())).with("what", if counter < held.len() as u64 { "under-count" } else { "over-count" }));
            }
            if held.len() as u64 > max as u64 && signalled != Some(p) {
                return Err(Failure::new("limit-not-signalled", format!("step #{i} ({op:?}): peer {p} holds {} prefixes, its maximum is {max}, and the limit was not signalled", held.len())));
            }
        }
        if let Some(p) = signalled {
            // the daemon answers with Cease / maximum prefixes reached and the session ends
            info.nontrivial = true;
            info.classes.push("limit-signalled");
            rig.apply(&TmOp::DropPeer { peer: p });
        }
    }
    Ok(info)
}

pub fn arb_tm_case() -> impl proptest::strategy::Strategy<Value = TmCase> {
    use crate::props::tmrig::TmOp;
    use proptest::prelude::*;
    let op = prop_oneof![
        12 => (0u8..3, 0u8..8, 0u8..2, 0u8..6, 0u8..3).prop_map(|(peer, prefix, path_id, attrs, nh)| TmOp::Insert { peer, prefix, path_id, attrs, nh }),
        5 => (0u8..3, 0u8..8, 0u8..2).prop_map(|(peer, prefix, path_id)| TmOp::Remove { peer, prefix, path_id }),
        1 => (0u8..3).prop_map(|peer| TmOp::DropPeer { peer }),
        3 => (0u8..3, 0u8..3).prop_map(|(peer, policy)| TmOp::SoftResetIn { peer, policy }),
    ];
    (prop_oneof![Just(1u8), Just(2), Just(3), Just(5), Just(200)], proptest::collection::vec(op, 1..30)).prop_map(|(max, ops)| TmCase { max, ops })
}

pub fn run(r: &Run) {
    r.set_rule(RULE);
    r.assume("'received' = prefixes with at least one path of the peer, 'accepted' = unfiltered paths of the peer (the meaning pinned by the existing suite)");
    r.assume("the limit counter is compared only while its session is up (a counter of a closed session is dead state)");
    r.prop("histories-with-limits", r.tier.pick(60_000, 2_000_000), || tablehist::arb_case(r.tier.pick(40, 120), true), check);
    r.prop("histories", r.tier.pick(20_000, 500_000), || tablehist::arb_case(r.tier.pick(40, 120), false), check);
    r.assume(TM_RULE);
    r.prop("tm-limits", r.tier.pick(60_000, 1_500_000), arb_tm_case, check_tm);
    r.assume(super::c15s::RULE);
    r.slow(|| r.prop("session-limits", r.tier.pick(2_500, 80_000), super::c15s::arb_case, super::c15s::check));
}

pub fn replay(sub: &str, case: &Value) -> Result<CheckResult, String> {
    if sub == "session-limits" {
        return super::c15s::replay(case);
    }
    if sub == "tm-limits" {
        return Ok(check_tm(&decode_case(case)?));
    }
    let c: Case = decode_case(case)?;
    Ok(check(&c))
}
