//! C16 — only configured or dynamically permitted neighbours get a session, set up right.
//!
//! admission: generated configurations (neighbours, peer groups with dynamic prefixes,
//! confederation) and sequences of TCP connections from chosen 127.x.y.z source
//! addresses, disconnects and admin-down toggles run against the daemon's own Global,
//! accept_connection and PeerSession::run (event hook module); a model of the statement
//! says which connections become sessions and what the session must look like.
//! negotiate: PeerCodec::negotiate in both directions for generated capability-list pairs.

use crate::cgen::nlri::ALL_FAMILIES;
use crate::cgen::wire::{CapSpec, arb_caps};
use crate::common::*;
use crate::event::verif::{AdmitRig, Conn, GroupCfg, NeighborCfg, SessionView};
use proptest::prelude::*;
use rustybgp_packet as packet;
use rustybgp_packet::bgp::{Capability, Family, PeerCodec};
use rustybgp_table as table;
use serde::{Deserialize, Serialize};
use serde_json::Value;
use std::collections::BTreeMap;
use std::net::{IpAddr, Ipv4Addr};

pub const RULE: &str = "admission: cases = (global AS, optional confederation id + member list, 0..4 configured neighbours 127.0.1.h with remote/local AS, route-server-client, route-reflector-client, cluster id, admin-down, hold time, families with add-path modes, prefix limit; \
0..3 peer groups with 1..2 dynamic prefixes over 127.0.2.0/24 (any length, overlapping), AS numbers, roles, hold time, families; 1..10 steps: connect from a configured / in-prefix / outside address in either direction, close a connection, toggle admin-down). \
Oracle: a connection becomes a session iff its source is a configured neighbour that is administratively up and has no live connection in that direction, or lies inside a dynamic prefix; a refused connection is closed without a single byte sent; \
the session's role, local AS, expected AS, advertised capabilities, cluster id, confederation id, hold time and prefix limits are those of the neighbour (or of a covering group); a dynamic neighbour is gone from Global.peers once its last connection has ended, a configured one stays. \
negotiate: cases = pairs of capability lists (every family, add-path modes 0-3, duplicates, unknown capabilities, GR/LLGR lists); oracle: a = negotiate(A,B), b = negotiate(B,A): same family set = families both advertised, a.tx(f) == b.rx(f) == (A sends and B receives add-path for f), same maximum message length = extended iff both advertised it. \
non-trivial := (admission) at least one accepted and one refused connection, or a dynamic neighbour created; (negotiate) at least one common family with add-path on one side; distinct := distinct serialized case";

const GLOBAL_ROUTER_ID: Ipv4Addr = Ipv4Addr::new(1, 0, 0, 1);
const ASNS: [u32; 5] = [65000, 65001, 65002, 64512, 4_200_000_001];

#[derive(Clone, Debug, Serialize, Deserialize)]
pub struct Nb {
    pub host: u8,
    pub remote: u8,
    pub local: Option<u8>,
    pub rs: bool,
    pub rr: bool,
    pub cluster: Option<u32>,
    pub admin_down: bool,
    pub hold: u16,
    pub fams: Vec<(u8, u8)>,
    pub limit: Option<u32>,
}

#[derive(Clone, Debug, Serialize, Deserialize)]
pub struct Grp {
    pub prefixes: Vec<(u8, u8)>,
    pub remote: u8,
    pub local: Option<u8>,
    pub rs: bool,
    pub rr: bool,
    pub cluster: Option<u32>,
    pub hold: Option<u16>,
    pub fams: Vec<(u8, u8)>,
}

#[derive(Clone, Debug, Serialize, Deserialize)]
pub enum Src {
    Neighbor(u8),
    InGroups(u8),
    Outside(u8),
}

#[derive(Clone, Debug, Serialize, Deserialize)]
pub enum Op {
    Connect { src: Src, active: bool },
    Close(u8),
    AdminDown { host: u8, down: bool },
}

#[derive(Clone, Debug, Serialize, Deserialize)]
pub struct Case {
    pub asn: u8,
    pub confed: Option<(u8, Vec<u8>)>,
    pub nbs: Vec<Nb>,
    pub grps: Vec<Grp>,
    pub ops: Vec<Op>,
}

fn asn(k: u8) -> u32 {
    ASNS[k as usize % ASNS.len()]
}
fn nb_addr(h: u8) -> IpAddr {
    IpAddr::V4(Ipv4Addr::new(127, 0, 1, 1 + h % 6))
}
fn fams(v: &[(u8, u8)]) -> Vec<(Family, u8)> {
    let mut out: Vec<(Family, u8)> = Vec::new();
    for (f, m) in v {
        let f = ALL_FAMILIES[*f as usize % 19];
        if !out.iter().any(|(x, _)| *x == f) {
            out.push((f, m & 3));
        }
    }
    out
}

fn contains(prefix: (IpAddr, u8), a: IpAddr) -> bool {
    let (IpAddr::V4(p), IpAddr::V4(a)) = (prefix.0, a) else { return false };
    let l = prefix.1.min(32) as u32;
    let mask = if l == 0 { 0 } else { u32::MAX << (32 - l) };
    (u32::from(p) & mask) == (u32::from(a) & mask)
}

struct Expect {
    role: table::PeerRole,
    local_asn: u32,
    remote_asn: u32,
    caps: Vec<String>,
    cluster: Option<Ipv4Addr>,
    confed: u32,
    hold: u64,
    limits: Vec<(Family, u32)>,
}

#[allow(clippy::too_many_arguments)]
fn expect(global_asn: u32, confed: &Option<(u32, Vec<u32>)>, remote: u32, local: Option<u32>, rs: bool, rr: bool, cluster: Option<u32>, hold: u64, families: &[(Family, u8)], limit: Option<u32>) -> Expect {
    let member = |a: u32| confed.as_ref().is_some_and(|(_, m)| m.contains(&a));
    // RFC 5065 §4: towards peers outside the confederation the confederation id is the local AS
    let own = local.unwrap_or(global_asn);
    let inside = remote == own || member(remote);
    let la = if confed.is_some() && !inside { confed.as_ref().unwrap().0 } else { own };
    let role = if rs {
        table::PeerRole::RsClient
    } else if remote == own {
        if rr { table::PeerRole::IbgpRrClient } else { table::PeerRole::Ibgp }
    } else if member(remote) {
        table::PeerRole::ConfedEbgp
    } else {
        table::PeerRole::Ebgp
    };
    let mut caps: Vec<String> = Vec::new();
    if families.is_empty() {
        caps.push(format!("{:?}", Capability::MultiProtocol(Family::IPV4)));
    } else {
        for (f, _) in families {
            caps.push(format!("{:?}", Capability::MultiProtocol(*f)));
        }
        let mut ap: Vec<(Family, u8)> = families.iter().filter(|(_, m)| *m > 0).copied().collect();
        ap.sort_by_key(|(f, _)| (f.afi(), f.safi()));
        if !ap.is_empty() {
            caps.push(format!("addpath {ap:?}"));
        }
    }
    caps.push(format!("{:?}", Capability::FourOctetAsNumber(la)));
    caps.push(format!("{:?}", Capability::ExtendedMessage));
    caps.sort();
    let cluster = match role {
        table::PeerRole::Ibgp | table::PeerRole::IbgpRrClient => Some(cluster.map(Ipv4Addr::from).unwrap_or(GLOBAL_ROUTER_ID)),
        _ => None,
    };
    Expect { role, local_asn: la, remote_asn: remote, caps, cluster, confed: confed.as_ref().map_or(0, |c| c.0), hold, limits: limit.map(|l| vec![(Family::IPV4, l)]).unwrap_or_default() }
}

fn caps_view(v: &[Capability]) -> Vec<String> {
    let mut out: Vec<String> = v
        .iter()
        .map(|c| match c {
            Capability::AddPath(l) => {
                let mut l = l.clone();
                l.sort_by_key(|(f, _)| (f.afi(), f.safi()));
                format!("addpath {l:?}")
            }
            other => format!("{other:?}"),
        })
        .collect();
    out.sort();
    out
}

fn differs(e: &Expect, v: &SessionView, dynamic: bool) -> Option<String> {
    if v.role != e.role {
        return Some(format!("role {:?}, configured {:?}", v.role, e.role));
    }
    if v.local_asn != e.local_asn {
        return Some(format!("local AS {}, configured {}", v.local_asn, e.local_asn));
    }
    if v.expected_remote_asn != e.remote_asn {
        return Some(format!("expected remote AS {}, configured {}", v.expected_remote_asn, e.remote_asn));
    }
    if caps_view(&v.local_cap) != e.caps {
        return Some(format!("advertised capabilities {:?}, configured {:?}", caps_view(&v.local_cap), e.caps));
    }
    if v.cluster_id != e.cluster {
        return Some(format!("cluster id {:?}, configured {:?}", v.cluster_id, e.cluster));
    }
    if v.confederation_id != e.confed {
        return Some(format!("confederation id {}, configured {}", v.confederation_id, e.confed));
    }
    if v.holdtime != e.hold {
        return Some(format!("hold time {}, configured {}", v.holdtime, e.hold));
    }
    if v.prefix_limits != e.limits {
        return Some(format!("prefix limits {:?}, configured {:?}", v.prefix_limits, e.limits));
    }
    if v.dynamic != dynamic {
        return Some(format!("delete-on-disconnect {}, expected {}", v.dynamic, dynamic));
    }
    None
}

struct MPeer {
    admin_down: bool,
    dynamic: bool,
    live: [bool; 2],
    nb: Option<usize>,
}

pub fn check(c: &Case) -> CheckResult {
    let rt = tokio::runtime::Builder::new_current_thread().enable_all().build().map_err(|e| Failure::new("harness", e.to_string()))?;
    rt.block_on(run_case(c))
}

async fn run_case(c: &Case) -> CheckResult {
    let global_asn = asn(c.asn);
    let confed: Option<(u32, Vec<u32>)> = c.confed.as_ref().map(|(id, m)| (asn(*id), m.iter().map(|x| asn(*x)).collect()));
    let rig = match AdmitRig::new(global_asn, confed.clone()).await {
        Ok(r) => r,
        Err(e) => return Ok(CaseInfo::trivial().class_if(true, "rig-unavailable").class(Box::leak(e.into_boxed_str()))),
    };
    // a neighbour whose AS is our own confederation identifier cannot exist
    if let Some((id, _)) = &confed
        && (c.nbs.iter().any(|n| asn(n.remote) == *id) || c.grps.iter().any(|g| asn(g.remote) == *id) || global_asn == *id)
    {
        return Ok(CaseInfo::trivial().class("peer-as-equals-confederation-id (excluded)"));
    }
    let mut model: BTreeMap<IpAddr, MPeer> = BTreeMap::new();
    let mut nbs: Vec<Nb> = Vec::new();
    for n in &c.nbs {
        if model.contains_key(&nb_addr(n.host)) {
            continue;
        }
        let cfg = NeighborCfg { addr: nb_addr(n.host), remote_asn: asn(n.remote), local_asn: n.local.map(asn).unwrap_or(0), rs_client: n.rs, rr_client: n.rr, cluster_id: n.cluster.map(Ipv4Addr::from), admin_down: n.admin_down, holdtime: n.hold as u64, families: fams(&n.fams), prefix_limit: n.limit, gr: None, llgr: None };
        if !rig.add_neighbor(&cfg).await {
            return Err(Failure::new("admission", format!("add_peer refuses the configuration {cfg:?}")));
        }
        model.insert(cfg.addr, MPeer { admin_down: n.admin_down, dynamic: false, live: [false, false], nb: Some(nbs.len()) });
        nbs.push(n.clone());
    }
    let mut groups: Vec<(Vec<(IpAddr, u8)>, &Grp)> = Vec::new();
    for (i, g) in c.grps.iter().enumerate() {
        let prefixes: Vec<(IpAddr, u8)> = g.prefixes.iter().map(|(o, l)| (IpAddr::V4(Ipv4Addr::new(127, 0, 2, *o)), (*l).min(32))).collect();
        rig.add_group(&GroupCfg { name: format!("g{i}"), prefixes: prefixes.clone(), as_number: asn(g.remote), local_asn: g.local.map(asn).unwrap_or(0), rs_client: g.rs, rr_client: g.rr, cluster_id: g.cluster.map(Ipv4Addr::from), holdtime: g.hold.map(|h| h as u64), families: fams(&g.fams), gr: None }).await;
        groups.push((prefixes, g));
    }
    let mut conns: Vec<(IpAddr, bool, Conn)> = Vec::new();
    let (mut accepted, mut refused, mut dynamic_made) = (0, 0, 0);
    for (i, op) in c.ops.iter().enumerate() {
        match op {
            Op::Connect { src, active } => {
                let addr = match src {
                    Src::Neighbor(h) => nb_addr(*h),
                    Src::InGroups(o) => IpAddr::V4(Ipv4Addr::new(127, 0, 2, *o)),
                    Src::Outside(o) => IpAddr::V4(Ipv4Addr::new(127, 0, 9, 1 + *o % 200)),
                };
                let dir = *active as usize;
                let (view, mut conn) = match rig.connect(addr, *active).await {
                    Ok(x) => x,
                    Err(e) => return Ok(CaseInfo::trivial().class(Box::leak(format!("rig: {e}").into_boxed_str()))),
                };
                let covering: Vec<&Grp> = groups.iter().filter(|(p, _)| p.iter().any(|x| contains(*x, addr))).map(|(_, g)| *g).collect();
                let wit = |f: Failure| f.with("known_peer", model.contains_key(&addr)).with("covering_groups", covering.len()).with("direction", if *active { "active" } else { "passive" });
                let want = match model.get(&addr) {
                    Some(p) => !p.admin_down && !p.live[dir],
                    None => !covering.is_empty(),
                };
                if want != view.is_some() {
                    return Err(wit(Failure::new("admission", format!("step #{i}: a {} connection from {addr} {} a session; {}", if *active { "outgoing" } else { "incoming" }, if view.is_some() { "became" } else { "did not become" }, match model.get(&addr) {
                        Some(p) => format!("the neighbour is configured, admin-down {}, already connected in that direction {}", p.admin_down, p.live[dir]),
                        None => format!("no neighbour is configured for it and {} dynamic prefix group(s) cover it", covering.len()),
                    }))
                    .with("got_session", view.is_some())));
                }
                match view {
                    None => {
                        refused += 1;
                        let (bytes, closed) = conn.drain(60).await;
                        if bytes != 0 || !closed {
                            return Err(wit(Failure::new("admission", format!("step #{i}: the refused connection from {addr} received {bytes} bytes and was {}", if closed { "closed" } else { "left open" })).with("got_session", false)));
                        }
                    }
                    Some(v) => {
                        accepted += 1;
                        let known = model.contains_key(&addr);
                        let candidates: Vec<Expect> = if let Some(p) = model.get(&addr).filter(|p| p.nb.is_some()) {
                            let n = &nbs[p.nb.unwrap()];
                            vec![expect(global_asn, &confed, asn(n.remote), n.local.map(asn), n.rs, n.rr, n.cluster, n.hold as u64, &fams(&n.fams), n.limit)]
                        } else {
                            covering.iter().map(|g| expect(global_asn, &confed, asn(g.remote), g.local.map(asn), g.rs, g.rr, g.cluster, g.hold.map(|h| h as u64).unwrap_or(180), &fams(&g.fams), None)).collect()
                        };
                        let is_dynamic = !model.get(&addr).is_some_and(|p| !p.dynamic);
                        if !candidates.is_empty() {
                            let diffs: Vec<String> = candidates.iter().filter_map(|e| differs(e, &v, is_dynamic)).collect();
                            if diffs.len() == candidates.len() {
                                return Err(wit(Failure::new("session-setup", format!("step #{i}: the session for {addr} ({}) is set up with {}", if is_dynamic { "dynamic neighbour" } else { "configured neighbour" }, diffs[0])).with("what", diffs[0].split(' ').next().unwrap_or("").to_string()).with("dynamic", is_dynamic).with("confederation", confed.is_some())));
                            }
                        }
                        if !known {
                            dynamic_made += 1;
                            model.insert(addr, MPeer { admin_down: false, dynamic: true, live: [false, false], nb: None });
                        }
                        model.get_mut(&addr).unwrap().live[dir] = true;
                    }
                }
                conns.push((addr, *active, conn));
            }
            Op::Close(k) => {
                if conns.is_empty() {
                    continue;
                }
                let (addr, active, mut conn) = conns.remove(*k as usize % conns.len());
                let had_session = conn.task.is_some();
                if let Err(e) = conn.close().await {
                    return Err(Failure::new("session-end", format!("step #{i}: {e}")));
                }
                if !had_session {
                    continue;
                }
                let p = model.get_mut(&addr).unwrap();
                p.live[active as usize] = false;
                let gone = p.dynamic && !p.live[0] && !p.live[1];
                let has = rig.has_peer(addr).await;
                if gone {
                    model.remove(&addr);
                }
                if has == gone {
                    return Err(Failure::new("session-end", format!("step #{i}: after the {} connection of {addr} ended, Global.peers {} it; it is a {} neighbour with {} other live connection", if active { "outgoing" } else { "incoming" }, if has { "still holds" } else { "no longer holds" }, if gone || !has { "dynamic" } else { "configured" }, if gone { "no" } else { "one" })).with("dynamic", gone));
                }
            }
            Op::AdminDown { host, down } => {
                let addr = nb_addr(*host);
                if let Some(p) = model.get_mut(&addr) {
                    rig.set_admin_down(addr, *down).await;
                    p.admin_down = *down;
                }
            }
        }
    }
    for (_, _, mut conn) in conns {
        let _ = conn.close().await;
    }
    Ok(CaseInfo::nt((accepted > 0 && refused > 0) || dynamic_made > 0).class_if(dynamic_made > 0, "dynamic-neighbour").class_if(confed.is_some(), "confederation").class_if(refused > 0, "refused").class_if(accepted > 0, "accepted"))
}

// ---------------------------------------------------------------------------
// negotiate
// ---------------------------------------------------------------------------

#[derive(Clone, Debug, Serialize, Deserialize)]
pub struct NegCase {
    pub a: CapSpec,
    pub b: CapSpec,
}

fn mp_families(c: &[Capability]) -> Vec<Family> {
    let mut v = Vec::new();
    for x in c {
        if let Capability::MultiProtocol(f) = x
            && !v.contains(f)
        {
            v.push(*f);
        }
    }
    v
}
fn addpath_mode(c: &[Capability], f: Family) -> u8 {
    // the last AddPath entry for the family wins is not specified; generators give one entry per family
    for x in c {
        if let Capability::AddPath(l) = x {
            for (ff, m) in l {
                if *ff == f {
                    return *m & 3;
                }
            }
        }
    }
    0
}

pub fn check_negotiate(c: &NegCase) -> CheckResult {
    let (ca, cb) = (c.a.build(), c.b.build());
    let a = catch(|| PeerCodec::negotiate(&ca, &cb)).map_err(|p| p.into_failure("negotiate"))?;
    let b = catch(|| PeerCodec::negotiate(&cb, &ca)).map_err(|p| p.into_failure("negotiate"))?;
    let (fa, fb) = (mp_families(&ca), mp_families(&cb));
    let mut info = CaseInfo::trivial();
    for f in ALL_FAMILIES.iter().take(19) {
        let both = fa.contains(f) && fb.contains(f);
        if a.has_family(*f) != both || b.has_family(*f) != both {
            return Err(Failure::new("negotiate", format!("{f:?}: advertised by A {} and by B {}; in force at A {} and at B {}", fa.contains(f), fb.contains(f), a.has_family(*f), b.has_family(*f))).with("what", "family"));
        }
        if !both {
            continue;
        }
        let (ma, mb) = (addpath_mode(&ca, *f), addpath_mode(&cb, *f));
        let a_tx = ma & 2 != 0 && mb & 1 != 0;
        let b_tx = mb & 2 != 0 && ma & 1 != 0;
        let (sa, sb) = (a.family_state(*f).unwrap(), b.family_state(*f).unwrap());
        if sa.addpath_tx != a_tx || sb.addpath_rx != a_tx || sb.addpath_tx != b_tx || sa.addpath_rx != b_tx {
            return Err(Failure::new("negotiate", format!("{f:?}: add-path modes A={ma} B={mb}: A tx/rx = {}/{}, B tx/rx = {}/{}; expected A->B {a_tx}, B->A {b_tx}", sa.addpath_tx, sa.addpath_rx, sb.addpath_tx, sb.addpath_rx)).with("what", "add-path"));
        }
        info.nontrivial |= ma != 0 || mb != 0;
    }
    let ext = c.a.ext_msg && c.b.ext_msg;
    if (a.max_message_length() > 4096) != ext || (b.max_message_length() > 4096) != ext {
        return Err(Failure::new("negotiate", format!("extended message advertised by A {} and B {}: limits {} / {}", c.a.ext_msg, c.b.ext_msg, a.max_message_length(), b.max_message_length())).with("what", "extended-message"));
    }
    Ok(info)
}

// ---------------------------------------------------------------------------
// what the FSM hands the session at Established vs what the codec negotiated
// ---------------------------------------------------------------------------

#[derive(Clone, Debug, Serialize, Deserialize)]
pub struct FsmCase {
    /// local families with add-path mode, and configured send-max per family index
    pub local: Vec<(u8, u8)>,
    pub send_max: Vec<(u8, u8)>,
    pub remote: CapSpec,
}

pub fn check_fsm_params(c: &FsmCase) -> CheckResult {
    use crate::fsm::{Input, Output, PeerFsm, PeerFsmOutput, Role};
    let families = fams(&c.local);
    let fam_map: fnv::FnvHashMap<Family, u8> = families.iter().copied().collect();
    let local_cap = crate::event::PeerParams::build_local_cap(IpAddr::V4(Ipv4Addr::new(10, 0, 0, 2)), 65000, &fam_map, None, None);
    let mut send_max: fnv::FnvHashMap<Family, usize> = Default::default();
    for (f, n) in &c.send_max {
        send_max.insert(ALL_FAMILIES[*f as usize % 19], 2 + (*n % 6) as usize);
    }
    let mut remote_caps = c.remote.build();
    // the peer's own AS in its four-octet capability
    remote_caps.retain(|x| !matches!(x, Capability::FourOctetAsNumber(_)));
    remote_caps.push(Capability::FourOctetAsNumber(65100));
    let mut fsm = PeerFsm::new(0x0100_0001, 65000, local_cap.clone(), 90, 0, send_max.clone());
    let open = packet::bgp::Message::Open(packet::bgp::Open { as_number: 65100, holdtime: packet::bgp::HoldTime::new(90).unwrap(), router_id: 0x0a00_0002, capability: remote_caps.clone() });
    let mut outs = Vec::new();
    outs.extend(catch(|| fsm.process(Role::Passive, Input::Connected(false))).map_err(|p| p.into_failure("PeerFsm"))?);
    outs.extend(catch(|| fsm.process(Role::Passive, Input::MessageReceived(open))).map_err(|p| p.into_failure("PeerFsm"))?);
    outs.extend(catch(|| fsm.process(Role::Passive, Input::MessageReceived(packet::bgp::Message::Keepalive))).map_err(|p| p.into_failure("PeerFsm"))?);
    let mut codec = None;
    let mut eff = None;
    for o in outs {
        match o {
            PeerFsmOutput::Connection(_, Output::SessionNegotiated(cd)) => codec = Some(cd),
            PeerFsmOutput::Connection(_, Output::SessionEstablished { effective_max, .. }) => eff = Some(effective_max),
            _ => {}
        }
    }
    let (Some(codec), Some(eff)) = (codec, eff) else { return Ok(CaseInfo::trivial().class("not-established")) };
    let remote_mp = mp_families(&remote_caps);
    let mut info = CaseInfo::trivial();
    for f in ALL_FAMILIES.iter().take(19) {
        let local_has = if families.is_empty() { *f == Family::IPV4 } else { families.iter().any(|(x, _)| x == f) };
        let both = local_has && remote_mp.contains(f);
        if codec.has_family(*f) != both {
            return Err(Failure::new("fsm-parameters", format!("{f:?}: advertised locally {local_has}, by the peer {}; in force {}", remote_mp.contains(f), codec.has_family(*f))).with("what", "family"));
        }
        let lm = families.iter().find(|(x, _)| x == f).map(|(_, m)| *m).unwrap_or(0);
        let rm = addpath_mode(&remote_caps, *f);
        let tx = both && lm & 2 != 0 && rm & 1 != 0;
        let rx = both && lm & 1 != 0 && rm & 2 != 0;
        if both {
            let st = codec.family_state(*f).unwrap();
            if st.addpath_tx != tx || st.addpath_rx != rx {
                return Err(Failure::new("fsm-parameters", format!("{f:?}: add-path modes local {lm} / peer {rm}: codec sends path ids {} and expects them {}; both ends advertised: send {tx}, receive {rx}", st.addpath_tx, st.addpath_rx)).with("what", "add-path"));
            }
        }
        // the send-max handed to the session must go with the codec's send direction
        let want = if tx { send_max.get(f).copied() } else { None };
        if eff.get(f).copied() != want {
            return Err(Failure::new("fsm-parameters", format!("{f:?}: add-path modes local {lm} / peer {rm}, configured send-max {:?}: the session is told to send up to {:?} paths per prefix, while path identifiers are {} on this session (expected {:?})", send_max.get(f), eff.get(f), if tx { "sent" } else { "not sent" }, want)).with("what", "send-max"));
        }
        info.nontrivial |= send_max.contains_key(f) && both && (lm != 0 || rm != 0);
    }
    Ok(info.class("established"))
}

// ---------------------------------------------------------------------------
// generators
// ---------------------------------------------------------------------------

fn arb_fams() -> impl Strategy<Value = Vec<(u8, u8)>> {
    prop_oneof![2 => Just(vec![]), 3 => proptest::collection::vec((0u8..19, prop_oneof![3 => Just(0u8), 1 => 1u8..4]), 1..4)]
}

pub fn arb_case() -> impl Strategy<Value = Case> {
    let nb = (0u8..6, 0u8..5, proptest::option::weighted(0.3, 0u8..5), prop::bool::weighted(0.2), prop::bool::weighted(0.3), proptest::option::weighted(0.3, any::<u32>()), prop::bool::weighted(0.25), prop_oneof![Just(0u16), Just(3), Just(90), Just(180)], arb_fams(), proptest::option::weighted(0.3, 1u32..1000))
        .prop_map(|(host, remote, local, rs, rr, cluster, admin_down, hold, fams, limit)| Nb { host, remote, local, rs, rr, cluster, admin_down, hold, fams, limit });
    let grp = (proptest::collection::vec((prop_oneof![Just(0u8), Just(64), Just(128), Just(130), Just(192)], prop_oneof![Just(0u8), Just(8), Just(24), Just(25), Just(26), Just(31), Just(32)]), 1..3), 0u8..5, proptest::option::weighted(0.3, 0u8..5), prop::bool::weighted(0.2), prop::bool::weighted(0.3), proptest::option::weighted(0.3, any::<u32>()), proptest::option::weighted(0.5, prop_oneof![Just(3u16), Just(90)]), arb_fams())
        .prop_map(|(prefixes, remote, local, rs, rr, cluster, hold, fams)| Grp { prefixes, remote, local, rs, rr, cluster, hold, fams });
    let src = prop_oneof![4 => (0u8..6).prop_map(Src::Neighbor), 4 => prop_oneof![Just(1u8), Just(65), Just(129), Just(131), Just(193), Just(254)].prop_map(Src::InGroups), 1 => (0u8..5).prop_map(Src::Outside)];
    let op = prop_oneof![6 => (src, prop::bool::weighted(0.25)).prop_map(|(src, active)| Op::Connect { src, active }), 3 => (0u8..8).prop_map(Op::Close), 1 => (0u8..6, any::<bool>()).prop_map(|(host, down)| Op::AdminDown { host, down })];
    (0u8..5, proptest::option::weighted(0.3, (0u8..5, proptest::collection::vec(0u8..5, 0..3))), proptest::collection::vec(nb, 0..4), proptest::collection::vec(grp, 0..3), proptest::collection::vec(op, 1..10)).prop_map(|(asn, confed, nbs, grps, ops)| Case { asn, confed, nbs, grps, ops })
}

// ---------------------------------------------------------------------------
// a dynamic neighbour's state disappears when its last connection ends, also when the
// session had negotiated graceful restart (PeerSession::run's delete-on-disconnect step)
// ---------------------------------------------------------------------------

pub const DYN_RULE: &str = "dynamic-sessions: a peer group with a dynamic-neighbour prefix, with or without graceful restart configured; a wire-level peer inside the prefix connects, optionally completes the OPEN exchange (advertising graceful restart with or without the N-bit, or not), optionally announces a route, optionally a second connection arrives from the same address meanwhile (it gets no session, and its end does not remove the neighbour), and the connection ends (FIN, RST, Cease sent by the peer). After the daemon's session task has ended no neighbour entry is left for the address, and a later connection from it is treated as a new dynamic neighbour (it gets an OPEN). non-trivial := the session reached Established with graceful restart negotiated";

#[derive(Clone, Debug, Serialize, Deserialize)]
pub struct DynCase {
    pub group_gr: bool,
    pub group_nbit: bool,
    /// 0 = close before OPEN, 1 = establish without GR, 2 = establish with GR, 3 = establish with GR + N-bit
    pub peer: u8,
    pub announce: bool,
    /// 0 FIN, 1 RST, 2 Cease sent by the peer
    pub end: u8,
    pub reconnect: bool,
    /// while the first connection is up, a second one arrives from the same address (and is closed again)
    #[serde(default)]
    pub second: bool,
}

pub fn check_dynamic(c: &DynCase) -> CheckResult {
    let rt = tokio::runtime::Builder::new_current_thread().enable_all().event_interval(1).build().map_err(|e| Failure::new("harness", e.to_string()))?;
    rt.block_on(dynamic(c))
}

async fn dynamic(c: &DynCase) -> CheckResult {
    use crate::props::wirepeer::{WirePeer, fresh_loopback};
    use rustybgp_packet::bgp::{self, Message, Update};
    let h = |e: String| Failure::new("harness", e);
    let src = fresh_loopback();
    let rig = std::rc::Rc::new(AdmitRig::new(65000, None).await.map_err(h)?);
    let IpAddr::V4(v4src) = src else { unreachable!() };
    let o = v4src.octets();
    rig.add_group(&GroupCfg {
        name: "dyn".into(),
        prefixes: vec![(IpAddr::V4(Ipv4Addr::new(o[0], o[1], o[2], 0)), 24)],
        as_number: 65100,
        local_asn: 0,
        rs_client: false,
        rr_client: false,
        cluster_id: None,
        holdtime: Some(90),
        families: vec![(Family::IPV4, 0)],
        gr: if c.group_gr { Some((120, c.group_nbit, vec![Family::IPV4])) } else { None },
    })
    .await;
    let mut p = WirePeer::on(rig.clone(), src);
    p.connect().await?;
    if !rig.has_peer(src).await {
        return Err(Failure::new("dynamic", format!("a connection from {src}, inside the dynamic prefix, did not create a neighbour")).with("what", "not-created"));
    }
    let mut negotiated_gr = false;
    if c.peer % 4 != 0 {
        let mut caps = vec![Capability::MultiProtocol(Family::IPV4), Capability::FourOctetAsNumber(65100)];
        if c.peer % 4 >= 2 {
            caps.push(Capability::GracefulRestart { flags: if c.peer % 4 == 3 { 0x4 } else { 0 }, restart_time: 60, families: vec![(Family::IPV4, 0x80)] });
            negotiated_gr = c.group_gr;
        }
        if !p.establish(65100, 0, 0x0a00_0007, caps.clone()).await? {
            return Err(Failure::new("harness", "the session did not establish".to_string()));
        }
        if c.announce {
            let mut codec = PeerCodec::negotiate(&caps, &caps);
            let attr = std::sync::Arc::new(crate::cgen::AttrSpec { origin: Some(0), as_path: Some(vec![crate::cgen::Seg { t: 2, n: 1, base: 65100, asns: vec![] }]), ..Default::default() }.build());
            let msg = Message::Update(Update::Reach { family: Family::IPV4, entries: vec![bgp::PathNlri { path_id: 0, nlri: crate::cgen::v4(10, 90, 0, 0, 16) }], nexthop: Some(bgp::Nexthop::V4(Ipv4Addr::new(192, 0, 2, 1))), attr });
            p.send_msg(&mut codec, &msg).await?;
        }
        if c.end % 3 == 2 {
            let mut codec = PeerCodec::new();
            p.send_msg(&mut codec, &Message::Notification(rustybgp_packet::Notification::CeaseAdminShutdown)).await?;
        }
    }
    if c.second && !(c.peer % 4 != 0 && c.end % 3 == 2) {
        // the neighbour has a connection in this direction: a second one gets no session, and its end is not
        // the end of the neighbour's last connection
        let (view, mut conn) = rig.connect_now(src, false).await.map_err(h)?;
        if view.is_some() {
            return Err(Failure::new("dynamic", format!("a second connection from {src} in the same direction was given a session while the first is up")).with("what", "second-session"));
        }
        drop(conn.client.take());
        if let Some(t) = conn.task.take() {
            for _ in 0..2000 {
                p.settle().await;
                if t.is_finished() {
                    break;
                }
            }
        }
        p.settle().await;
        if !rig.has_peer(src).await {
            return Err(Failure::new("dynamic", format!("the dynamic neighbour {src} was removed when a second, refused connection ended although its first connection is still up")).with("what", "removed-early"));
        }
        if p.is_closed() {
            return Err(Failure::new("dynamic", format!("the first connection of {src} was closed by the daemon when a second connection from the same address arrived")).with("what", "first-closed"));
        }
    }
    if c.end % 3 == 1 {
        p.set_linger_zero();
    }
    p.close().await?;
    if rig.has_peer(src).await {
        return Err(Failure::new("dynamic", format!("the dynamic neighbour {src} is still there after its only connection ended (group graceful restart: {}, negotiated: {negotiated_gr}, end: {})", c.group_gr, ["FIN", "RST", "Cease from the peer"][(c.end % 3) as usize])).with("what", "not-removed").with("negotiated_gr", negotiated_gr));
    }
    if c.reconnect {
        p.connect().await?;
        for _ in 0..200 {
            p.settle().await;
            if p.rx.len() >= 19 {
                break;
            }
        }
        if p.rx.len() < 19 || p.rx[18] != 1 {
            return Err(Failure::new("dynamic", format!("a new connection from {src} after its state was removed did not get an OPEN")).with("what", "no-open"));
        }
        p.close().await?;
    }
    Ok(CaseInfo::nt(negotiated_gr && c.peer % 4 != 0).class_if(negotiated_gr, "dynamic/gr-negotiated").class_if(c.peer % 4 == 0, "dynamic/closed-before-open"))
}

pub fn arb_dynamic() -> impl Strategy<Value = DynCase> {
    (any::<bool>(), any::<bool>(), 0u8..4, any::<bool>(), 0u8..3, any::<bool>(), any::<bool>()).prop_map(|(group_gr, group_nbit, peer, announce, end, reconnect, second)| DynCase { group_gr, group_nbit, peer, announce, end, reconnect, second })
}

pub fn run(r: &Run) {
    r.set_rule(RULE);
    r.assume("configured neighbours are passive (no outgoing connection attempts from the rig); IPv4 loopback source addresses stand for neighbour addresses; when several peer groups cover an address the session may follow any of them (the statement does not rank overlapping prefixes of different groups)");
    r.assume("enable / disable is the admin_down flag; the session-closing side effects of the gRPC disable call are not exercised");
    r.prop("admission", r.tier.pick(30_000, 400_000), arb_case, check);
    r.prop("negotiate", r.tier.pick(30_000, 1_000_000), || (arb_caps(8), arb_caps(8)).prop_map(|(a, b)| NegCase { a, b }), check_negotiate);
    r.prop("fsm-parameters", r.tier.pick(60_000, 1_500_000), || (proptest::collection::vec((0u8..6, 0u8..4), 0..4), proptest::collection::vec((0u8..6, any::<u8>()), 0..3), arb_caps(6)).prop_map(|(local, send_max, mut remote)| {
        // meet on few families so that both ends often advertise the same ones
        for (f, _) in remote.families.iter_mut() {
            *f %= 6;
        }
        FsmCase { local, send_max, remote }
    }), check_fsm_params);
    r.assume(DYN_RULE);
    r.slow(|| r.prop("dynamic-sessions", r.tier.pick(3_000, 60_000), arb_dynamic, check_dynamic));
}

pub fn replay(sub: &str, case: &Value) -> Result<CheckResult, String> {
    match sub {
        "negotiate" => Ok(check_negotiate(&decode_case(case)?)),
        "fsm-parameters" => Ok(check_fsm_params(&decode_case(case)?)),
        "dynamic-sessions" => Ok(check_dynamic(&decode_case(case)?)),
        _ => Ok(check(&decode_case(case)?)),
    }
}
