//! C05 — a malformed UPDATE never installs a route; the session resets only if it must.
//!
//! A valid UPDATE is assembled byte by byte by the harness (header, withdrawn routes,
//! attribute TLVs, NLRI) from a structured model, then 1-3 corruptions from the RFC 7606
//! catalogue are applied *to the model* so that each one's class is known. The bytes go
//! through `PeerCodec::parse_message` + `validate_message` and the resulting messages are
//! judged by a reference classifier written from the statement.

use crate::cgen::nlri::*;
use crate::cgen::wire::*;
use crate::cgen::*;
use crate::common::*;
use proptest::prelude::*;
use rustybgp_packet as packet;
use rustybgp_packet::bgp::{self, Capability, Family, Message, PeerCodec, Update};
use serde::{Deserialize, Serialize};
use serde_json::Value;
use std::collections::BTreeSet;

pub const RULE: &str = "cases: a valid UPDATE (legacy withdrawn routes, legacy NLRI, MP_REACH and MP_UNREACH for any of the 20 families, a full attribute set) assembled byte-by-byte by the harness, with 0-3 corruptions from the RFC 7606 catalogue per attribute instance \
(optional/transitive/partial flag flips, data too short/too long with a consistent length octet, length octet overrunning the attribute block, bad value, duplicate with a different value, omission of a mandatory attribute, unknown well-known / optional attributes, truncated attribute block, iBGP-only attributes on eBGP) \
for eBGP and iBGP receivers and 2-/4-octet AS sessions. Reference classifier: attribute TYPE optional non-transitive (or AS4_PATH/AS4_AGGREGATOR) => discard-or-withdraw, every other attribute error => treat-as-withdraw; a NOTIFICATION is allowed only when the corruption hits the NLRI framing itself (or MP_REACH/MP_UNREACH). \
Checked: announced prefixes are in an Unreach and in no Reach when treat-as-withdraw applies; a kept route never carries a corrupted attribute; original withdrawals are all present; no LOCAL_PREF/ORIGINATOR_ID/CLUSTER_LIST survives from eBGP; an uncorrupted UPDATE yields exactly its routes and attributes. \
non-trivial := at least two corruptions, or a corruption together with withdrawals in the same message, or a non-IPv4-unicast family; distinct := distinct serialized case";

#[derive(Clone, Debug, Serialize, Deserialize, PartialEq)]
pub enum Kind {
    FlipOptional,
    FlipTransitive,
    FlipPartial,
    /// remove k bytes from the value (length octet stays consistent)
    Shorter(u8),
    /// append k bytes to the value (length octet stays consistent)
    Longer(u8),
    /// the length octet claims more than the attribute block holds
    Overrun,
    BadValue,
    /// a second instance of the attribute with a different value follows the first
    Duplicate,
    Omit,
}

#[derive(Clone, Debug, Serialize, Deserialize)]
pub enum Corruption {
    /// corruption of the k-th attribute (scaled index into the attribute list)
    Attr { k: u16, kind: Kind },
    UnknownWellKnown { code: u8, len: u8 },
    UnknownOptional { code: u8, transitive: bool, len: u8 },
    /// the last attribute is cut short and the attribute-block length adjusted to match
    TruncateBlock { cut: u8 },
    /// a legacy NLRI / withdrawn prefix gets an impossible length (NLRI not parseable)
    NlriBadLength { withdrawn: bool },
}

#[derive(Clone, Debug, Serialize, Deserialize)]
pub struct Case {
    pub ebgp: bool,
    /// session-rib only: the external peer is a route-server client (still an eBGP peer)
    #[serde(default)]
    pub rs_client: bool,
    pub two_byte_as: bool,
    pub fam: u8,
    /// family of the MP_UNREACH attribute (may differ from the MP_REACH family)
    #[serde(default)]
    pub unreach_fam: Option<u8>,
    pub withdrawn: Vec<(u32, u8)>,
    pub nlri: Vec<(u32, u8)>,
    pub mp_reach: Option<(NlriSpec, u8)>,
    pub mp_unreach: Option<(NlriSpec, u8)>,
    pub nh_v6: bool,
    pub attrs: AttrSpec,
    pub as4_path: bool,
    pub corruptions: Vec<Corruption>,
}

#[derive(Clone, Debug)]
struct RawAttr {
    flags: u8,
    code: u8,
    data: Vec<u8>,
    /// length octet(s) to write; None = data.len()
    claimed_len: Option<usize>,
    corrupted: bool,
}

#[derive(Clone, Copy, PartialEq, Eq, Debug)]
enum Class {
    None,
    Discard,
    Withdraw,
}

fn canonical_flags(code: u8) -> Option<u8> {
    packet::Attribute::canonical_flags(code)
}

/// Classification by attribute TYPE, as the statement words it.
fn class_of(code: u8) -> Class {
    if code == 17 || code == 18 {
        return Class::Discard;
    }
    match canonical_flags(code) {
        Some(f) if f & 0x80 != 0 && f & 0x40 == 0 => Class::Discard,
        _ => Class::Withdraw,
    }
}

fn v4_prefix_bytes(p: &(u32, u8)) -> Vec<u8> {
    let len = p.1.min(32);
    let a = if len == 0 { 0 } else { p.0 & (!0u32 << (32 - len)) };
    let mut b = vec![len];
    b.extend_from_slice(&a.to_be_bytes()[..len.div_ceil(8) as usize]);
    b
}

fn v4_nlri(p: &(u32, u8)) -> bgp::Nlri {
    NlriSpec::V4 { addr: p.0, len: p.1.min(32) }.build()
}

fn raw_attrs(c: &Case) -> Vec<RawAttr> {
    let mut v = Vec::new();
    let push = |v: &mut Vec<RawAttr>, code: u8, data: Vec<u8>| v.push(RawAttr { flags: canonical_flags(code).unwrap_or(0xc0), code, data, claimed_len: None, corrupted: false });
    let a = &c.attrs;
    if let Some(o) = a.origin {
        push(&mut v, 1, vec![o]);
    }
    if let Some(segs) = &a.as_path {
        let mut d = Vec::new();
        for s in segs {
            let list = s.asn_list();
            d.push(s.t);
            d.push(list.len().min(255) as u8);
            for asn in list.iter().take(255) {
                if c.two_byte_as {
                    d.extend_from_slice(&(*asn as u16).to_be_bytes());
                } else {
                    d.extend_from_slice(&asn.to_be_bytes());
                }
            }
        }
        push(&mut v, 2, d);
    }
    if !c.nlri.is_empty() {
        push(&mut v, 3, vec![192, 0, 2, 1]);
    }
    if let Some(m) = a.med {
        push(&mut v, 4, m.to_be_bytes().to_vec());
    }
    if let Some(l) = a.local_pref {
        push(&mut v, 5, l.to_be_bytes().to_vec());
    }
    if a.atomic_aggregate {
        push(&mut v, 6, vec![]);
    }
    if let Some((asn, addr)) = a.aggregator {
        let mut d = if c.two_byte_as { (asn as u16).to_be_bytes().to_vec() } else { asn.to_be_bytes().to_vec() };
        d.extend_from_slice(&addr.to_be_bytes());
        push(&mut v, 7, d);
    }
    if !a.communities.is_empty() {
        push(&mut v, 8, a.communities.iter().flat_map(|c| c.to_be_bytes()).collect());
    }
    if let Some(o) = a.originator_id {
        push(&mut v, 9, o.to_be_bytes().to_vec());
    }
    if !a.cluster_list.is_empty() {
        push(&mut v, 10, a.cluster_list.iter().flat_map(|c| c.to_be_bytes()).collect());
    }
    if let Some((first, n)) = &c.mp_reach {
        let fam = fam_of(c.fam);
        let mut d = Vec::new();
        d.extend_from_slice(&fam.afi().to_be_bytes());
        d.push(fam.safi());
        let flow = matches!(fam, Family::IPV4_FLOWSPEC | Family::IPV6_FLOWSPEC | Family::IPV4_FLOWSPEC_VPN | Family::IPV6_FLOWSPEC_VPN);
        let vpn = matches!(fam, Family::IPV4_VPN | Family::IPV6_VPN);
        if flow {
            d.push(0);
        } else {
            let nh: Vec<u8> = if c.nh_v6 { vec![0x20, 1, 0xd, 0xb8, 0, 0, 0, 0, 0, 0, 0, 0, 0, 0, 0, 1] } else { vec![192, 0, 2, 1] };
            if vpn {
                d.push(8 + nh.len() as u8);
                d.extend_from_slice(&[0; 8]);
            } else {
                d.push(nh.len() as u8);
            }
            d.extend_from_slice(&nh);
        }
        d.push(0);
        for i in 0..*n as u32 {
            d.extend_from_slice(&nth_entry(first, i).build().encode_to_bytes());
        }
        push(&mut v, 14, d);
    }
    if let Some((first, n)) = &c.mp_unreach {
        let fam = fam_of(c.unreach_fam.unwrap_or(c.fam));
        let mut d = Vec::new();
        d.extend_from_slice(&fam.afi().to_be_bytes());
        d.push(fam.safi());
        for i in 0..*n as u32 {
            let e = nth_entry(first, 100 + i).build();
            // withdrawn labeled prefixes carry one compatibility label field
            let e = match e {
                bgp::Nlri::LabeledV4(n) => bgp::Nlri::LabeledV4(packet::labeled::LabeledV4Nlri { labels: packet::mpls::MplsLabelStack::new(vec![packet::mpls::MplsLabel::new(0x80000)]), prefix: n.prefix }),
                bgp::Nlri::LabeledV6(n) => bgp::Nlri::LabeledV6(packet::labeled::LabeledV6Nlri { labels: packet::mpls::MplsLabelStack::new(vec![packet::mpls::MplsLabel::new(0x80000)]), prefix: n.prefix }),
                o => o,
            };
            d.extend_from_slice(&e.encode_to_bytes());
        }
        push(&mut v, 15, d);
    }
    if !a.ext_communities.is_empty() {
        push(&mut v, 16, a.ext_communities.iter().flat_map(|c| c.to_be_bytes()).collect());
    }
    if c.as4_path && c.two_byte_as {
        push(&mut v, 17, vec![2, 1, 0, 1, 0x11, 0x70]);
    }
    if let Some(g) = a.aigp {
        let mut d = vec![1u8, 0, 11];
        d.extend_from_slice(&g.to_be_bytes());
        push(&mut v, 26, d);
    }
    if !a.large_communities.is_empty() {
        push(&mut v, 32, a.large_communities.iter().flat_map(|(x, y, z)| [x.to_be_bytes(), y.to_be_bytes(), z.to_be_bytes()].concat()).collect());
    }
    v
}

struct Built {
    bytes: Vec<u8>,
    taw: bool,
    discard_codes: BTreeSet<u8>,
    corrupted_codes: BTreeSet<u8>,
    reset_allowed: bool,
    mp_relaxed: bool,
    /// an MP_REACH/MP_UNREACH attribute itself is malformed: withdrawing the other
    /// announced prefixes as well is what the statement asks for, keeping them is tolerated
    taw_optional: bool,
    n_corruptions: usize,
    dup_codes: BTreeSet<u8>,
    kinds: Vec<&'static str>,
}

fn bad_value(code: u8, two_byte: bool) -> Option<Vec<u8>> {
    Some(match code {
        1 => vec![3],
        2 => {
            if two_byte { vec![9, 1, 0xfd, 0xe9] } else { vec![0, 1, 0, 0, 0xfd, 0xe9] }
        }
        _ => return None,
    })
}

fn build(c: &Case) -> Built {
    let mut attrs = raw_attrs(c);
    let mut b = Built { bytes: vec![], taw: false, discard_codes: BTreeSet::new(), corrupted_codes: BTreeSet::new(), reset_allowed: false, mp_relaxed: false, taw_optional: false, n_corruptions: 0, dup_codes: BTreeSet::new(), kinds: vec![] };
    let announces = !c.nlri.is_empty() || c.mp_reach.as_ref().is_some_and(|(_, n)| *n > 0);
    let mut extra_tail: Vec<RawAttr> = Vec::new();
    let mut truncate: Option<u8> = None;
    let mut nlri_bad: Option<bool> = None;
    let mut overrun = false;
    let mut mark = |b: &mut Built, code: u8, class: Class| {
        b.n_corruptions += 1;
        b.corrupted_codes.insert(code);
        if code == 14 || code == 15 {
            b.mp_relaxed = true;
            b.taw_optional = true;
            return;
        }
        match class {
            Class::Withdraw => b.taw = true,
            Class::Discard => {
                b.discard_codes.insert(code);
            }
            Class::None => {}
        }
    };
    for cor in &c.corruptions {
        match cor {
            Corruption::Attr { k, kind } => {
                if attrs.is_empty() {
                    continue;
                }
                let i = pick_idx(*k, attrs.len());
                if attrs[i].corrupted {
                    continue;
                }
                let code = attrs[i].code;
                match kind {
                    Kind::FlipOptional => {
                        attrs[i].flags ^= 0x80;
                        attrs[i].corrupted = true;
                        b.kinds.push("flags-optional");
                        mark(&mut b, code, class_of(code));
                    }
                    Kind::FlipTransitive => {
                        attrs[i].flags ^= 0x40;
                        attrs[i].corrupted = true;
                        b.kinds.push("flags-transitive");
                        mark(&mut b, code, class_of(code));
                    }
                    Kind::FlipPartial => {
                        // Partial on an optional transitive attribute is legal; on anything
                        // else RFC 7606 does not make it an error the statement mentions.
                        attrs[i].flags ^= 0x20;
                        b.kinds.push("flags-partial");
                        b.n_corruptions += 1;
                    }
                    Kind::Shorter(n) => {
                        // only attributes whose length is constrained are "malformed" when shortened
                        let fixed = matches!(code, 1 | 3 | 4 | 5 | 7 | 9 | 18) || (matches!(code, 8 | 10) && attrs[i].data.len() >= 4) || (code == 16 && attrs[i].data.len() >= 8) || (code == 32 && attrs[i].data.len() >= 12) || code == 2 && !attrs[i].data.is_empty();
                        if !fixed || attrs[i].data.is_empty() {
                            continue;
                        }
                        let cut = (1 + *n as usize % 3).min(attrs[i].data.len());
                        let new_len = attrs[i].data.len() - cut;
                        // keep it malformed: multiples allowed by the attribute are not errors
                        let still_ok = match code {
                            8 | 10 => new_len % 4 == 0,
                            16 => new_len % 8 == 0,
                            32 => new_len % 12 == 0,
                            2 => false,
                            _ => false,
                        };
                        if still_ok {
                            continue;
                        }
                        if code == 2 {
                            // AS_PATH: cutting bytes makes a segment overrun the attribute
                            attrs[i].data.truncate(new_len);
                        } else {
                            attrs[i].data.truncate(new_len);
                        }
                        attrs[i].corrupted = true;
                        b.kinds.push("value-too-short");
                        mark(&mut b, code, class_of(code));
                    }
                    Kind::Longer(n) => {
                        let fixed = matches!(code, 1 | 3 | 4 | 5 | 6 | 7 | 9 | 18 | 8 | 10 | 16 | 32 | 2);
                        if !fixed {
                            continue;
                        }
                        let add = 1 + *n as usize % 3;
                        let new_len = attrs[i].data.len() + add;
                        let still_ok = match code {
                            8 | 10 => new_len % 4 == 0,
                            16 => new_len % 8 == 0,
                            32 => new_len % 12 == 0,
                            7 => new_len == 6 || new_len == 8,
                            _ => false,
                        };
                        if still_ok {
                            continue;
                        }
                        attrs[i].data.extend(std::iter::repeat_n(0xeeu8, add));
                        attrs[i].corrupted = true;
                        b.kinds.push("value-too-long");
                        mark(&mut b, code, class_of(code));
                    }
                    Kind::Overrun => overrun = true,
                    Kind::BadValue => {
                        if let Some(v) = bad_value(code, c.two_byte_as) {
                            attrs[i].data = v;
                            attrs[i].corrupted = true;
                            b.kinds.push("bad-value");
                            mark(&mut b, code, class_of(code));
                        }
                    }
                    Kind::Duplicate => {
                        if code == 14 || code == 15 {
                            // duplicate MP_REACH/MP_UNREACH: session reset is mandated
                            let mut d = attrs[i].clone();
                            d.corrupted = true;
                            extra_tail.push(d);
                            b.reset_allowed = true;
                            b.mp_relaxed = true;
                            b.taw_optional = true;
                            b.n_corruptions += 1;
                            b.kinds.push("duplicate-mp");
                        } else {
                            let mut d = attrs[i].clone();
                            // a different (still well-formed) value: must NOT be believed
                            match code {
                                1 => d.data = vec![(d.data[0] + 1) % 3],
                                4 | 5 | 9 => d.data = 777u32.to_be_bytes().to_vec(),
                                8 => d.data = 0xdead_beefu32.to_be_bytes().to_vec(),
                                _ => {}
                            }
                            extra_tail.push(d);
                            b.dup_codes.insert(code);
                            b.n_corruptions += 1;
                            b.kinds.push("duplicate");
                        }
                    }
                    Kind::Omit => {
                        if (matches!(code, 1 | 2) || (code == 3 && !c.nlri.is_empty())) && !b.dup_codes.contains(&code) {
                            attrs.remove(i);
                            b.n_corruptions += 1;
                            b.kinds.push("omit-mandatory");
                            if announces {
                                b.taw = true;
                            }
                        }
                    }
                }
            }
            Corruption::UnknownWellKnown { code, len } => {
                let code = 100 + code % 100;
                if extra_tail.iter().any(|a| a.code == code) {
                    continue;
                }
                extra_tail.push(RawAttr { flags: 0x40, code, data: vec![0xab; *len as usize % 9], claimed_len: None, corrupted: true });
                b.n_corruptions += 1;
                b.taw = true;
                b.kinds.push("unknown-well-known");
            }
            Corruption::UnknownOptional { code, transitive, len } => {
                let code = 100 + code % 100;
                if extra_tail.iter().any(|a| a.code == code) {
                    continue;
                }
                extra_tail.push(RawAttr { flags: if *transitive { 0xc0 } else { 0x80 }, code, data: vec![0xcd; *len as usize % 9], claimed_len: None, corrupted: false });
                b.kinds.push(if *transitive { "unknown-optional-transitive" } else { "unknown-optional-non-transitive" });
            }
            Corruption::TruncateBlock { cut } => truncate = Some(*cut),
            Corruption::NlriBadLength { withdrawn } => nlri_bad = Some(*withdrawn),
        }
    }
    attrs.extend(extra_tail);
    if overrun
        && truncate.is_none()
        && let Some(last) = attrs.last_mut()
        && !last.corrupted
    {
        // the LAST attribute claims more bytes than the block holds
        let code = last.code;
        last.claimed_len = Some(last.data.len() + 7);
        last.corrupted = true;
        b.kinds.push("length-overrun");
        b.n_corruptions += 1;
        b.corrupted_codes.insert(code);
        if code == 14 || code == 15 {
            b.mp_relaxed = true;
            b.taw_optional = true;
        } else {
            // the attribute block is malformed as a whole: treat-as-withdraw
            b.taw = true;
        }
    }

    // ---- serialize ---------------------------------------------------------
    let mut ab = Vec::new();
    for a in &attrs {
        let l = a.claimed_len.unwrap_or(a.data.len());
        if l > 255 {
            ab.push(a.flags | 0x10);
            ab.push(a.code);
            ab.extend_from_slice(&(l as u16).to_be_bytes());
        } else {
            ab.push(a.flags & !0x10);
            ab.push(a.code);
            ab.push(l as u8);
        }
        ab.extend_from_slice(&a.data);
    }
    if let Some(cut) = truncate
        && let Some(last) = attrs.last()
    {
        let cut = (1 + cut as usize % 4).min(ab.len());
        // cut strictly inside the last TLV (removing a whole TLV would leave a well-formed block)
        let last_tlv = last.data.len() + if last.claimed_len.unwrap_or(last.data.len()) > 255 { 4 } else { 3 };
        if cut > 0 && cut < last_tlv && last.claimed_len.is_none() && !ab.is_empty() {
            ab.truncate(ab.len() - cut);
            b.n_corruptions += 1;
            b.kinds.push("truncated-block");
            b.corrupted_codes.insert(last.code);
            if last.code == 14 || last.code == 15 {
                b.mp_relaxed = true;
                b.taw_optional = true;
            } else {
                b.taw = true;
            }
        }
    }
    let mut wd: Vec<u8> = c.withdrawn.iter().flat_map(v4_prefix_bytes).collect();
    let mut nl: Vec<u8> = c.nlri.iter().flat_map(v4_prefix_bytes).collect();
    if let Some(w) = nlri_bad {
        if w && !wd.is_empty() {
            wd[0] = 33 + (wd[0] % 100);
            b.reset_allowed = true;
            b.n_corruptions += 1;
            b.kinds.push("nlri-bad-length");
        } else if !w && !nl.is_empty() {
            nl[0] = 33 + (nl[0] % 100);
            b.reset_allowed = true;
            b.n_corruptions += 1;
            b.kinds.push("nlri-bad-length");
        }
    }
    let total = 19 + 2 + wd.len() + 2 + ab.len() + nl.len();
    let mut out = vec![0xffu8; 16];
    out.extend_from_slice(&(total as u16).to_be_bytes());
    out.push(2);
    out.extend_from_slice(&(wd.len() as u16).to_be_bytes());
    out.extend_from_slice(&wd);
    out.extend_from_slice(&(ab.len() as u16).to_be_bytes());
    out.extend_from_slice(&ab);
    out.extend_from_slice(&nl);
    b.bytes = out;
    b
}

pub fn check(c: &Case) -> CheckResult {
    let b = build(c);
    if b.bytes.len() > 4096 {
        return Ok(CaseInfo::trivial().class("too-big"));
    }
    let fam = fam_of(c.fam);
    let ufam = fam_of(c.unreach_fam.unwrap_or(c.fam));
    let mut caps = vec![Capability::MultiProtocol(Family::IPV4), Capability::MultiProtocol(fam), Capability::MultiProtocol(ufam)];
    if !c.two_byte_as {
        caps.push(Capability::FourOctetAsNumber(65000));
    }
    let mut codec = PeerCodec::negotiate(&caps, &caps);

    let parsed = catch(|| codec.parse_message(&b.bytes)).map_err(|p| p.into_failure("parse_message"))?;
    let out: Result<Vec<Message>, packet::Notification> = match parsed {
        Err(n) => Err(n),
        Ok(pm) => catch(|| bgp::validate_message(pm, c.ebgp).map(|it| it.collect::<Vec<_>>())).map_err(|p| p.into_failure("validate_message"))?,
    };

    let announced_legacy: Vec<bgp::Nlri> = c.nlri.iter().map(v4_nlri).collect();
    let announced_mp: Vec<bgp::Nlri> = c.mp_reach.as_ref().map(|(f, n)| (0..*n as u32).map(|i| nth_entry(f, i).build()).collect()).unwrap_or_default();
    let withdrawn_legacy: Vec<bgp::Nlri> = c.withdrawn.iter().map(v4_nlri).collect();
    let n_withdrawn_mp = c.mp_unreach.as_ref().map(|(_, n)| *n as usize).unwrap_or(0);
    let kinds = b.kinds.join("+");
    let wit = |f: Failure| f.with("kinds", kinds.clone()).with("ebgp", c.ebgp).with("family", family_name(fam));

    let msgs = match out {
        Err(n) => {
            if b.reset_allowed || b.mp_relaxed {
                let mut info = CaseInfo::nt(true).class("reset-allowed");
                for k in &b.kinds {
                    info = info.class(kind_class(k));
                }
                return Ok(info);
            }
            return Err(wit(Failure::new("needless-reset", format!("session reset with {n:?} although the NLRI can be located and parsed (corruptions: {kinds})")).with("notification", format!("{n:?}").split([' ', '{']).next().unwrap_or("").to_string())));
        }
        Ok(m) => m,
    };

    let mut reach: Vec<(Family, Vec<bgp::Nlri>, std::sync::Arc<Vec<packet::Attribute>>)> = Vec::new();
    let mut unreach: Vec<(Family, bgp::Nlri)> = Vec::new();
    for m in &msgs {
        match m {
            Message::Update(Update::Reach { family, entries, attr, .. }) => reach.push((*family, entries.iter().map(|e| e.nlri.clone()).collect(), attr.clone())),
            Message::Update(Update::Unreach { family, entries }) => unreach.extend(entries.iter().map(|e| (*family, e.nlri.clone()))),
            _ => {}
        }
    }
    let in_reach = |n: &bgp::Nlri| reach.iter().any(|(_, e, _)| e.contains(n));
    let in_unreach = |n: &bgp::Nlri| unreach.iter().any(|(_, u)| u == n);
    let in_unreach_fam = |f: Family, n: &bgp::Nlri| unreach.iter().any(|(uf, u)| *uf == f && u == n);

    // (1) original withdrawals still take effect
    if !b.reset_allowed {
        for w in &withdrawn_legacy {
            if !in_unreach_fam(Family::IPV4, w) {
                return Err(wit(Failure::new("withdrawal-lost", format!("withdrawn route {w} of the UPDATE is not withdrawn by the output (corruptions: {kinds})"))));
            }
        }
        if !b.mp_relaxed && n_withdrawn_mp > 0 {
            let (first, n) = c.mp_unreach.as_ref().unwrap();
            for i in 0..*n as u32 {
                let e = nth_entry(first, 100 + i).build();
                let found = unreach.iter().any(|(uf, u)| *uf == ufam && same_prefix(u, &e));
                if !found {
                    return Err(wit(Failure::new("withdrawal-lost", format!("MP_UNREACH route {e} of the UPDATE is not withdrawn by the output (corruptions: {kinds})"))));
                }
            }
        }
    }

    // (2) announced prefixes
    let announced: Vec<&bgp::Nlri> = announced_legacy.iter().chain(if b.mp_relaxed { [].iter() } else { announced_mp.iter() }).collect();
    if b.taw {
        for p in &announced {
            if in_reach(p) {
                return Err(wit(Failure::new("faulty-route-kept", format!("{p} is announced although the UPDATE carries an error that requires treat-as-withdraw (corruptions: {kinds})")).with("corrupted_codes", format!("{:?}", b.corrupted_codes))));
            }
            if !in_unreach(p) {
                return Err(wit(Failure::new("not-withdrawn", format!("{p} was announced in a malformed UPDATE but is not treated as withdrawn (corruptions: {kinds})"))));
            }
        }
    } else {
        for p in &announced {
            let r = in_reach(p);
            let u = in_unreach(p);
            if !r && !u {
                return Err(wit(Failure::new("route-vanished", format!("{p} is neither announced nor withdrawn by the output (corruptions: {kinds})"))));
            }
            if !r && b.discard_codes.is_empty() && !b.taw_optional {
                return Err(wit(Failure::new("needless-withdraw", format!("{p} is withdrawn although the UPDATE has no attribute error (manipulations: {kinds})"))));
            }
        }
        // attributes of kept routes
        let mut want = c.attrs.build();
        if c.two_byte_as {
            // AS numbers were sent as two octets: the model values fit in 16 bits by construction
        }
        want.retain(|a| !(c.ebgp && matches!(a.code(), 5 | 9 | 10)));
        for (_, entries, attr) in &reach {
            if entries.is_empty() {
                continue;
            }
            for code in &b.discard_codes {
                if attr.iter().any(|a| a.code() == *code) {
                    return Err(wit(Failure::new("faulty-attribute-believed", format!("a kept route still carries attribute {code}, which was malformed in the UPDATE (corruptions: {kinds})")).with("attr_code", *code)));
                }
            }
            if c.ebgp && attr.iter().any(|a| matches!(a.code(), 5 | 9 | 10)) {
                return Err(wit(Failure::new("ibgp-attr-from-ebgp", "LOCAL_PREF / ORIGINATOR_ID / CLUSTER_LIST from an external peer survived".to_string())));
            }
            // every known attribute the route carries must be one the (uncorrupted part of
            // the) UPDATE had, with the first instance's value
            for a in attr.iter() {
                if a.is_opaque() || a.code() == 17 || a.code() == 18 || (a.code() == 2 && c.as4_path && c.two_byte_as) {
                    continue;
                }
                match want.iter().find(|w| w.code() == a.code()) {
                    None => return Err(wit(Failure::new("attribute-invented", format!("kept route carries attribute {} that the UPDATE did not have", a.code())))),
                    Some(w) => {
                        if (w.value(), w.binary()) != (a.value(), a.binary()) && !b.corrupted_codes.contains(&a.code()) {
                            let dup = b.dup_codes.contains(&a.code());
                            return Err(wit(Failure::new("attribute-altered", format!("attribute {} of the kept route differs from the first instance in the UPDATE (duplicate present: {dup})", a.code())).with("attr_code", a.code()).with("duplicate", dup)));
                        }
                    }
                }
            }
            for w in &want {
                if !b.discard_codes.contains(&w.code()) && !b.corrupted_codes.contains(&w.code()) && !attr.iter().any(|a| a.code() == w.code()) {
                    return Err(wit(Failure::new("attribute-lost", format!("attribute {} was well-formed in the UPDATE but is missing from the kept route", w.code())).with("attr_code", w.code())));
                }
            }
        }
    }

    let nt = b.n_corruptions >= 2 || (b.n_corruptions >= 1 && (!c.withdrawn.is_empty() || n_withdrawn_mp > 0)) || (c.mp_reach.is_some() && fam != Family::IPV4);
    let mut info = CaseInfo::nt(nt).class_if(b.taw, "expect/treat-as-withdraw").class_if(!b.taw && !b.discard_codes.is_empty(), "expect/discard").class_if(b.n_corruptions == 0, "expect/clean").class_if(c.ebgp, "ebgp").class_if(c.two_byte_as, "two-byte-as");
    for k in &b.kinds {
        info = info.class(kind_class(k));
    }
    Ok(info)
}

fn same_prefix(a: &bgp::Nlri, b: &bgp::Nlri) -> bool {
    match (a, b) {
        (bgp::Nlri::LabeledV4(x), bgp::Nlri::LabeledV4(y)) => x.prefix == y.prefix,
        (bgp::Nlri::LabeledV6(x), bgp::Nlri::LabeledV6(y)) => x.prefix == y.prefix,
        _ => a == b,
    }
}

fn kind_class(k: &str) -> &'static str {
    match k {
        "flags-optional" => "corruption/flags-optional",
        "flags-transitive" => "corruption/flags-transitive",
        "flags-partial" => "corruption/flags-partial",
        "value-too-short" => "corruption/value-too-short",
        "value-too-long" => "corruption/value-too-long",
        "length-overrun" => "corruption/length-overrun",
        "bad-value" => "corruption/bad-value",
        "duplicate" => "corruption/duplicate",
        "duplicate-mp" => "corruption/duplicate-mp",
        "omit-mandatory" => "corruption/omit-mandatory",
        "unknown-well-known" => "corruption/unknown-well-known",
        "unknown-optional-transitive" => "corruption/unknown-optional-transitive",
        "unknown-optional-non-transitive" => "corruption/unknown-optional-non-transitive",
        "truncated-block" => "corruption/truncated-block",
        "nlri-bad-length" => "corruption/nlri-bad-length",
        _ => "corruption/other",
    }
}

fn arb_kind() -> impl Strategy<Value = Kind> {
    prop_oneof![
        3 => Just(Kind::FlipOptional),
        3 => Just(Kind::FlipTransitive),
        1 => Just(Kind::FlipPartial),
        3 => (0u8..3).prop_map(Kind::Shorter),
        3 => (0u8..3).prop_map(Kind::Longer),
        1 => Just(Kind::Overrun),
        2 => Just(Kind::BadValue),
        2 => Just(Kind::Duplicate),
        2 => Just(Kind::Omit),
    ]
}

fn arb_corruption() -> impl Strategy<Value = Corruption> {
    prop_oneof![
        12 => (any::<u16>(), arb_kind()).prop_map(|(k, kind)| Corruption::Attr { k, kind }),
        1 => (any::<u8>(), any::<u8>()).prop_map(|(code, len)| Corruption::UnknownWellKnown { code, len }),
        2 => (any::<u8>(), any::<bool>(), any::<u8>()).prop_map(|(code, transitive, len)| Corruption::UnknownOptional { code, transitive, len }),
        1 => any::<u8>().prop_map(|cut| Corruption::TruncateBlock { cut }),
        1 => any::<bool>().prop_map(|withdrawn| Corruption::NlriBadLength { withdrawn }),
    ]
}

pub fn arb_case(max_corruptions: usize) -> impl Strategy<Value = Case> {
    (0u8..20).prop_flat_map(move |fam| {
        let family = fam_of(fam);
        (
            (any::<bool>(), any::<bool>(), Just(fam), any::<bool>(), any::<bool>()),
            proptest::collection::vec((any::<u32>(), 0u8..=32), 0..3),
            proptest::collection::vec((any::<u32>(), 0u8..=32), 0..3),
            proptest::option::weighted(0.6, (arb_nlri(family), 1u8..3)),
            prop_oneof![3 => Just(None), 1 => (Just(fam), arb_nlri(family), 1u8..3).prop_map(Some), 1 => (0u8..20).prop_flat_map(|uf| (Just(uf), arb_nlri(fam_of(uf)), 1u8..3)).prop_map(Some)],
            arb_wire_attrs(),
            proptest::collection::vec(arb_corruption(), 0..=max_corruptions),
        )
    })
    .prop_map(|((ebgp, two_byte_as, fam, nh_v6, as4_path), withdrawn, nlri, mp_reach, mp_unreach_f, mut attrs, corruptions)| {
        let unreach_fam = mp_unreach_f.as_ref().map(|(f, _, _)| *f);
        let mp_unreach = mp_unreach_f.map(|(_, n, k)| (n, k));
        // two-octet sessions: keep the model's AS numbers within 16 bits (AS4 reconciliation is C04's)
        if two_byte_as {
            if let Some(p) = &mut attrs.as_path {
                for s in p.iter_mut() {
                    s.base = 64512 + (s.base % 1000);
                    s.n = s.n.min(20);
                }
            }
            if let Some((a, _)) = &mut attrs.aggregator {
                *a = 64512 + (*a % 1000);
            }
        } else if let Some(p) = &mut attrs.as_path {
            for s in p.iter_mut() {
                s.n = s.n.min(20);
            }
        }
        attrs.opaque.clear();
        // the four NLRI-carrying fields never mention the same prefix
        let fix = |v: Vec<(u32, u8)>, top: u32| -> Vec<(u32, u8)> { v.into_iter().map(|(a, l)| ((a & 0x00ff_ffff) | (top << 24), l.max(8))).collect() };
        let nlri = fix(nlri, 10);
        let withdrawn = fix(withdrawn, 11);
        let retop = |x: Option<(NlriSpec, u8)>, top: u32| x.map(|(mut n, k)| {
            if let NlriSpec::V4 { addr, len } = &mut n {
                *addr = (*addr & 0x00ff_ffff) | (top << 24);
                *len = (*len).max(8);
            }
            (n, k)
        });
        let mp_reach = retop(mp_reach, 12);
        let mp_unreach = retop(mp_unreach, 13);
        // the decoder only applies MP_REACH to a family it negotiated; flowspec has no next hop
        let family = fam_of(fam);
        let nh_v6 = nh_v6 && family.afi() != Family::AFI_IP;
        // (derived, so that the strategy's shape and earlier replays are unchanged)
        let rs_client = ebgp && (fam as usize + withdrawn.len() + nlri.len()) % 3 == 0;
        // one case in five carries the receiver's own AS (65000) in its AS_PATH: an AS loop on top of whatever else is wrong
        if (fam as usize + 2 * withdrawn.len() + nlri.len()) % 5 == 0
            && let Some(segs) = attrs.as_path.as_mut()
            && let Some(first) = segs.iter_mut().find(|s| s.t == SEG_SEQ && s.n > 0 && s.n < 200)
        {
            let mut v = first.asn_list();
            v.push(65000);
            first.n = v.len() as u16;
            first.asns = v;
        }
        Case { ebgp, rs_client, two_byte_as, fam, unreach_fam, withdrawn, nlri, mp_reach, mp_unreach, nh_v6, attrs, as4_path, corruptions }
    })
}

pub fn run(r: &Run) {
    r.set_rule(RULE);
    r.assume("the UPDATE bytes are assembled by the harness, not by the repository's encoder; NLRI field contents come from the repository's NLRI encoders (their correctness is C04's)");
    r.assume("classification is by attribute TYPE as the statement words it: optional non-transitive types, AS4_PATH and AS4_AGGREGATOR may be discarded or cause withdrawal; every other attribute error requires treat-as-withdraw; corruption of MP_REACH/MP_UNREACH themselves is judged as 'not installed with faulty data, or reset'");
    r.assume("level 1 only: parse_message + validate_message; the RIB read-back after PeerSession::rx_msg is exercised by C09's inbound checks");
    r.prop("corrupted-updates", r.tier.pick(150_000, 3_000_000), || arb_case(3), check);
    r.prop("clean-updates", r.tier.pick(30_000, 500_000), || arb_case(0), check);
    r.assume(SESSION_RULE);
    r.slow(|| r.prop("session-rib", r.tier.pick(4_000, 150_000), || arb_case(3), check_session));
}

pub fn replay(sub: &str, case: &Value) -> Result<CheckResult, String> {
    let c: Case = decode_case(case)?;
    if sub == "session-rib" {
        return Ok(check_session(&c));
    }
    Ok(check(&c))
}

// ---------------------------------------------------------------------------
// session level: the same UPDATE bytes over a real session into the daemon's RIB
// (PeerSession::run_select's receive buffer, rx_msg, rx_update, TableManager). The RIB is
// seeded beforehand, through the same session, with clean routes for every prefix the
// UPDATE mentions, so that both "not installed" and "withdrawn" are observable.
// ---------------------------------------------------------------------------

pub const SESSION_RULE: &str = "session-rib: the same cases over a real loopback session (eBGP or iBGP neighbour, 2- or 4-octet AS, capabilities = IPv4 + the case's families) into the daemon's RIB. Before the UPDATE under test the peer announces, with clean attributes, every prefix the UPDATE mentions; \
after it (once the daemon has read it): the session is still up unless the reference allows a reset; every prefix the UPDATE withdraws is gone from the peer's Adj-RIB-In; when treat-as-withdraw applies, every prefix it announces is gone (the malformed announcement neither stays nor replaces the earlier route silently); prefixes it does not mention are still there. \
non-trivial := as above";

pub fn check_session(c: &Case) -> CheckResult {
    let rt = tokio::runtime::Builder::new_current_thread().enable_all().event_interval(1).build().map_err(|e| Failure::new("harness", e.to_string()))?;
    rt.block_on(session(c))
}

async fn session(c: &Case) -> CheckResult {
    use crate::event::verif::{NeighborCfg, adj_in};
    use crate::props::wirepeer::WirePeer;
    use std::net::{IpAddr, Ipv4Addr};
    use std::sync::Arc;

    let b = build(c);
    if b.bytes.len() > 4096 {
        return Ok(CaseInfo::trivial().class("too-big"));
    }
    let fam = fam_of(c.fam);
    let ufam = fam_of(c.unreach_fam.unwrap_or(c.fam));
    let peer_as: u32 = if c.ebgp { 65100 } else { 65000 };
    let src = crate::props::wirepeer::fresh_loopback();
    let cfg = NeighborCfg { addr: src, remote_asn: peer_as, local_asn: 0, rs_client: c.ebgp && c.rs_client, rr_client: false, cluster_id: None, admin_down: false, holdtime: 90, families: ALL_FAMILIES.iter().map(|f| (*f, 0)).collect(), prefix_limit: None, gr: None, llgr: None };
    // one external case in four: the speaker is inside a confederation (the peer is outside it all the same)
    let confed = c.ebgp && (c.nlri.len() + 2 * c.withdrawn.len() + c.fam as usize) % 4 == 1;
    let mut p = WirePeer::new_in(65000, if confed { Some((64512, vec![65000, 65010])) } else { None }, cfg).await?;
    p.connect().await?;
    let mut caps = vec![Capability::MultiProtocol(Family::IPV4)];
    for f in [fam, ufam] {
        if !caps.contains(&Capability::MultiProtocol(f)) {
            caps.push(Capability::MultiProtocol(f));
        }
    }
    if !c.two_byte_as {
        caps.push(Capability::FourOctetAsNumber(peer_as));
    }
    if !p.establish(peer_as, 0, 0x0a00_0002, caps.clone()).await? {
        return Err(Failure::new("harness", "the session did not establish".to_string()));
    }
    let mut local = caps.clone();
    if c.two_byte_as {
        local.push(Capability::FourOctetAsNumber(65000));
    }
    let mut codec = PeerCodec::negotiate(&caps, &local);

    // ---- seed: clean routes for every prefix the UPDATE mentions, plus one it does not ----
    let announced_legacy: Vec<bgp::Nlri> = c.nlri.iter().map(v4_nlri).collect();
    let withdrawn_legacy: Vec<bgp::Nlri> = c.withdrawn.iter().map(v4_nlri).collect();
    let announced_mp: Vec<bgp::Nlri> = c.mp_reach.as_ref().map(|(f, n)| (0..*n as u32).map(|i| nth_entry(f, i).build()).collect()).unwrap_or_default();
    let withdrawn_mp: Vec<bgp::Nlri> = c.mp_unreach.as_ref().map(|(f, n)| (0..*n as u32).map(|i| nth_entry(f, 100 + i).build()).collect()).unwrap_or_default();
    let bystander = v4(203, 0, 113, 0, 24);
    let mut seed_attr = AttrSpec { origin: Some(0), as_path: Some(if c.ebgp { vec![Seg { t: 2, n: 1, base: peer_as, asns: vec![] }] } else { vec![] }), ..Default::default() };
    if !c.ebgp {
        seed_attr.local_pref = Some(100);
    }
    let seed_attr = Arc::new(seed_attr.build());
    let seed = |family: Family, nets: Vec<bgp::Nlri>| -> Option<Message> {
        if nets.is_empty() {
            return None;
        }
        let nexthop = if family.afi() == Family::AFI_IP6 { bgp::Nexthop::V6("2001:db8::9".parse().unwrap()) } else { bgp::Nexthop::V4(Ipv4Addr::new(192, 0, 2, 9)) };
        Some(Message::Update(Update::Reach { family, entries: nets.into_iter().map(|nlri| bgp::PathNlri { path_id: 0, nlri }).collect(), nexthop: Some(nexthop), attr: seed_attr.clone() }))
    };
    let mut v4seed: Vec<bgp::Nlri> = announced_legacy.iter().chain(withdrawn_legacy.iter()).cloned().collect();
    v4seed.push(bystander.clone());
    v4seed.dedup();
    for m in [seed(Family::IPV4, v4seed), seed(fam, announced_mp.clone()), seed(ufam, withdrawn_mp.clone())].into_iter().flatten() {
        // a family the repository's encoder does not take is simply not seeded
        let _ = p.send_msg(&mut codec, &m).await;
        if p.is_closed() {
            return Ok(CaseInfo::trivial().class("session/seed-refused"));
        }
    }
    let fams: Vec<Family> = {
        let mut v = vec![Family::IPV4, fam, ufam];
        v.sort_by_key(|f| (f.afi(), f.safi()));
        v.dedup();
        v
    };
    let rib = |rig: &crate::event::verif::AdmitRig| -> BTreeSet<(u32, String)> { adj_in(&rig.tables, src, &fams).into_iter().map(|(f, n, _)| (((f.afi() as u32) << 16) | f.safi() as u32, n)).collect() };
    let key = |f: Family, n: &bgp::Nlri| (((f.afi() as u32) << 16) | f.safi() as u32, format!("{n:?}"));
    let pre = rib(&p.rig);
    if !pre.contains(&key(Family::IPV4, &bystander)) {
        return Err(Failure::new("harness", "the clean seed UPDATE was not installed".to_string()));
    }

    // ---- the UPDATE under test ------------------------------------------------------
    p.send(&b.bytes, 1, &[]).await?;
    let kinds = b.kinds.join("+");
    let wit = |f: Failure| f.with("kinds", kinds.clone()).with("ebgp", c.ebgp).with("family", family_name(fam));
    let alive = !p.is_closed() && p.is_established().await;
    let nt = b.n_corruptions >= 2 || (b.n_corruptions >= 1 && (!c.withdrawn.is_empty() || !withdrawn_mp.is_empty())) || (c.mp_reach.is_some() && fam != Family::IPV4);
    let mut info = CaseInfo::nt(nt).class_if(b.taw, "session/expect/treat-as-withdraw").class_if(b.n_corruptions == 0, "session/expect/clean");
    if !alive {
        if b.reset_allowed || b.mp_relaxed {
            return Ok(info.class("session/reset-allowed"));
        }
        return Err(wit(Failure::new("needless-reset", format!("the session was reset (NOTIFICATIONs sent: {:?}) although the NLRI can be located and parsed (corruptions: {kinds})", p.notifications())).with("notification", format!("{:?}", p.notifications().first()))));
    }
    let post = rib(&p.rig);
    // (1) withdrawals take effect
    if !b.reset_allowed {
        for w in &withdrawn_legacy {
            if post.contains(&key(Family::IPV4, w)) {
                return Err(wit(Failure::new("withdrawal-lost", format!("{w}, withdrawn by the UPDATE, is still in the peer's Adj-RIB-In (corruptions: {kinds})"))));
            }
        }
        if !b.mp_relaxed && !matches!(ufam, Family::IPV4_MPLS | Family::IPV6_MPLS) {
            for w in &withdrawn_mp {
                if post.contains(&key(ufam, w)) {
                    return Err(wit(Failure::new("withdrawal-lost", format!("{w} ({}), withdrawn by the UPDATE's MP_UNREACH, is still in the peer's Adj-RIB-In (corruptions: {kinds})", family_name(ufam)))));
                }
            }
        }
    }
    // (2) a malformed announcement neither installs nor leaves the earlier route
    if b.taw {
        for a in announced_legacy.iter().map(|n| (Family::IPV4, n)).chain(if b.mp_relaxed { [].iter() } else { announced_mp.iter() }.map(|n| (fam, n))) {
            if post.contains(&key(a.0, a.1)) {
                return Err(wit(Failure::new("faulty-route-kept", format!("{} is in the peer's Adj-RIB-In after an UPDATE that requires treat-as-withdraw (corruptions: {kinds})", a.1)).with("corrupted_codes", format!("{:?}", b.corrupted_codes))));
            }
        }
        info = info.class("session/treat-as-withdraw-observed");
    }
    // (2b) iBGP-only attributes received from an external peer are dropped, not believed
    if c.ebgp {
        let (held, _) = crate::table_manager::verif::rib_views(&p.rig.tables);
        let me = format!("{src}|");
        for (k, (_, attrs)) in held.iter().filter(|(k, _)| k.starts_with(&me)) {
            if let Some(a) = attrs.iter().find(|a| matches!(a.code(), 5 | 9 | 10)) {
                return Err(wit(Failure::new("ibgp-attr-from-ebgp", format!("{k}: attribute {} received from an external peer ({}) is held in the Adj-RIB-In", a.code(), if c.rs_client { "route-server client" } else { "eBGP" })).with("rs_client", c.rs_client).with("attr_code", a.code())));
            }
        }
        if c.rs_client {
            info = info.class("session/route-server-client");
        }
        if confed {
            info = info.class("session/speaker-in-confederation");
        }
    }
    // (3) what the UPDATE does not mention is untouched
    if !post.contains(&key(Family::IPV4, &bystander)) {
        return Err(wit(Failure::new("bystander-lost", format!("{bystander}, which the UPDATE does not mention, disappeared from the peer's Adj-RIB-In (corruptions: {kinds})"))));
    }
    let _ = pre;
    Ok(info)
}
