//! C03 — no byte sequence from the network can panic, wedge or stall a wire decoder.
//!
//! Streams are built from valid messages (C04 generators, encoded by the repository's
//! own encoder for the *peer* direction) and then mutated structurally: every length
//! field the independent walker can locate is set to boundary values, attribute flags
//! are flipped, label-stack bottom-of-stack bits cleared, regions truncated, extended,
//! duplicated or spliced, plus raw noise and fully random streams. The decoder loop is
//! driven exactly as `run_select` / tokio `Framed` drive it, under arbitrary
//! fragmentation.

use crate::cgen::nlri::*;
use crate::cgen::wire::*;
use crate::common::*;
use bytes::BytesMut;
use proptest::prelude::*;
use rustybgp_packet as packet;
use rustybgp_packet::bgp::{self, ParsedMessage, ParsedUpdate, PeerCodec};
use serde::{Deserialize, Serialize};
use serde_json::Value;
use tokio_util::codec::Decoder;

pub const RULE: &str = "cases: byte streams for the BGP session decoder (under a generated negotiated codec: family set, add-path rx per family, 2-/4-byte AS, extended message, extended next hop), the RTR decoder and the BFD decoder. \
Streams = 1-3 valid messages + 1-4 structural mutations (boundary values in every locatable length field: header, withdrawn, attribute block, per-attribute, MP next hop, NLRI length octets; flag flips; cleared bottom-of-stack bits; truncate/extend/duplicate/splice; noise) or fully random bytes; delivered in generated fragments. \
Oracle per call: no panic (both arithmetic profiles); result is message / need-more / error; Some => bytes consumed; None => buffer untouched and no complete frame pending; header lengths below the minimum are errors; at most bytes+1 iterations; any fragmentation gives the same message/error sequence as the unfragmented stream. \
non-trivial := the stream differs from valid messages in at least one length field or is fragmented inside a header; distinct := distinct serialized case";

#[derive(Clone, Copy, Debug, Serialize, Deserialize)]
pub enum LenVal {
    Zero,
    One,
    Minus(u8),
    Plus(u8),
    Max,
    Abs(u16),
    /// remaining bytes after this field + delta
    Rest(i8),
}

#[derive(Clone, Debug, Serialize, Deserialize)]
pub enum Mutation {
    /// set the k-th located length field (scaled index) to a boundary value
    LenField { k: u16, v: LenVal },
    /// set two length fields so that their sum overflows 16 bits
    OverflowPair { a: u16, b: u16 },
    /// xor the flags octet of the k-th attribute
    AttrFlags { k: u16, xor: u8 },
    /// set a byte inside the k-th NLRI region to a prefix-length-like value
    NlriByte { k: u16, off: u16, val: u8 },
    /// clear the low bit (MPLS bottom-of-stack) of `n` bytes in an NLRI region
    ClearBos { k: u16, n: u8 },
    SetByte { pos: u16, val: u8 },
    Truncate { keep: u16 },
    Extend { bytes: Vec<u8> },
    Duplicate { from: u16, len: u16, at: u16 },
    Remove { from: u16, len: u16 },
    SetType { k: u16, t: u8 },
}

#[derive(Clone, Debug, Serialize, Deserialize)]
pub enum Source {
    Bgp { local: CapSpec, remote: CapSpec, msgs: Vec<MsgSpec> },
    Rtr { pdus: Vec<RtrPdu> },
    Bfd { valid: bool },
    Raw { target: u8, bytes: Vec<u8>, local: CapSpec, remote: CapSpec },
    /// an input of one of the libFuzzer targets in /verif/fuzz (same byte layout)
    Fuzz { target: String, data: Vec<u8> },
}

#[derive(Clone, Debug, Serialize, Deserialize)]
pub enum RtrPdu {
    CacheResponse { v: u8, sid: u16 },
    Prefix { v: u8, v6: bool, flags: u8, len: u8, max: u8, asn: u32 },
    EndOfData { v: u8, sid: u16, serial: u32 },
    SerialNotify { v: u8, sid: u16, serial: u32 },
    CacheReset { v: u8 },
    ErrorReport { v: u8, code: u16, text: Vec<u8> },
    RouterKey { v: u8, body: Vec<u8> },
    Unknown { v: u8, t: u8, body: Vec<u8> },
}

#[derive(Clone, Debug, Serialize, Deserialize)]
pub struct Case {
    pub source: Source,
    pub muts: Vec<Mutation>,
    /// fragment sizes (cycled); empty = one chunk
    pub cuts: Vec<u16>,
}

// ---------------------------------------------------------------------------
// field location (independent of the repository's parser)
// ---------------------------------------------------------------------------

#[derive(Clone, Copy, Debug, PartialEq)]
enum Kind {
    U16,
    U8,
    U32,
}

#[derive(Default)]
struct Layout {
    lens: Vec<(usize, Kind)>,
    attr_flags: Vec<usize>,
    nlri_regions: Vec<(usize, usize)>,
    types: Vec<usize>,
}

fn be16(b: &[u8], i: usize) -> usize {
    ((b[i] as usize) << 8) | b[i + 1] as usize
}

fn layout_bgp(b: &[u8]) -> Layout {
    let mut l = Layout::default();
    let mut pos = 0;
    while pos + 19 <= b.len() {
        let len = be16(b, pos + 16);
        l.lens.push((pos + 16, Kind::U16));
        l.types.push(pos + 18);
        let end = (pos + len.max(19)).min(b.len());
        if b[pos + 18] == 2 && pos + 23 <= end {
            let wl = be16(b, pos + 19);
            l.lens.push((pos + 19, Kind::U16));
            if wl > 0 && pos + 21 + wl <= end {
                l.nlri_regions.push((pos + 21, pos + 21 + wl));
            }
            if pos + 21 + wl + 2 <= end {
                let al = be16(b, pos + 21 + wl);
                l.lens.push((pos + 21 + wl, Kind::U16));
                let mut p = pos + 23 + wl;
                let aend = (p + al).min(end);
                while p + 3 <= aend {
                    l.attr_flags.push(p);
                    let ext = b[p] & 0x10 != 0;
                    let code = b[p + 1];
                    let (alen, hdr) = if ext && p + 4 <= aend { (be16(b, p + 2), 4) } else { (b[p + 2] as usize, 3) };
                    l.lens.push((p + 2, if hdr == 4 { Kind::U16 } else { Kind::U8 }));
                    let body = p + hdr;
                    if code == 14 && body + 5 <= aend {
                        l.lens.push((body + 3, Kind::U8)); // next hop length
                        let nhl = b[body + 3] as usize;
                        let ns = body + 4 + nhl + 1;
                        if ns < (body + alen).min(aend) {
                            l.nlri_regions.push((ns, (body + alen).min(aend)));
                        }
                    }
                    if code == 15 && body + 3 < (body + alen).min(aend) {
                        l.nlri_regions.push((body + 3, (body + alen).min(aend)));
                    }
                    if code == 2 || code == 17 {
                        // AS_PATH segment length octets
                        let mut q = body;
                        let qe = (body + alen).min(aend);
                        while q + 2 <= qe {
                            l.lens.push((q + 1, Kind::U8));
                            q += 2 + 4 * b[q + 1] as usize;
                        }
                    }
                    p = body + alen;
                }
                if aend < end {
                    l.nlri_regions.push((aend, end));
                }
            }
        }
        if b[pos + 18] == 1 && pos + 29 <= end {
            l.lens.push((pos + 28, Kind::U8));
            let mut p = pos + 29;
            while p + 2 <= end {
                l.lens.push((p + 1, Kind::U8));
                if b[p] == 2 {
                    let mut c = p + 2;
                    let ce = (p + 2 + b[p + 1] as usize).min(end);
                    while c + 2 <= ce {
                        l.lens.push((c + 1, Kind::U8));
                        c += 2 + b[c + 1] as usize;
                    }
                }
                p += 2 + b[p + 1] as usize;
            }
        }
        if len < 19 {
            break;
        }
        pos += len;
    }
    l
}

fn layout_rtr(b: &[u8]) -> Layout {
    let mut l = Layout::default();
    let mut pos = 0;
    while pos + 8 <= b.len() {
        l.lens.push((pos + 4, Kind::U32));
        l.types.push(pos + 1);
        let len = u32::from_be_bytes([b[pos + 4], b[pos + 5], b[pos + 6], b[pos + 7]]) as usize;
        if pos + 10 <= b.len() && (b[pos + 1] == 4 || b[pos + 1] == 6) {
            l.lens.push((pos + 9, Kind::U8));
            l.lens.push((pos + 10, Kind::U8));
        }
        if len < 8 {
            break;
        }
        pos += len;
    }
    l
}

fn lenval(v: LenVal, cur: usize, rest: usize, kind: Kind) -> u64 {
    let max = match kind {
        Kind::U8 => 0xff,
        Kind::U16 => 0xffff,
        Kind::U32 => 0xffff_ffffu64,
    };
    let x: i64 = match v {
        LenVal::Zero => 0,
        LenVal::One => 1,
        LenVal::Minus(k) => cur as i64 - k as i64,
        LenVal::Plus(k) => cur as i64 + k as i64,
        LenVal::Max => max as i64,
        LenVal::Abs(a) => a as i64,
        LenVal::Rest(d) => rest as i64 + d as i64,
    };
    (x.max(0) as u64).min(max)
}

fn write_len(b: &mut [u8], off: usize, kind: Kind, v: u64) {
    match kind {
        Kind::U8 => {
            if off < b.len() {
                b[off] = v as u8;
            }
        }
        Kind::U16 => {
            if off + 2 <= b.len() {
                b[off..off + 2].copy_from_slice(&(v as u16).to_be_bytes());
            }
        }
        Kind::U32 => {
            if off + 4 <= b.len() {
                b[off..off + 4].copy_from_slice(&(v as u32).to_be_bytes());
            }
        }
    }
}

fn read_len(b: &[u8], off: usize, kind: Kind) -> usize {
    match kind {
        Kind::U8 => b.get(off).copied().unwrap_or(0) as usize,
        Kind::U16 => {
            if off + 2 <= b.len() { be16(b, off) } else { 0 }
        }
        Kind::U32 => {
            if off + 4 <= b.len() { u32::from_be_bytes([b[off], b[off + 1], b[off + 2], b[off + 3]]) as usize } else { 0 }
        }
    }
}

fn apply_mutations(mut b: Vec<u8>, muts: &[Mutation], rtr: bool) -> (Vec<u8>, bool) {
    let mut touched_len = false;
    for m in muts {
        let l = if rtr { layout_rtr(&b) } else { layout_bgp(&b) };
        let n = b.len();
        if n == 0 {
            if let Mutation::Extend { bytes } = m {
                b.extend_from_slice(bytes);
            }
            continue;
        }
        match m {
            Mutation::LenField { k, v } => {
                if !l.lens.is_empty() {
                    let (off, kind) = l.lens[pick_idx(*k, l.lens.len())];
                    let cur = read_len(&b, off, kind);
                    let rest = n.saturating_sub(off + match kind { Kind::U8 => 1, Kind::U16 => 2, Kind::U32 => 4 });
                    let val = lenval(*v, cur, rest, kind);
                    write_len(&mut b, off, kind, val);
                    touched_len = true;
                }
            }
            Mutation::OverflowPair { a, b: bb } => {
                let u16s: Vec<usize> = l.lens.iter().filter(|(_, k)| *k == Kind::U16).map(|(o, _)| *o).collect();
                if u16s.len() >= 2 {
                    let i = pick_idx(*a, u16s.len());
                    let mut j = pick_idx(*bb, u16s.len());
                    if i == j {
                        j = (j + 1) % u16s.len();
                    }
                    write_len(&mut b, u16s[i], Kind::U16, 0xfff0);
                    write_len(&mut b, u16s[j], Kind::U16, 0x0040);
                    touched_len = true;
                }
            }
            Mutation::AttrFlags { k, xor } => {
                if !l.attr_flags.is_empty() {
                    let off = l.attr_flags[pick_idx(*k, l.attr_flags.len())];
                    b[off] ^= xor;
                    touched_len |= xor & 0x10 != 0;
                }
            }
            Mutation::NlriByte { k, off, val } => {
                if !l.nlri_regions.is_empty() {
                    let (s, e) = l.nlri_regions[pick_idx(*k, l.nlri_regions.len())];
                    if e > s {
                        let p = s + pick_idx(*off, e - s);
                        b[p] = *val;
                        touched_len = true;
                    }
                }
            }
            Mutation::ClearBos { k, n: cnt } => {
                if !l.nlri_regions.is_empty() {
                    let (s, e) = l.nlri_regions[pick_idx(*k, l.nlri_regions.len())];
                    for p in (s..e.min(s + 3 * (*cnt as usize + 1) + 1)).skip(1) {
                        b[p] &= 0xfe;
                    }
                    touched_len = true;
                }
            }
            Mutation::SetByte { pos, val } => {
                let p = pick_idx(*pos, n);
                b[p] = *val;
            }
            Mutation::Truncate { keep } => {
                let k = pick_idx(*keep, n + 1);
                b.truncate(k);
                touched_len = true;
            }
            Mutation::Extend { bytes } => b.extend_from_slice(bytes),
            Mutation::Duplicate { from, len, at } => {
                let f = pick_idx(*from, n);
                let le = (pick_idx(*len, 64) + 1).min(n - f);
                let chunk = b[f..f + le].to_vec();
                let a = pick_idx(*at, n + 1);
                b.splice(a..a, chunk);
                touched_len = true;
            }
            Mutation::Remove { from, len } => {
                let f = pick_idx(*from, n);
                let le = (pick_idx(*len, 32) + 1).min(n - f);
                b.drain(f..f + le);
                touched_len = true;
            }
            Mutation::SetType { k, t } => {
                if !l.types.is_empty() {
                    let off = l.types[pick_idx(*k, l.types.len())];
                    b[off] = *t;
                }
            }
        }
    }
    (b, touched_len)
}

// ---------------------------------------------------------------------------
// stream construction
// ---------------------------------------------------------------------------

fn rtr_bytes(p: &RtrPdu) -> Vec<u8> {
    let hdr = |v: u8, t: u8, sid: u16, len: u32| {
        let mut b = vec![v % 3, t];
        b.extend_from_slice(&sid.to_be_bytes());
        b.extend_from_slice(&len.to_be_bytes());
        b
    };
    match p {
        RtrPdu::CacheResponse { v, sid } => hdr(*v, 3, *sid, 8),
        RtrPdu::Prefix { v, v6, flags, len, max, asn } => {
            let mut b = hdr(*v, if *v6 { 6 } else { 4 }, 0, if *v6 { 32 } else { 20 });
            b.extend_from_slice(&[*flags, *len, *max, 0]);
            b.extend(std::iter::repeat_n(0x20u8, if *v6 { 16 } else { 4 }));
            b.extend_from_slice(&asn.to_be_bytes());
            b
        }
        RtrPdu::EndOfData { v, sid, serial } => {
            if *v % 3 >= 1 {
                let mut b = hdr(*v, 7, *sid, 24);
                b.extend_from_slice(&serial.to_be_bytes());
                b.extend_from_slice(&[0, 0, 14, 16, 0, 0, 2, 88, 0, 0, 28, 32]);
                b
            } else {
                let mut b = hdr(*v, 7, *sid, 12);
                b.extend_from_slice(&serial.to_be_bytes());
                b
            }
        }
        RtrPdu::SerialNotify { v, sid, serial } => {
            let mut b = hdr(*v, 0, *sid, 12);
            b.extend_from_slice(&serial.to_be_bytes());
            b
        }
        RtrPdu::CacheReset { v } => hdr(*v, 8, 0, 8),
        RtrPdu::ErrorReport { v, code, text } => {
            let mut b = hdr(*v, 10, *code, 8 + 4 + 4 + text.len() as u32);
            b.extend_from_slice(&0u32.to_be_bytes());
            b.extend_from_slice(&(text.len() as u32).to_be_bytes());
            b.extend_from_slice(text);
            b
        }
        RtrPdu::RouterKey { v, body } => {
            let mut b = hdr(*v, 9, 0, 8 + body.len() as u32);
            b.extend_from_slice(body);
            b
        }
        RtrPdu::Unknown { v, t, body } => {
            let mut b = hdr(*v, 11 + (*t % 200), 0, 8 + body.len() as u32);
            b.extend_from_slice(body);
            b
        }
    }
}

#[derive(PartialEq, Clone, Copy)]
enum Target {
    Bgp,
    Rtr,
    Bfd,
}

/// returns (target, decoder codec for BGP, bytes, valid-prefix)
fn build_stream(c: &Case) -> Option<(Target, Option<PeerCodec>, Vec<u8>)> {
    match &c.source {
        Source::Bgp { local, remote, msgs } => {
            // the peer encodes with negotiate(remote, local); we decode with negotiate(local, remote)
            let (dec, mut enc) = codecs(local, remote);
            let mut buf = BytesMut::new();
            for m in msgs {
                let msg = m.build();
                let mut one = BytesMut::new();
                match catch(|| enc.encode_to(&msg, &mut one)) {
                    Ok(Ok(_)) => buf.extend_from_slice(&one),
                    _ => {}
                }
            }
            Some((Target::Bgp, Some(dec), buf.to_vec()))
        }
        Source::Rtr { pdus } => Some((Target::Rtr, None, pdus.iter().flat_map(rtr_bytes).collect())),
        Source::Bfd { valid } => {
            let m = packet::bfd::Message {
                diagnostic: packet::bfd::Diagnostic(0),
                state: packet::bfd::State::Up,
                poll: false,
                final_: false,
                control_plane_independent: false,
                demand: false,
                detect_multiplier: 3,
                my_discriminator: 1,
                your_discriminator: 2,
                desired_min_tx_interval: 1000,
                required_min_rx_interval: 1000,
                required_min_echo_rx_interval: 0,
            };
            let b = if *valid { m.encode().unwrap_or_default() } else { vec![0x20, 0xc0, 3, 24] };
            Some((Target::Bfd, None, b))
        }
        Source::Fuzz { target, data } => match target.as_str() {
            "bgp_stream" if data.len() >= 2 => Some((Target::Bgp, Some(crate::cgen::presets::preset_codec(data[0])), data[2..].to_vec())),
            "rtr_stream" if !data.is_empty() => Some((Target::Rtr, None, data[1..].to_vec())),
            "bfd_pkt" => Some((Target::Bfd, None, data.clone())),
            _ => None,
        },
        Source::Raw { target, bytes, local, remote } => match target % 3 {
            0 => Some((Target::Bgp, Some(codecs(local, remote).0), bytes.clone())),
            1 => Some((Target::Rtr, None, bytes.clone())),
            _ => Some((Target::Bfd, None, bytes.clone())),
        },
    }
}

fn summarize(m: &ParsedMessage) -> String {
    match m {
        ParsedMessage::Open(o) => format!("open {} {} {} {:?}", o.as_number, o.holdtime.seconds(), o.router_id, o.capability),
        ParsedMessage::Update(ParsedUpdate::EndOfRib(f)) => format!("eor {:?}", f),
        ParsedMessage::Update(ParsedUpdate::Routes { reach, mp_reach, unreach, mp_unreach, attrs, error_attrs }) => format!("upd {:?} {:?} {:?} {:?} {:?} {:?}", reach, mp_reach, unreach, mp_unreach, attrs, error_attrs),
        ParsedMessage::Notification(n) => format!("notif {:?}", n),
        ParsedMessage::Keepalive => "keepalive".into(),
        ParsedMessage::RouteRefresh { family } => format!("rr {:?}", family),
    }
}

/// Drive the BGP decoder over `chunks`; returns the outcome sequence.
fn run_bgp(mk: &dyn Fn() -> PeerCodec, chunks: &[&[u8]], total: usize) -> Result<Vec<String>, Failure> {
    let mut codec = mk();
    let mut buf = BytesMut::new();
    let mut out = Vec::new();
    let mut iters = 0usize;
    let max = codec.max_message_length();
    'outer: for ch in chunks {
        buf.extend_from_slice(ch);
        loop {
            iters += 1;
            if iters > total + chunks.len() + 2 {
                return Err(Failure::new("no-progress", "BGP decode loop exceeded bytes+1 iterations").with("target", "bgp"));
            }
            let before = buf.len();
            let snapshot = if before <= 64 { Some(buf.to_vec()) } else { None };
            let r = catch(|| codec.try_parse(&mut buf)).map_err(|p| p.into_failure("bgp-try_parse"))?;
            match r {
                Ok(Some(msg)) => {
                    if buf.len() >= before {
                        return Err(Failure::new("no-progress", "try_parse returned a message without consuming input").with("target", "bgp"));
                    }
                    let s = summarize(&msg);
                    // validate_message must be total as well (it runs on every parsed message)
                    for ebgp in [false, true] {
                        let m2 = msg.clone();
                        catch(move || bgp::validate_message(m2, ebgp).map(|it| it.count())).map_err(|p| p.into_failure("bgp-validate_message"))?.ok();
                    }
                    out.push(s);
                }
                Ok(None) => {
                    if buf.len() != before || snapshot.as_ref().is_some_and(|s| s[..] != buf[..]) {
                        return Err(Failure::new("need-more-modified", "try_parse asked for more bytes but modified the buffer").with("target", "bgp"));
                    }
                    if before >= 19 {
                        let l = be16(&buf, 16);
                        if l < 19 || l > max {
                            return Err(Failure::new("bad-length-accepted", format!("header length {l} neither rejected nor consumed")).with("target", "bgp"));
                        }
                        if l <= before {
                            return Err(Failure::new("complete-frame-pending", format!("a complete frame of {l} bytes is in the buffer ({before} bytes) but the decoder asks for more")).with("target", "bgp"));
                        }
                    }
                    break;
                }
                Err(n) => {
                    // must map to a NOTIFICATION: code/subcode/data accessors are total
                    let code = catch(|| (n.notification_code(), n.notification_subcode(), n.notification_data().len())).map_err(|p| p.into_failure("notification-accessors"))?;
                    out.push(format!("error {} {}", code.0, code.1));
                    break 'outer;
                }
            }
        }
    }
    Ok(out)
}

fn run_rtr(chunks: &[&[u8]], total: usize) -> Result<Vec<String>, Failure> {
    let mut codec = packet::rpki::RtrCodec::new();
    let mut buf = BytesMut::new();
    let mut out = Vec::new();
    let mut iters = 0usize;
    'outer: for ch in chunks {
        buf.extend_from_slice(ch);
        loop {
            iters += 1;
            if iters > total + chunks.len() + 2 {
                return Err(Failure::new("no-progress", "RTR decode loop exceeded bytes+1 iterations").with("target", "rtr"));
            }
            let before = buf.len();
            let head: Vec<u8> = buf.iter().take(8).copied().collect();
            let r = catch(|| codec.decode(&mut buf)).map_err(|p| p.into_failure("rtr-decode"))?;
            match r {
                Ok(Some(m)) => {
                    if buf.len() >= before {
                        return Err(Failure::new("no-progress", format!("RtrCodec::decode returned a PDU without consuming input (length field {:?})", &head[4.min(head.len())..])).with("target", "rtr").with("why", "zero-consumed"));
                    }
                    out.push(rtr_summary(&m));
                }
                Ok(None) => {
                    // The decoder may have skipped whole PDUs of types the client does not
                    // use before asking for more; what is left must not be a complete PDU.
                    if buf.len() > before {
                        return Err(Failure::new("need-more-modified", "RtrCodec::decode asked for more bytes but grew the buffer").with("target", "rtr"));
                    }
                    let before = buf.len();
                    let head: Vec<u8> = buf.iter().take(8).copied().collect();
                    if before >= 8 {
                        let l = u32::from_be_bytes([head[4], head[5], head[6], head[7]]) as usize;
                        if l < 8 {
                            return Err(Failure::new("bad-length-accepted", format!("PDU length field {l} < 8 is neither rejected nor consumed")).with("target", "rtr"));
                        }
                        if l <= before {
                            return Err(Failure::new("complete-frame-pending", format!("a complete PDU (type {}, length {l}) is in the buffer ({before} bytes) but the decoder asks for more: the stream is wedged", head[1])).with("target", "rtr").with("pdu_type_known", matches!(head[1], 0..=4 | 6..=8 | 10)));
                        }
                    }
                    break;
                }
                Err(_) => {
                    out.push("error".into());
                    break 'outer;
                }
            }
        }
    }
    Ok(out)
}

fn rtr_summary(m: &packet::rpki::Message) -> String {
    use packet::rpki::Message as M;
    match m {
        M::SerialNotify { session_id, serial_number } => format!("notify {session_id} {serial_number}"),
        M::SerialQuery { session_id, serial_number } => format!("squery {session_id} {serial_number}"),
        M::ResetQuery => "rquery".into(),
        M::CacheResponse { session_id } => format!("cresp {session_id}"),
        M::IpPrefix(p) => format!("prefix {} {} {} {}", p.net, p.flags, p.max_length, p.as_number),
        M::EndOfData { session_id, serial_number, .. } => format!("eod {session_id} {serial_number}"),
        M::CacheReset => "creset".into(),
        M::ErrorReport { error_code } => format!("err {error_code}"),
    }
}

fn fragments<'a>(b: &'a [u8], cuts: &[u16]) -> Vec<&'a [u8]> {
    if cuts.is_empty() || b.is_empty() {
        return vec![b];
    }
    let mut out = Vec::new();
    let mut pos = 0;
    let mut i = 0;
    while pos < b.len() {
        let n = (cuts[i % cuts.len()] as usize).max(1).min(b.len() - pos);
        out.push(&b[pos..pos + n]);
        pos += n;
        i += 1;
    }
    out
}

pub fn check(c: &Case) -> CheckResult {
    let Some((target, codec, base)) = build_stream(c) else {
        return Ok(CaseInfo::trivial());
    };
    let _ = codec;
    let (bytes, touched) = apply_mutations(base, &c.muts, target == Target::Rtr);
    let bytes = if bytes.len() > 70_000 { bytes[..70_000].to_vec() } else { bytes };
    let fuzz_cut: Vec<u16> = match &c.source {
        Source::Fuzz { target, data } if target == "bgp_stream" && data.len() >= 2 => vec![1 + (data[1] as u16 % 64)],
        Source::Fuzz { target, data } if target == "rtr_stream" && !data.is_empty() => vec![1 + (data[0] as u16 % 40)],
        _ => c.cuts.clone(),
    };
    let frags = fragments(&bytes, &fuzz_cut);
    let frag_in_header = {
        let hdr = if target == Target::Rtr { 8 } else { 19 };
        frags.first().is_some_and(|f| f.len() < hdr && bytes.len() > f.len())
    };
    let mut info = CaseInfo::nt(touched || frag_in_header);
    match target {
        Target::Bgp => {
            let preset = match &c.source {
                Source::Fuzz { data, .. } => Some(data[0]),
                _ => None,
            };
            let (local, remote) = match &c.source {
                Source::Bgp { local, remote, .. } | Source::Raw { local, remote, .. } => (Some(local.clone()), Some(remote.clone())),
                _ => (None, None),
            };
            let mk = move || match preset {
                Some(p) => crate::cgen::presets::preset_codec(p),
                None => codecs(local.as_ref().unwrap(), remote.as_ref().unwrap()).0,
            };
            let whole = run_bgp(&mk, &[&bytes], bytes.len())?;
            let pieces = run_bgp(&mk, &frags, bytes.len())?;
            if whole != pieces {
                return Err(Failure::new("chunking", format!("fragmented delivery ({} pieces) yields {} outcomes, unfragmented {}: first difference at index {}", frags.len(), pieces.len(), whole.len(), whole.iter().zip(pieces.iter()).position(|(a, b)| a != b).unwrap_or(whole.len().min(pieces.len())))).with("target", "bgp"));
            }
            info = info.class("bgp").class_if(whole.last().is_some_and(|s| s.starts_with("error")), "bgp/ends-in-notification").class_if(whole.iter().any(|s| s.starts_with("upd")), "bgp/update-parsed");
        }
        Target::Rtr => {
            let whole = run_rtr(&[&bytes], bytes.len())?;
            let pieces = run_rtr(&frags, bytes.len())?;
            if whole != pieces {
                return Err(Failure::new("chunking", format!("fragmented delivery yields {:?}, unfragmented {:?}", pieces.len(), whole.len())).with("target", "rtr"));
            }
            info = info.class("rtr").class_if(whole.last().is_some_and(|s| s == "error"), "rtr/ends-in-error");
        }
        Target::Bfd => {
            let r = catch(|| packet::bfd::Message::decode(&bytes)).map_err(|p| p.into_failure("bfd-decode"))?;
            if let Ok(m) = &r {
                // a decoded packet re-encodes without panic
                catch(|| m.encode()).map_err(|p| p.into_failure("bfd-encode"))?.ok();
            }
            info = info.class("bfd").class_if(r.is_ok(), "bfd/decoded");
            info.nontrivial = !c.muts.is_empty() || matches!(c.source, Source::Raw { .. });
        }
    }
    for m in &c.muts {
        info = info.class(match m {
            Mutation::LenField { .. } => "mut/len-field",
            Mutation::OverflowPair { .. } => "mut/overflow-pair",
            Mutation::AttrFlags { .. } => "mut/attr-flags",
            Mutation::NlriByte { .. } => "mut/nlri-byte",
            Mutation::ClearBos { .. } => "mut/clear-bos",
            Mutation::SetByte { .. } => "mut/set-byte",
            Mutation::Truncate { .. } => "mut/truncate",
            Mutation::Extend { .. } => "mut/extend",
            Mutation::Duplicate { .. } => "mut/duplicate",
            Mutation::Remove { .. } => "mut/remove",
            Mutation::SetType { .. } => "mut/set-type",
        });
    }
    Ok(info.class_if(frags.len() > 1, "fragmented").class_if(frag_in_header, "fragmented-in-header"))
}

// ---------------------------------------------------------------------------
// generators
// ---------------------------------------------------------------------------

fn arb_lenval() -> impl Strategy<Value = LenVal> {
    prop_oneof![
        2 => Just(LenVal::Zero),
        1 => Just(LenVal::One),
        3 => (1u8..4).prop_map(LenVal::Minus),
        3 => (1u8..4).prop_map(LenVal::Plus),
        2 => Just(LenVal::Max),
        2 => prop_oneof![Just(18u16), Just(19), Just(20), Just(22), Just(23), Just(4096), Just(4097), Just(0xfffe), 0u16..64].prop_map(LenVal::Abs),
        3 => (-3i8..4).prop_map(LenVal::Rest),
    ]
}

fn arb_mutation() -> impl Strategy<Value = Mutation> {
    prop_oneof![
        10 => (any::<u16>(), arb_lenval()).prop_map(|(k, v)| Mutation::LenField { k, v }),
        2 => (any::<u16>(), any::<u16>()).prop_map(|(a, b)| Mutation::OverflowPair { a, b }),
        3 => (any::<u16>(), prop_oneof![Just(0x10u8), Just(0x20), Just(0x40), Just(0x80), any::<u8>()]).prop_map(|(k, xor)| Mutation::AttrFlags { k, xor }),
        4 => (any::<u16>(), prop_oneof![3 => Just(0u16), 1 => any::<u16>()], prop_oneof![Just(0u8), Just(1), Just(7), Just(8), Just(24), Just(25), Just(32), Just(33), Just(64), Just(88), Just(120), Just(128), Just(129), Just(200), Just(248), Just(255), any::<u8>()]).prop_map(|(k, off, val)| Mutation::NlriByte { k, off, val }),
        2 => (any::<u16>(), 0u8..14).prop_map(|(k, n)| Mutation::ClearBos { k, n }),
        3 => (any::<u16>(), any::<u8>()).prop_map(|(pos, val)| Mutation::SetByte { pos, val }),
        3 => any::<u16>().prop_map(|keep| Mutation::Truncate { keep }),
        1 => proptest::collection::vec(any::<u8>(), 1..40).prop_map(|bytes| Mutation::Extend { bytes }),
        2 => (any::<u16>(), any::<u16>(), any::<u16>()).prop_map(|(from, len, at)| Mutation::Duplicate { from, len, at }),
        2 => (any::<u16>(), any::<u16>()).prop_map(|(from, len)| Mutation::Remove { from, len }),
        1 => (any::<u16>(), any::<u8>()).prop_map(|(k, t)| Mutation::SetType { k, t }),
    ]
}

fn arb_rtr_pdu() -> impl Strategy<Value = RtrPdu> {
    prop_oneof![
        2 => (0u8..2, any::<u16>()).prop_map(|(v, sid)| RtrPdu::CacheResponse { v, sid }),
        6 => (0u8..2, any::<bool>(), 0u8..2, 0u8..=128, 0u8..=128, any::<u32>()).prop_map(|(v, v6, flags, len, max, asn)| RtrPdu::Prefix { v, v6, flags, len, max, asn }),
        2 => (0u8..2, any::<u16>(), any::<u32>()).prop_map(|(v, sid, serial)| RtrPdu::EndOfData { v, sid, serial }),
        1 => (0u8..2, any::<u16>(), any::<u32>()).prop_map(|(v, sid, serial)| RtrPdu::SerialNotify { v, sid, serial }),
        1 => (0u8..2).prop_map(|v| RtrPdu::CacheReset { v }),
        1 => (0u8..2, 0u16..9, proptest::collection::vec(0x20u8..0x7f, 0..30)).prop_map(|(v, code, text)| RtrPdu::ErrorReport { v, code, text }),
        1 => (1u8..2, proptest::collection::vec(any::<u8>(), 0..40)).prop_map(|(v, body)| RtrPdu::RouterKey { v, body }),
        1 => (0u8..3, any::<u8>(), proptest::collection::vec(any::<u8>(), 0..20)).prop_map(|(v, t, body)| RtrPdu::Unknown { v, t, body }),
    ]
}

pub fn arb_case(valid_only: bool) -> impl Strategy<Value = Case> {
    let bgp = (0u8..20, arb_caps(4), arb_caps(4), prop_oneof![Just(0u8), Just(1), Just(2), Just(3)], prop_oneof![Just(0u8), Just(1), Just(2), Just(3)]).prop_flat_map(|(fam, mut local, mut remote, lm, rm)| {
        local.families.retain(|(f, _)| fam_of(*f) != fam_of(fam));
        remote.families.retain(|(f, _)| fam_of(*f) != fam_of(fam));
        local.families.insert(0, (fam, lm));
        remote.families.insert(0, (fam, rm));
        let ext_nh = local.ext_nh.iter().any(|x| fam_of(*x) == fam_of(fam)) && remote.ext_nh.iter().any(|x| fam_of(*x) == fam_of(fam));
        let msg = prop_oneof![5 => arb_msg_for(fam, ext_nh, 12), 1 => arb_ctrl_msg().boxed()];
        (Just(local), Just(remote), proptest::collection::vec(msg, 1..3)).prop_map(|(local, remote, msgs)| Source::Bgp { local, remote, msgs })
    });
    let rtr = proptest::collection::vec(arb_rtr_pdu(), 1..6).prop_map(|pdus| Source::Rtr { pdus });
    let bfd = any::<bool>().prop_map(|valid| Source::Bfd { valid });
    let raw = (0u8..3, proptest::collection::vec(any::<u8>(), 0..80), arb_caps(3), arb_caps(3)).prop_map(|(target, mut bytes, local, remote)| {
        // give random BGP streams a plausible header so the fuzz reaches the body parsers
        if target % 3 == 0 && bytes.len() >= 19 {
            for b in bytes.iter_mut().take(16) {
                *b = 0xff;
            }
            let l = bytes.len() as u16;
            bytes[16..18].copy_from_slice(&l.to_be_bytes());
            bytes[18] = 1 + bytes[18] % 5;
        }
        Source::Raw { target, bytes, local, remote }
    });
    let source = prop_oneof![10 => bgp, 4 => rtr, 1 => bfd, 3 => raw];
    let nmut = if valid_only { 0..1usize } else { 1..5usize };
    (source, proptest::collection::vec(arb_mutation(), nmut), proptest::collection::vec(prop_oneof![1u16..4, 4u16..24, 24u16..400], 0..4)).prop_map(|(source, muts, cuts)| Case { source, muts, cuts })
}

// ---------------------------------------------------------------------------
// session level: bursts of complete frames through the daemon's own read loop
// (PeerSession::run_select: receive buffer + repeated try_parse) over a real connection
// ---------------------------------------------------------------------------

pub const BURST_RULE: &str = "session-burst: over a real loopback session (IPv4 unicast, IPv6 unicast only, or both; established first), one burst of 1..900 complete frames (KEEPALIVE, End-of-RIB UPDATE - the empty UPDATE, which is well-formed on any session, and the IPv6 form where IPv6 is negotiated - or a mix, optionally ending in a frame of an unknown type) written in one piece or in generated fragments, then silence. Every frame of the burst must be consumed without further input: the daemon's receive counter reaches the number of frames sent (and the bad frame is answered by its NOTIFICATION) within a real-time budget of several seconds where milliseconds suffice; frames left in the receive buffer are a stall. non-trivial := more than 128 frames in one write";

#[derive(Clone, Debug, Serialize, Deserialize)]
pub struct BurstCase {
    pub n: u16,
    /// 0 = KEEPALIVEs, 1 = End-of-RIB UPDATEs, 2 = alternating
    pub kind: u8,
    pub tail_bad: bool,
    pub chunks: Vec<u16>,
    /// families of the session: 0 = IPv4 unicast, 1 = IPv6 unicast only, 2 = both
    #[serde(default)]
    pub fams: u8,
}

pub fn check_burst(c: &BurstCase) -> CheckResult {
    let rt = tokio::runtime::Builder::new_current_thread().enable_all().event_interval(1).build().map_err(|e| Failure::new("harness", e.to_string()))?;
    rt.block_on(burst(c))
}

async fn burst(c: &BurstCase) -> CheckResult {
    use crate::event::verif::NeighborCfg;
    use crate::props::wirepeer::{WirePeer, fresh_loopback};
    use packet::bgp::Capability;
    let src = fresh_loopback();
    let fams: Vec<packet::Family> = match c.fams % 3 {
        0 => vec![packet::Family::IPV4],
        1 => vec![packet::Family::IPV6],
        _ => vec![packet::Family::IPV4, packet::Family::IPV6],
    };
    let has_v6 = c.fams % 3 != 0;
    let cfg = NeighborCfg { addr: src, remote_asn: 65100, local_asn: 0, rs_client: false, rr_client: false, cluster_id: None, admin_down: false, holdtime: 90, families: fams.iter().map(|f| (*f, 0)).collect(), prefix_limit: None, gr: None, llgr: None };
    let mut p = WirePeer::new(65000, cfg).await?;
    p.connect().await?;
    let mut caps: Vec<Capability> = fams.iter().map(|f| Capability::MultiProtocol(*f)).collect();
    caps.push(Capability::FourOctetAsNumber(65100));
    if !p.establish(65100, 0, 0x0a00_0003, caps).await? {
        return Err(Failure::new("harness", "the session did not establish".to_string()));
    }
    let before = p.rig.rx_frames(src).await;
    let n = c.n.max(1) as u64;
    let mut bytes = Vec::new();
    for i in 0..n {
        bytes.extend_from_slice(&[0xff; 16]);
        let update = match c.kind % 3 {
            0 => false,
            1 => true,
            _ => i % 2 == 1,
        };
        if update && has_v6 && i % 3 == 2 {
            // End-of-RIB for IPv6 unicast: an UPDATE whose only attribute is an empty MP_UNREACH_NLRI
            bytes.extend_from_slice(&[0, 29, 2, 0, 0, 0, 6, 0x80, 15, 3, 0, 2, 1]);
        } else if update {
            // the IPv4 End-of-RIB (an empty UPDATE) is well-formed on any session, whatever families it carries
            bytes.extend_from_slice(&[0, 23, 2, 0, 0, 0, 0]);
        } else {
            bytes.extend_from_slice(&[0, 19, 4]);
        }
    }
    if c.tail_bad {
        bytes.extend_from_slice(&[0xff; 16]);
        bytes.extend_from_slice(&[0, 19, 0x63]);
    }
    let chunks: Vec<usize> = c.chunks.iter().map(|x| *x as usize).collect();
    p.write_only(&bytes, &chunks).await?;
    // nothing more is sent: the burst must be consumed on its own
    let mut got = 0;
    let mut done = false;
    for _ in 0..8000 {
        p.settle().await;
        got = p.rig.rx_frames(src).await - before;
        if got >= n && (!c.tail_bad || p.is_closed()) {
            done = true;
            break;
        }
        if !c.tail_bad && p.is_closed() {
            return Err(Failure::new("session-died", format!("the session ended on a burst of {n} well-formed KEEPALIVE / End-of-RIB frames ({got} counted; families of the session: {fams:?}; NOTIFICATIONs sent: {:?})", p.notifications())).with("ipv4_negotiated", c.fams % 3 != 1));
        }
    }
    if !done {
        return Err(Failure::new("session-stall", format!("{got} of the {n} frames of one burst were consumed{}; nothing more happens without further input from the peer", if c.tail_bad { format!(", the trailing bad frame answered: {}", p.is_closed()) } else { String::new() })).with("consumed_all", got >= n));
    }
    if c.tail_bad && !p.notifications().contains(&(1, 3)) {
        return Err(Failure::new("session-stall", format!("the frame of unknown type at the end of the burst was not answered with Bad Message Type (sent: {:?})", p.notifications())).with("consumed_all", true));
    }
    let mut info = CaseInfo::nt(n > 128 && c.chunks.is_empty());
    if n > 128 {
        info = info.class("burst-over-128-frames");
    }
    Ok(info)
}

pub fn arb_burst() -> impl Strategy<Value = BurstCase> {
    (prop_oneof![2 => 1u16..40, 2 => 100u16..300, 2 => 300u16..900], 0u8..3, prop::bool::weighted(0.4), prop_oneof![3 => Just(vec![]), 1 => proptest::collection::vec(prop_oneof![1u16..30, 100u16..5000], 1..4)], prop_oneof![2 => Just(0u8), 1 => Just(1u8), 1 => Just(2u8)]).prop_map(|(n, kind, tail_bad, chunks, fams)| BurstCase { n, kind, tail_bad, chunks, fams })
}

pub fn run(r: &Run) {
    r.set_rule(RULE);
    r.assume("the decoding codec is the one the daemon would negotiate for generated capability sets; a decoder that is called again without consuming input is detected by an iteration bound (bytes+1); a single decoder call that does not return within 60 s (other inputs take microseconds) is reported as a stall by the engine's per-case watchdog, with the input as replay");
    r.case_budget.store(60, std::sync::atomic::Ordering::Relaxed);
    r.assume("RTR: a PDU whose length field is at least 8 and fully buffered is a complete frame (RFC 8210 §5); BGP: header length within [19, negotiated max] and fully buffered");
    r.prop("mutated-streams", r.tier.pick(120_000, 4_000_000), || arb_case(false), check);
    r.prop("valid-streams-fragmented", r.tier.pick(20_000, 500_000), || arb_case(true), check);
    r.assume(BURST_RULE);
    r.assume(super::c03b::RULE);
    r.prop("bfd-session", r.tier.pick(15_000, 600_000), super::c03b::arb_case, super::c03b::check);
    r.slow(|| r.prop("session-burst", r.tier.pick(1_500, 40_000), arb_burst, check_burst));
}

pub fn replay(sub: &str, case: &Value) -> Result<CheckResult, String> {
    if sub == "bfd-session" {
        return super::c03b::replay(case);
    }
    if sub == "session-burst" {
        return Ok(check_burst(&decode_case(case)?));
    }
    let c: Case = decode_case(case)?;
    Ok(check(&c))
}

/// Write seed inputs for the libFuzzer targets (valid streams under every codec preset).
pub fn gen_corpus(dir: &str) -> std::io::Result<usize> {
    use proptest::strategy::{Strategy, ValueTree};
    use proptest::test_runner::{Config, RngSeed, TestRunner};
    let mut n = 0;
    let mut runner = TestRunner::new(Config { rng_seed: RngSeed::Fixed(7), failure_persistence: None, ..Config::default() });
    std::fs::create_dir_all(format!("{dir}/bgp_stream"))?;
    std::fs::create_dir_all(format!("{dir}/rtr_stream"))?;
    std::fs::create_dir_all(format!("{dir}/bfd_pkt"))?;
    for preset in 0..crate::cgen::presets::N_PRESETS {
        let mut codec = crate::cgen::presets::preset_codec(preset);
        for fam in 0u8..19 {
            if !codec.has_family(fam_of(fam)) {
                continue;
            }
            for k in 0..2 {
                let spec = arb_msg_for(fam, true, 6).new_tree(&mut runner).unwrap().current();
                let mut buf = BytesMut::new();
                if let Ok(Ok(_)) = catch(|| codec.encode_to(&spec.build(), &mut buf)) {
                    let mut data = vec![preset, 7 + k];
                    data.extend_from_slice(&buf);
                    if data.len() <= 4000 {
                        std::fs::write(format!("{dir}/bgp_stream/p{preset}-f{fam}-{k}"), &data)?;
                        n += 1;
                    }
                }
            }
        }
        let spec = arb_ctrl_msg().new_tree(&mut runner).unwrap().current();
        let mut buf = BytesMut::new();
        if let Ok(Ok(_)) = catch(|| codec.encode_to(&spec.build(), &mut buf)) {
            let mut data = vec![preset, 3];
            data.extend_from_slice(&buf);
            std::fs::write(format!("{dir}/bgp_stream/p{preset}-ctrl"), &data)?;
            n += 1;
        }
    }
    for k in 0..12 {
        let pdus = proptest::collection::vec(arb_rtr_pdu(), 1..6).new_tree(&mut runner).unwrap().current();
        let mut data = vec![k as u8];
        data.extend(pdus.iter().flat_map(rtr_bytes));
        std::fs::write(format!("{dir}/rtr_stream/s{k}"), &data)?;
        n += 1;
    }
    std::fs::write(format!("{dir}/bfd_pkt/valid"), [0x20u8, 0xc0, 3, 24, 0, 0, 0, 1, 0, 0, 0, 2, 0, 0, 3, 0xe8, 0, 0, 3, 0xe8, 0, 0, 0, 0])?;
    Ok(n + 1)
}

/// Turn a libFuzzer artifact into a replayable case.
pub fn case_from_fuzz(target: &str, data: Vec<u8>) -> Case {
    Case { source: Source::Fuzz { target: target.to_string(), data }, muts: vec![], cuts: vec![] }
}
