//! C17 — what the gRPC API accepts is stored faithfully, shown back unchanged, and safe.
//!
//! Four generated sub-checks on the conversion functions of daemon/src/convert.rs
//! (crate-private, reached because the harness re-hosts the daemon modules):
//!   nlri-rt/<family>   net_from_api(nlri_to_api(n), family) == n for wire-decoded n
//!   attr-rt            attr_from_api(attr_to_api(a)) == a for wire-decoded a
//!   api-attr           arbitrary protobuf-valid api::Attribute -> no panic; an accepted value
//!                      satisfies the wire decoder's invariants and is safe for its consumers
//!   api-nlri           arbitrary protobuf-valid api::Nlri (+ family) -> same for NLRI
//! and one on the real gRPC handlers (AddPath / ListPath) in props::c17 rig section.

use crate::api;
use crate::cgen::nlri::*;
use crate::cgen::presets::preset_caps;
use crate::cgen::wire::*;
use crate::cgen::*;
use crate::common::*;
use crate::convert;
use crate::wire::pb::{self, Mutation};
use bytes::BytesMut;
use prost::Message as _;
use proptest::prelude::*;
use rustybgp_packet as packet;
use rustybgp_packet::bgp::{self, Family, Message, Nexthop, Nlri, PathNlri, PeerCodec, Update};
use rustybgp_table as table;
use serde::{Deserialize, Serialize};
use serde_json::Value;
use std::net::{IpAddr, Ipv4Addr};
use std::sync::Arc;

pub const RULE: &str = "nlri-rt: cases = (family, NLRI spec) over all 19 families, the value taken after a trip through the repository's encoder and decoder; oracle net_from_api(nlri_to_api(n), family) == Ok(n). \
attr-rt: cases = attribute sets (every attribute type the decoder knows, unknown optional attributes, structured extended communities) after a wire trip; oracle attr_from_api(attr_to_api(a)) == a modulo the extended-length flag. \
api-attr / api-nlri: cases = a well-formed API message (converter output or hand-built, every oneof arm) + 0..4 protobuf-level field mutations (extreme integers, malformed strings, over-long repeated fields, dropped/duplicated/renumbered fields), decoded with prost; \
oracle: no panic; an accepted value (1) passes an independent structural validator (ORIGIN <= 2, AS_PATH segments, length multiples, scalar attributes hold scalars), (2) put into an UPDATE by the repository's encoder is decoded by the repository's decoder to the identical value without attribute error, \
(3) converts back to the API and again to the same value, (4) goes through Table::insert next to another path, best-path selection, import and export policy evaluation without panic. Both arithmetic profiles. \
non-trivial := (round trips) the value is not IPv4 unicast / not one of ORIGIN, MED, LOCAL_PREF; (api-*) at least one mutation applied and the message still decoded as protobuf; distinct := distinct serialized case";

fn codec_pair() -> (PeerCodec, PeerCodec) {
    let (l, r) = preset_caps(0);
    (PeerCodec::negotiate(&l, &r), PeerCodec::negotiate(&r, &l))
}

fn has_family(f: Family) -> bool {
    let (enc, _) = codec_pair();
    enc.has_family(f)
}

/// encode with the repository's encoder, decode with its decoder
fn wire_trip(msg: &Message) -> Result<Option<Vec<Message>>, Failure> {
    let (mut enc, mut dec) = codec_pair();
    let mut buf = BytesMut::new();
    match catch(|| enc.encode_to(msg, &mut buf)) {
        Err(p) => return Err(p.into_failure("encode")),
        Ok(Err(_)) => return Ok(None),
        Ok(Ok(_)) => {}
    }
    let mut out = Vec::new();
    let mut guard = 0;
    loop {
        guard += 1;
        if guard > 100_000 {
            return Err(Failure::new("decode-loop", "decoder makes no progress"));
        }
        match catch(|| dec.try_parse(&mut buf)) {
            Err(p) => return Err(p.into_failure("decode")),
            Ok(Err(n)) => return Err(Failure::new("wire-invalid", format!("the repository's decoder rejects the encoded value: {n:?}"))),
            Ok(Ok(None)) => break,
            Ok(Ok(Some(parsed))) => match catch(|| bgp::validate_message(parsed, false).map(|it| it.collect::<Vec<_>>())) {
                Err(p) => return Err(p.into_failure("validate")),
                Ok(Err(n)) => return Err(Failure::new("wire-invalid", format!("validate_message rejects the encoded value: {n:?}"))),
                Ok(Ok(v)) => out.extend(v),
            },
        }
    }
    Ok(Some(out))
}

fn attr_eq(a: &packet::Attribute, b: &packet::Attribute) -> bool {
    a.code() == b.code() && (a.flags() & !0x10) == (b.flags() & !0x10) && a.value() == b.value() && a.binary() == b.binary()
}

fn attr_name(code: u8) -> &'static str {
    match code {
        1 => "origin",
        2 => "as-path",
        3 => "nexthop",
        4 => "med",
        5 => "local-pref",
        6 => "atomic-aggregate",
        7 => "aggregator",
        8 => "community",
        9 => "originator-id",
        10 => "cluster-list",
        14 => "mp-reach",
        15 => "mp-unreach",
        16 => "ext-community",
        17 => "as4-path",
        18 => "as4-aggregator",
        23 => "tunnel-encap",
        26 => "aigp",
        29 => "ls",
        32 => "large-community",
        40 => "prefix-sid",
        _ => "unknown",
    }
}

fn nlri_kind(n: &Nlri) -> &'static str {
    match n {
        Nlri::V4(_) => "v4",
        Nlri::V6(_) => "v6",
        Nlri::Mup(_) => "mup",
        Nlri::VpnV4(_) => "vpnv4",
        Nlri::VpnV6(_) => "vpnv6",
        Nlri::LabeledV4(_) => "labeled-v4",
        Nlri::LabeledV6(_) => "labeled-v6",
        Nlri::FlowspecV4(_) => "flowspec-v4",
        Nlri::FlowspecV6(_) => "flowspec-v6",
        Nlri::FlowspecVpnV4(_) => "flowspec-vpn-v4",
        Nlri::FlowspecVpnV6(_) => "flowspec-vpn-v6",
        Nlri::Ls(_) => "ls",
        Nlri::SrPolicy(_) => "sr-policy",
        Nlri::Evpn(_) => "evpn",
        Nlri::Rtc(_) => "rtc",
    }
}

fn natural_nexthop(f: Family) -> Option<Nexthop> {
    use Family as F;
    match f {
        F::IPV4_FLOWSPEC | F::IPV6_FLOWSPEC | F::IPV4_FLOWSPEC_VPN | F::IPV6_FLOWSPEC_VPN => None,
        f if f.afi() == F::AFI_IP6 => Some(Nexthop::V6("2001:db8::1".parse().unwrap())),
        _ => Some(Nexthop::V4(Ipv4Addr::new(192, 0, 2, 1))),
    }
}

fn base_attrs() -> Vec<packet::Attribute> {
    vec![packet::Attribute::new_with_value(packet::Attribute::ORIGIN, 0).unwrap(), packet::Attribute::empty_as_path()]
}

/// the decoded form of `n` in `family`, or None when the session preset does not carry the family
fn decoded_nlri(family: Family, n: &Nlri) -> Result<Option<Vec<Nlri>>, Failure> {
    if !has_family(family) {
        return Ok(None);
    }
    let msg = Message::Update(Update::Reach { family, entries: vec![PathNlri { path_id: 0, nlri: n.clone() }], nexthop: natural_nexthop(family), attr: Arc::new(base_attrs()) });
    let Some(msgs) = wire_trip(&msg)? else { return Ok(None) };
    let mut got = Vec::new();
    for m in msgs {
        if let Message::Update(Update::Reach { family: f, entries, .. }) = m {
            if f != family {
                return Err(Failure::new("wire-invalid", format!("encoded for {family:?}, decoded as {f:?}")));
            }
            got.extend(entries.into_iter().map(|e| e.nlri));
        }
    }
    Ok(Some(got))
}

// ---------------------------------------------------------------------------
// nlri round trip
// ---------------------------------------------------------------------------

#[derive(Clone, Debug, Serialize, Deserialize)]
pub struct NlriCase {
    pub fam: u8,
    pub nlri: NlriSpec,
}

pub fn check_nlri_rt(c: &NlriCase) -> CheckResult {
    let family = fam_of(c.fam);
    let n0 = c.nlri.build();
    // only values the decoder itself produces
    let n = match decoded_nlri(family, &n0) {
        Ok(Some(v)) if v.len() == 1 => v.into_iter().next().unwrap(),
        Ok(_) => return Ok(CaseInfo::trivial().class("not-encodable")),
        Err(_) => return Ok(CaseInfo::trivial().class("not-wire-valid (C04's concern)")),
    };
    let fam = family_name(family);
    let kind = nlri_kind(&n);
    let a = catch(|| convert::nlri_to_api(&n)).map_err(|p| p.into_failure("nlri_to_api").with("family", fam).with("nlri", kind))?;
    let back = catch(|| convert::net_from_api(a.clone(), family)).map_err(|p| p.into_failure("net_from_api").with("family", fam).with("nlri", kind))?;
    // an RTC route target the API can name: a transitive two-octet-AS / IPv4 / four-octet-AS
    // route target (sub-type 2)
    let rt_plain = match &n {
        Nlri::Rtc(r) => match &r.match_type {
            packet::rtc::MatchType::ExactMatch { route_target, .. } => route_target[0] <= 2 && route_target[1] == 2,
            _ => true,
        },
        _ => true,
    };
    match back {
        Err(e) => Err(Failure::new("nlri-roundtrip", format!("{n:?} is shown as {a:?}, which the API then refuses: {e:?}")).with("family", fam).with("nlri", kind).with("how", "rejected").with("rt_plain", rt_plain)),
        Ok(b) if b != n => {
            // weaker law that any display format must still obey: what is listed, once
            // re-added, is listed the same way again
            let again = catch(|| convert::nlri_to_api(&b)).map_err(|p| p.into_failure("nlri_to_api").with("family", fam).with("nlri", kind))?;
            if again != a {
                return Err(Failure::new("nlri-unstable", format!("{n:?} is shown as {a:?}; re-added that is {b:?}, which is shown differently: {again:?}")).with("family", fam).with("nlri", kind));
            }
            Err(Failure::new("nlri-roundtrip", format!("{n:?} is shown as {a:?}, which converts back to the different value {b:?}")).with("family", fam).with("nlri", kind).with("how", "changed").with("rt_plain", rt_plain))
        }
        Ok(_) => Ok(CaseInfo::nt(!matches!(family, Family::IPV4)).class(kind)),
    }
}

// ---------------------------------------------------------------------------
// attribute round trip
// ---------------------------------------------------------------------------

#[derive(Clone, Debug, Serialize, Deserialize)]
pub struct AttrCase {
    pub attrs: AttrSpec,
    /// structured extended communities: (type high, sub type, 6 value bytes as u64)
    pub ext: Vec<(u8, u8, u64)>,
    /// raw attributes built with the packet crate's own encoders: (kind, seed)
    pub rich: Vec<RichSpec>,
}

fn ext_u64(t: u8, s: u8, v: u64) -> u64 {
    ((t as u64) << 56) | ((s as u64) << 48) | (v & 0xffff_ffff_ffff)
}

fn decoded_attrs(attrs: Vec<packet::Attribute>) -> Result<Option<Vec<packet::Attribute>>, Failure> {
    let mut attrs = attrs;
    attrs.sort_by_key(|a| a.code());
    let msg = Message::Update(Update::Reach {
        family: Family::IPV4,
        entries: vec![PathNlri { path_id: 0, nlri: v4(10, 0, 0, 0, 24) }],
        nexthop: Some(Nexthop::V4(Ipv4Addr::new(192, 0, 2, 1))),
        attr: Arc::new(attrs),
    });
    let Some(msgs) = wire_trip(&msg)? else { return Ok(None) };
    let mut out: Option<Vec<packet::Attribute>> = None;
    let mut n = 0;
    for m in msgs {
        match m {
            Message::Update(Update::Reach { attr, entries, .. }) if !entries.is_empty() => {
                n += 1;
                out = Some(attr.as_ref().clone());
            }
            Message::Update(Update::Unreach { .. }) => {
                return Err(Failure::new("wire-invalid", "the announcement comes back as a withdrawal (treat-as-withdraw)"));
            }
            _ => {}
        }
    }
    if n != 1 {
        return Err(Failure::new("wire-invalid", format!("one announcement encoded, {n} decoded")));
    }
    Ok(out)
}

pub fn check_attr_rt(c: &AttrCase) -> CheckResult {
    let mut spec = c.attrs.clone();
    spec.ext_communities.extend(c.ext.iter().map(|(t, s, v)| ext_u64(*t, *s, *v)));
    let mut built = spec.build();
    for r in &c.rich {
        if let Some(a) = r.build()
            && !built.iter().any(|x| x.code() == a.code())
        {
            built.push(a);
        }
    }
    let decoded = match decoded_attrs(built) {
        Ok(Some(v)) => v,
        Ok(None) => return Ok(CaseInfo::trivial().class("not-encodable")),
        Err(_) => return Ok(CaseInfo::trivial().class("not-wire-valid (C04/C05's concern)")),
    };
    let mut info = CaseInfo::trivial();
    for a in &decoded {
        let name = attr_name(a.code());
        let x = catch(|| convert::attr_to_api(a)).map_err(|p| p.into_failure("attr_to_api").with("attr", name))?;
        let back = catch(|| convert::attr_from_api(x.clone())).map_err(|p| p.into_failure("attr_from_api").with("attr", name))?;
        let ext_kind = if a.code() == packet::Attribute::EXTENDED_COMMUNITY { ext_witness(a, back.as_ref().ok()) } else { String::new() };
        match back {
            Err(e) => return Err(Failure::new("attr-roundtrip", format!("{a:?} is shown as {x:?}, which the API then refuses: {e:?}")).with("attr", name).with("how", "rejected").with("ext", ext_kind).with("opaque", a.is_opaque())),
            Ok(b) if !attr_eq(a, &b) => {
                let again = catch(|| convert::attr_to_api(&b)).map_err(|p| p.into_failure("attr_to_api").with("attr", name))?;
                if again != x {
                    return Err(Failure::new("attr-unstable", format!("{a:?} is shown as {x:?}; re-added that is {b:?}, which is shown differently: {again:?}")).with("attr", name));
                }
                return Err(Failure::new("attr-roundtrip", format!("{a:?} is shown as {x:?}, which converts back to the different value {b:?}")).with("attr", name).with("how", "changed").with("ext", ext_kind).with("opaque", a.is_opaque()));
            }
            Ok(_) => {}
        }
        info.nontrivial |= !matches!(a.code(), 1 | 4 | 5);
        info.classes.push(name);
    }
    Ok(info)
}

/// which extended community (type, subtype) differs — the witness a finding is keyed on
fn ext_witness(a: &packet::Attribute, b: Option<&packet::Attribute>) -> String {
    let x = a.binary().cloned().unwrap_or_default();
    let y = b.and_then(|b| b.binary().cloned()).unwrap_or_default();
    for (i, ch) in x.chunks(8).enumerate() {
        if y.chunks(8).nth(i) != Some(ch) && ch.len() == 8 {
            return format!("{:02x}:{:02x}", ch[0], ch[1]);
        }
    }
    String::new()
}

// ---------------------------------------------------------------------------
// rich attributes (tunnel encapsulation, prefix SID, BGP-LS) from the packet crate's encoders
// ---------------------------------------------------------------------------

#[derive(Clone, Debug, Serialize, Deserialize)]
pub enum RichSpec {
    /// Tunnel Encapsulation: SR policy candidate path
    SrPolicy { preference: Option<(u8, u32)>, bsid: Option<(u8, u8, u32)>, enlp: Option<(u8, u8)>, priority: Option<u8>, name: Option<String>, seglists: Vec<(Option<(u8, u32)>, Vec<(bool, u8, u32)>)> },
    /// Tunnel Encapsulation: another tunnel type with raw value
    TunnelOther { t: u16, value: Vec<u8> },
    /// Prefix-SID with SRv6 L3/L2 service TLV
    Srv6Service { l2: bool, sid: u32, flags: u8, behavior: u16, structure: Option<(u8, u8, u8, u8, u8, u8)> },
    /// raw attribute bytes for the given code (23, 29 or 40)
    Raw { code: u8, value: Vec<u8> },
}

impl RichSpec {
    pub fn build(&self) -> Option<packet::Attribute> {
        use packet::tunnel_encap as te;
        match self {
            RichSpec::SrPolicy { preference, bsid, enlp, priority, name, seglists } => {
                let cp = te::SrPolicyCandidatePath {
                    preference: preference.map(|(flags, preference)| te::SrPolicyPreference { flags, preference }),
                    binding_sid: bsid.map(|(k, flags, v)| if k % 2 == 0 { te::SrPolicyBindingSid::Mpls { flags, label: v & 0xf_ffff } } else { te::SrPolicyBindingSid::Srv6 { flags, sid: std::net::Ipv6Addr::from(((0x2001_0db8u128) << 96) | v as u128) } }),
                    srv6_binding_sid: None,
                    enlp: enlp.map(|(flags, enlp_type)| te::SrPolicyEnlp { flags, enlp_type }),
                    priority: *priority,
                    segment_lists: seglists
                        .iter()
                        .map(|(w, segs)| te::SrPolicySegmentList {
                            weight: w.map(|(flags, weight)| te::SrWeight { flags, weight }),
                            segments: segs
                                .iter()
                                .map(|(b, flags, v)| if *b { te::SrSegment::TypeB { flags: *flags, sid: std::net::Ipv6Addr::from(((0x2001_0db8u128) << 96) | *v as u128), endpoint_behavior: None } } else { te::SrSegment::TypeA { flags: *flags, label: *v & 0xf_ffff } })
                                .collect(),
                        })
                        .collect(),
                    candidate_path_name: name.clone(),
                    policy_name: None,
                };
                let bytes = catch(|| te::encode(&[te::TunnelEncapTlv { tunnel_type: te::TUNNEL_TYPE_SR_POLICY, value: te::TunnelEncapValue::SrPolicy(cp) }])).ok()?;
                packet::Attribute::new_with_bin(packet::Attribute::TUNNEL_ENCAP, bytes)
            }
            RichSpec::TunnelOther { t, value } => {
                let t = if *t == te::TUNNEL_TYPE_SR_POLICY { 8 } else { *t };
                let bytes = catch(|| te::encode(&[te::TunnelEncapTlv { tunnel_type: t, value: te::TunnelEncapValue::Unknown(value.clone()) }])).ok()?;
                packet::Attribute::new_with_bin(packet::Attribute::TUNNEL_ENCAP, bytes)
            }
            RichSpec::Srv6Service { l2, sid, flags, behavior, structure } => {
                use packet::prefix_sid as ps;
                let sub_sub = structure
                    .map(|(a, b, c, d, e, f)| {
                        vec![ps::Srv6ServiceDataSubSubTlv::Structure(ps::Srv6SidStructureSubSubTlv { locator_block_length: a, locator_node_length: b, function_length: c, argument_length: d, transposition_length: e, transposition_offset: f })]
                    })
                    .unwrap_or_default();
                let info = ps::Srv6InformationSubTlv { sid: std::net::Ipv6Addr::from(((0x2001_0db8u128) << 96) | *sid as u128), flags: *flags, endpoint_behavior: *behavior, sub_sub_tlvs: sub_sub };
                let tlv = ps::Srv6ServiceTlv { reserved: 0, sub_tlvs: vec![ps::Srv6ServiceSubTlv::Information(info)] };
                let p = ps::PrefixSid { tlvs: vec![if *l2 { ps::PrefixSidTlv::Srv6L2Service(tlv) } else { ps::PrefixSidTlv::Srv6L3Service(tlv) }] };
                packet::Attribute::new_with_bin(packet::Attribute::PREFIX_SID, p.to_vec())
            }
            RichSpec::Raw { code, value } => {
                let code = [23u8, 29, 40][*code as usize % 3];
                packet::Attribute::new_with_bin(code, value.clone())
            }
        }
    }
}

fn arb_rich() -> impl Strategy<Value = RichSpec> {
    prop_oneof![
        3 => (
            proptest::option::of((any::<u8>(), any::<u32>())),
            proptest::option::of((any::<u8>(), any::<u8>(), any::<u32>())),
            proptest::option::of((any::<u8>(), any::<u8>())),
            proptest::option::of(any::<u8>()),
            proptest::option::of("[a-z]{0,12}"),
            proptest::collection::vec((proptest::option::of((any::<u8>(), any::<u32>())), proptest::collection::vec((any::<bool>(), any::<u8>(), any::<u32>()), 0..3)), 0..3),
        )
            .prop_map(|(preference, bsid, enlp, priority, name, seglists)| RichSpec::SrPolicy { preference, bsid, enlp, priority, name, seglists }),
        1 => (any::<u16>(), proptest::collection::vec(any::<u8>(), 0..12)).prop_map(|(t, value)| RichSpec::TunnelOther { t, value }),
        2 => (any::<bool>(), any::<u32>(), any::<u8>(), any::<u16>(), proptest::option::of((any::<u8>(), any::<u8>(), any::<u8>(), any::<u8>(), any::<u8>(), any::<u8>()))).prop_map(|(l2, sid, flags, behavior, structure)| RichSpec::Srv6Service { l2, sid, flags, behavior, structure }),
    ]
}

fn arb_ext() -> impl Strategy<Value = (u8, u8, u64)> {
    (
        prop_oneof![4 => prop::sample::select(vec![0x00u8, 0x40, 0x01, 0x41, 0x02, 0x42, 0x03, 0x43, 0x06, 0x0c, 0x80, 0xc0, 0x81, 0xc1, 0x82, 0xc2, 0x90]), 1 => any::<u8>()],
        prop_oneof![4 => prop::sample::select(vec![0x00u8, 0x01, 0x02, 0x03, 0x04, 0x06, 0x07, 0x08, 0x09, 0x0b, 0x0c]), 1 => any::<u8>()],
        prop_oneof![1 => Just(0u64), 1 => Just(1u64), 1 => Just(0x3fu64), 4 => any::<u64>()],
    )
}

pub fn arb_attr_case() -> impl Strategy<Value = AttrCase> {
    (arb_wire_attrs(), proptest::collection::vec(arb_ext(), 0..4), proptest::collection::vec(arb_rich(), 0..3)).prop_map(|(attrs, ext, rich)| AttrCase { attrs, ext, rich })
}

// ---------------------------------------------------------------------------
// arbitrary API attributes
// ---------------------------------------------------------------------------

#[derive(Clone, Debug, Serialize, Deserialize)]
pub enum ASeed {
    /// attr_to_api of the `pick`-th attribute of a wire-decoded set
    Wire { case: AttrCase, pick: u16 },
    Origin(u32),
    AsPath(Vec<(i32, u32, u32)>),
    NextHop(String),
    Aggregator(u32, String),
    OriginatorId(String),
    ClusterList(Vec<String>),
    MpReach { afi: i32, safi: i32, nhs: Vec<String> },
    Unknown { flags: u32, t: u32, value: Vec<u8> },
    /// an arm the daemon does not convert (MpUnreach, As4Path, As4Aggregator, PmsiTunnel, Ip6ExtendedCommunities, Aigp), or no arm at all
    Other(u8),
}

impl ASeed {
    fn build(&self) -> Option<api::Attribute> {
        use api::attribute::Attr as A;
        let attr = match self {
            ASeed::Wire { case, pick } => {
                let mut spec = case.attrs.clone();
                spec.ext_communities.extend(case.ext.iter().map(|(t, s, v)| ext_u64(*t, *s, *v)));
                let mut built = spec.build();
                for r in &case.rich {
                    if let Some(a) = r.build()
                        && !built.iter().any(|x| x.code() == a.code())
                    {
                        built.push(a);
                    }
                }
                let decoded = decoded_attrs(built).ok()??;
                if decoded.is_empty() {
                    return None;
                }
                let a = &decoded[pick_idx(*pick, decoded.len())];
                return catch(|| convert::attr_to_api(a)).ok();
            }
            ASeed::Origin(o) => A::Origin(api::OriginAttribute { origin: *o }),
            ASeed::AsPath(segs) => A::AsPath(api::AsPathAttribute { segments: segs.iter().map(|(t, n, base)| api::AsSegment { r#type: *t, numbers: (0..*n).map(|i| base.wrapping_add(i)).collect() }).collect() }),
            ASeed::NextHop(s) => A::NextHop(api::NextHopAttribute { next_hop: s.clone() }),
            ASeed::Aggregator(asn, s) => A::Aggregator(api::AggregatorAttribute { asn: *asn, address: s.clone() }),
            ASeed::OriginatorId(s) => A::OriginatorId(api::OriginatorIdAttribute { id: s.clone() }),
            ASeed::ClusterList(v) => A::ClusterList(api::ClusterListAttribute { ids: v.clone() }),
            ASeed::MpReach { afi, safi, nhs } => A::MpReach(api::MpReachNlriAttribute { family: Some(api::Family { afi: *afi, safi: *safi }), next_hops: nhs.clone(), nlris: vec![] }),
            ASeed::Unknown { flags, t, value } => A::Unknown(api::UnknownAttribute { flags: *flags, r#type: *t, value: value.clone() }),
            ASeed::Other(k) => match k % 7 {
                0 => A::MpUnreach(api::MpUnreachNlriAttribute { family: Some(api::Family { afi: 1, safi: 1 }), nlris: vec![] }),
                1 => A::As4Path(api::As4PathAttribute { segments: vec![api::AsSegment { r#type: 2, numbers: vec![65001] }] }),
                2 => A::As4Aggregator(api::As4AggregatorAttribute { asn: 65001, address: "1.1.1.1".into() }),
                3 => A::PmsiTunnel(api::PmsiTunnelAttribute { flags: 0, r#type: 6, label: 100, id: vec![1, 1, 1, 1] }),
                4 => A::Ip6ExtendedCommunities(api::Ip6ExtendedCommunitiesAttribute { communities: vec![] }),
                5 => A::Aigp(api::AigpAttribute { tlvs: vec![] }),
                _ => return Some(api::Attribute { attr: None }),
            },
        };
        Some(api::Attribute { attr: Some(attr) })
    }
}

fn arb_aseed() -> impl Strategy<Value = ASeed> {
    let known_codes = prop::sample::select(vec![1u32, 2, 3, 4, 5, 6, 7, 8, 9, 10, 14, 15, 16, 17, 18, 23, 26, 29, 32, 40, 0, 11, 200, 255, 256 + 2, 65536 + 1]);
    prop_oneof![
        8 => (arb_attr_case(), any::<u16>()).prop_map(|(case, pick)| ASeed::Wire { case, pick }),
        1 => pb::nasty_u64().prop_map(|v| ASeed::Origin(v as u32)),
        2 => proptest::collection::vec((prop_oneof![4 => 1i32..=4, 1 => Just(0i32), 1 => Just(5i32), 1 => Just(-1i32), 1 => Just(258i32)], prop_oneof![6 => 0u32..5, 1 => Just(255u32), 1 => Just(256u32), 1 => Just(257u32), 1 => Just(1100u32)], any::<u32>()), 0..4).prop_map(ASeed::AsPath),
        2 => pb::nasty_text().prop_map(ASeed::NextHop),
        1 => (pb::nasty_u64(), pb::nasty_text()).prop_map(|(a, s)| ASeed::Aggregator(a as u32, s)),
        1 => pb::nasty_text().prop_map(ASeed::OriginatorId),
        1 => proptest::collection::vec(pb::nasty_text(), 0..4).prop_map(ASeed::ClusterList),
        3 => (prop_oneof![Just(1i32), Just(2), Just(25), Just(16388), Just(0), Just(70000), Just(-1)], prop_oneof![Just(1i32), Just(2), Just(4), Just(70), Just(128), Just(133), Just(134), Just(85), Just(71), Just(73), Just(132), Just(300), Just(-1)], proptest::collection::vec(pb::nasty_text(), 0..3)).prop_map(|(afi, safi, nhs)| ASeed::MpReach { afi, safi, nhs }),
        4 => (prop_oneof![Just(0u32), Just(0x40), Just(0x80), Just(0xc0), Just(0xe0), Just(0xd0), Just(0x1c0)], known_codes, pb::nasty_bytes()).prop_map(|(flags, t, value)| ASeed::Unknown { flags, t, value }),
        1 => (0u8..7).prop_map(ASeed::Other),
    ]
}

#[derive(Clone, Debug, Serialize, Deserialize)]
pub struct ApiAttrCase {
    pub seed: ASeed,
    pub muts: Vec<Mutation>,
}

/// independent statement of what the wire decoder guarantees about a stored attribute
fn structural(a: &packet::Attribute) -> Result<(), String> {
    use packet::Attribute as A;
    let scalar = matches!(a.code(), A::ORIGIN | A::MULTI_EXIT_DESC | A::LOCAL_PREF | A::ORIGINATOR_ID);
    if scalar {
        let Some(v) = a.value() else { return Err(format!("attribute {} must hold a scalar value but holds bytes {:?}", a.code(), a.binary())) };
        if a.code() == A::ORIGIN && v > 2 {
            return Err(format!("ORIGIN {v} is not IGP(0)/EGP(1)/INCOMPLETE(2)"));
        }
        return Ok(());
    }
    let Some(b) = a.binary() else { return Err(format!("attribute {} must hold bytes but holds the scalar {:?}", a.code(), a.value())) };
    let seg_walk = |b: &[u8], allow_empty_seg: bool| -> Result<(), String> {
        let mut pos = 0;
        while pos < b.len() {
            if pos + 2 > b.len() {
                return Err("segment header cut short".into());
            }
            let (t, n) = (b[pos], b[pos + 1] as usize);
            if !(1..=4).contains(&t) {
                return Err(format!("segment type {t} is not 1..4"));
            }
            if n == 0 && !allow_empty_seg {
                return Err("empty segment".into());
            }
            pos += 2 + 4 * n;
            if pos > b.len() {
                return Err(format!("segment announces {n} AS numbers but only {} bytes follow", b.len() + 4 * n - pos));
            }
        }
        Ok(())
    };
    match a.code() {
        A::AS_PATH => seg_walk(b, true).map_err(|e| format!("AS_PATH: {e}")),
        A::AS4_PATH => {
            if b.len() < 6 {
                return Err("AS4_PATH shorter than one segment".into());
            }
            seg_walk(b, false).map_err(|e| format!("AS4_PATH: {e}"))
        }
        A::ATOMIC_AGGREGATE if !b.is_empty() => Err("ATOMIC_AGGREGATE with a value".into()),
        A::AGGREGATOR | A::AS4_AGGREGATOR if b.len() != 8 => Err(format!("(AS4_)AGGREGATOR of {} bytes (internal form is 8)", b.len())),
        A::COMMUNITY | A::CLUSTER_LIST if b.len() % 4 != 0 => Err(format!("attribute {} of {} bytes is not a multiple of 4", a.code(), b.len())),
        A::EXTENDED_COMMUNITY if b.len() % 8 != 0 => Err(format!("EXTENDED_COMMUNITIES of {} bytes is not a multiple of 8", b.len())),
        A::LARGE_COMMUNITY if b.len() % 12 != 0 => Err(format!("LARGE_COMMUNITY of {} bytes is not a multiple of 12", b.len())),
        _ => Ok(()),
    }
}

fn kitchen_sink_policy(export: bool) -> super::c14::Program {
    use super::c14::*;
    let st = |conds: Vec<Cond>, act: Act| Stmt { conds, disp: None, act };
    Program {
        prefix_sets: vec![vec![(1, 8, 32)], vec![(0, 0, 32)]],
        neighbor_sets: vec![vec![0], vec![1]],
        aspath_sets: vec![vec![AsPat::Include(65001), AsPat::LeftMost(65001), AsPat::Origin(65001), AsPat::Only(65001)], vec![AsPat::RangeInclude(1, 70000), AsPat::RangeOrigin(1, 70000), AsPat::RangeLeftMost(1, 70000), AsPat::RangeOnly(1, 70000)]],
        comm_sets: vec![vec![CommPat::Exact(0xfde8_0001), CommPat::WellKnown(0)], vec![CommPat::HighRegex(65000)]],
        ext_sets: vec![vec![0x0002_fde8_0000_0001], vec![0x0102_0101_0101_0001]],
        large_sets: vec![vec![(1, 2, 3)], vec![(65000, 0, 0)]],
        stmts: vec![
            st(vec![Cond::AsPathSet(0, Opt::Any)], Act::default()),
            st(vec![Cond::AsPathSet(1, Opt::All)], Act::default()),
            st(vec![Cond::AsPathSet(0, Opt::Invert)], Act::default()),
            st(vec![Cond::CommunitySet(0, Opt::Any)], Act::default()),
            st(vec![Cond::CommunitySet(1, Opt::All)], Act::default()),
            st(vec![Cond::ExtCommunitySet(0, Opt::Any)], Act::default()),
            st(vec![Cond::LargeCommunitySet(0, Opt::Any)], Act::default()),
            st(vec![Cond::AsPathLength(0, 3)], Act::default()),
            st(vec![Cond::AsPathLength(1, 0)], Act::default()),
            st(vec![Cond::CommunityCount(1, 1)], Act::default()),
            st(vec![Cond::Origin(0)], Act::default()),
            st(vec![Cond::MedEq(5)], Act::default()),
            st(vec![Cond::LocalPrefEq(100)], Act::default()),
            st(vec![Cond::RouteType(0)], Act::default()),
            st(vec![Cond::PrefixSet(0, Opt::Any)], Act::default()),
            st(vec![], Act { community: Some((0, vec![0xfde8_0064])), med: Some((true, 5)), as_prepend: Some((0, 2, true)), local_pref: Some(200), ..Act::default() }),
            st(vec![], Act { ext_community: Some((0, vec![0x0002_fde8_0000_0002])), large_community: Some((0, vec![(1, 1, 1)])), origin: Some(2), ..Act::default() }),
            st(vec![], Act { community: Some((1, vec![0xfde8_0064])), med: Some((false, 9)), as_prepend: Some((65010, 1, false)), ..Act::default() }),
            st(vec![], Act { community: Some((2, vec![1])), ext_community: Some((2, vec![])), large_community: Some((1, vec![(1, 1, 1)])), ..Act::default() }),
        ],
        policies: vec![(0u8..19).collect()],
        assign: vec![0],
        default_accept: true,
        export,
        is_confed: false,
    }
}

thread_local! {
    static POLICIES: std::cell::RefCell<Option<(Arc<table::PolicyAssignment>, Arc<table::PolicyAssignment>)>> = const { std::cell::RefCell::new(None) };
}

fn policies() -> Result<(Arc<table::PolicyAssignment>, Arc<table::PolicyAssignment>), Failure> {
    POLICIES.with(|p| {
        let mut p = p.borrow_mut();
        if p.is_none() {
            let (t1, imp) = super::c14::load(&kitchen_sink_policy(false)).map_err(|e| Failure::new("harness", format!("policy load: {e}")))?;
            let (t2, exp) = super::c14::load(&kitchen_sink_policy(true)).map_err(|e| Failure::new("harness", format!("policy load: {e}")))?;
            std::mem::forget(t1);
            std::mem::forget(t2);
            *p = Some((imp, exp));
        }
        Ok(p.clone().unwrap())
    })
}

/// the consumers of stored attributes: table insertion next to another path with best-path
/// selection, import and export policy evaluation
fn consumers(family: Family, net: &Nlri, nexthop: Option<Nexthop>, attrs: &Arc<Vec<packet::Attribute>>, wit: &dyn Fn(Failure) -> Failure) -> Result<(), Failure> {
    let peer = Arc::new(table::Source::new(IpAddr::V4(Ipv4Addr::new(10, 0, 0, 2)), IpAddr::V4(Ipv4Addr::new(10, 0, 0, 1)), 65100, 65000, Ipv4Addr::new(2, 2, 2, 2), table::PeerRole::Ebgp));
    let other = {
        let mut s = AttrSpec { origin: Some(0), as_path: Some(vec![Seg { t: SEG_SEQ, n: 2, base: 65100, asns: vec![] }]), med: Some(10), communities: vec![0xfde8_0001], ..AttrSpec::default() };
        s.local_pref = None;
        Arc::new(s.build())
    };
    let local = table::Source::local();
    for order in 0..2 {
        let mut t = table::Table::new(0);
        let steps: [(&Arc<table::Source>, &Arc<Vec<packet::Attribute>>); 2] = if order == 0 { [(&peer, &other), (&local, attrs)] } else { [(&local, attrs), (&peer, &other)] };
        for (src, a) in steps {
            catch(|| {
                let _ = t.insert((*src).clone(), family, net.clone(), 0, nexthop, (*a).clone(), None, false, false, None, 0);
            })
            .map_err(|p| wit(p.into_failure("table-insert")))?;
        }
        catch(|| {
            let _ = t.remove(local.clone(), family, net.clone(), 0, None);
        })
        .map_err(|p| wit(p.into_failure("table-remove")))?;
    }
    let (imp, exp) = policies()?;
    let mut nh = nexthop;
    catch(|| {
        let _ = table::apply_import(&imp, None, &local, net, attrs, &mut nh);
    })
    .map_err(|p| wit(p.into_failure("apply_import")))?;
    let mut a = attrs.clone();
    let mut nh = nexthop;
    catch(|| {
        let _ = table::apply_export(&exp, None, &local, net, &mut a, &mut nh, nexthop, false, IpAddr::V4(Ipv4Addr::new(10, 0, 0, 1)), IpAddr::V4(Ipv4Addr::new(10, 0, 0, 2)));
    })
    .map_err(|p| wit(p.into_failure("apply_export")))?;
    Ok(())
}

pub fn check_api_attr(c: &ApiAttrCase) -> CheckResult {
    let Some(seed) = c.seed.build() else { return Ok(CaseInfo::trivial().class("no-seed")) };
    let bytes = seed.encode_to_vec();
    let mutated = pb::mutate(&bytes, &c.muts);
    let changed = mutated != bytes;
    let Ok(x) = api::Attribute::decode(&mutated[..]) else { return Ok(CaseInfo::trivial().class("not-protobuf")) };
    let arm = api_attr_arm(&x);
    let res = catch(|| convert::attr_from_api(x.clone())).map_err(|p| p.into_failure("attr_from_api").with("arm", arm))?;
    let a = match res {
        Err(_) => return Ok(CaseInfo::nt(changed).class("rejected")),
        Ok(a) => a,
    };
    let name = attr_name(a.code());
    let wit = |f: Failure| f.with("arm", arm).with("attr", name);
    let mut info = CaseInfo::nt(changed).class("accepted").class(arm);

    // (1) structural invariants of the wire decoder. NEXTHOP / MP_REACH / MP_UNREACH are
    // consumed by GrpcService::local_path and never stored: judged by the rig check.
    let transient = matches!(a.code(), packet::Attribute::NEXTHOP | packet::Attribute::MP_REACH | packet::Attribute::MP_UNREACH);
    if !transient {
        if let Err(e) = structural(&a) {
            return Err(wit(Failure::new("api-attr-invalid", format!("attr_from_api accepts {x:?} as {a:?}: {e}")).with("why", e.split([':', ' ']).next().unwrap_or("").to_string())));
        }
    }
    // (3) shown again and re-added: same value
    if !transient {
        let shown = catch(|| convert::attr_to_api(&a)).map_err(|p| wit(p.into_failure("attr_to_api")))?;
        match catch(|| convert::attr_from_api(shown.clone())).map_err(|p| wit(p.into_failure("attr_from_api")))? {
            Ok(b) if attr_eq(&a, &b) => {}
            Ok(b) => {
                let again = catch(|| convert::attr_to_api(&b)).map_err(|p| wit(p.into_failure("attr_to_api")))?;
                let stable = again == shown;
                return Err(wit(Failure::new("api-attr-unstable", format!("{a:?} (accepted from the API) is listed as {shown:?}, which converts to the different value {b:?}")).with("display_stable", stable)));
            }
            Err(e) => return Err(wit(Failure::new("api-attr-unstable", format!("{a:?} (accepted from the API) is listed as {shown:?}, which the API refuses: {e:?}")).with("display_stable", false))),
        }
    }
    // (2) wire validity
    if !transient && !matches!(a.code(), packet::Attribute::AS4_PATH | packet::Attribute::AS4_AGGREGATOR) {
        let mut attrs: Vec<packet::Attribute> = base_attrs().into_iter().filter(|b| b.code() != a.code()).collect();
        attrs.push(a.clone());
        match decoded_attrs(attrs) {
            Err(f) => return Err(wit(Failure::new("api-attr-invalid", format!("attr_from_api accepts {x:?} as {a:?}, which is not valid on the wire: {}", f.msg)).with("why", "wire"))),
            Ok(None) => info.classes.push("encoder-refused"),
            Ok(Some(got)) => {
                if !got.iter().any(|g| attr_eq(g, &a)) {
                    return Err(wit(Failure::new("api-attr-invalid", format!("attr_from_api accepts {x:?} as {a:?}; a peer decodes the encoded attribute differently or not at all: {got:?}")).with("why", "wire-changed")));
                }
                info.classes.push("wire-checked");
            }
        }
    }
    // (4) consumers
    if !transient {
        let mut attrs: Vec<packet::Attribute> = base_attrs().into_iter().filter(|b| b.code() != a.code()).collect();
        attrs.push(a.clone());
        attrs.sort_by_key(|x| x.code());
        consumers(Family::IPV4, &v4(10, 0, 0, 0, 24), Some(Nexthop::V4(Ipv4Addr::new(192, 0, 2, 1))), &Arc::new(attrs), &wit)?;
    }
    Ok(info)
}

fn api_attr_arm(x: &api::Attribute) -> &'static str {
    use api::attribute::Attr as A;
    match &x.attr {
        None => "none",
        Some(A::Unknown(_)) => "unknown",
        Some(A::Origin(_)) => "origin",
        Some(A::AsPath(_)) => "as-path",
        Some(A::NextHop(_)) => "next-hop",
        Some(A::MultiExitDisc(_)) => "med",
        Some(A::LocalPref(_)) => "local-pref",
        Some(A::AtomicAggregate(_)) => "atomic-aggregate",
        Some(A::Aggregator(_)) => "aggregator",
        Some(A::Communities(_)) => "communities",
        Some(A::OriginatorId(_)) => "originator-id",
        Some(A::ClusterList(_)) => "cluster-list",
        Some(A::MpReach(_)) => "mp-reach",
        Some(A::MpUnreach(_)) => "mp-unreach",
        Some(A::ExtendedCommunities(_)) => "ext-communities",
        Some(A::As4Path(_)) => "as4-path",
        Some(A::As4Aggregator(_)) => "as4-aggregator",
        Some(A::PmsiTunnel(_)) => "pmsi",
        Some(A::TunnelEncap(_)) => "tunnel-encap",
        Some(A::Ip6ExtendedCommunities(_)) => "ip6-ext-communities",
        Some(A::Aigp(_)) => "aigp",
        Some(A::LargeCommunities(_)) => "large-communities",
        Some(A::Ls(_)) => "ls",
        Some(A::PrefixSid(_)) => "prefix-sid",
    }
}

// ---------------------------------------------------------------------------
// arbitrary API NLRI
// ---------------------------------------------------------------------------

#[derive(Clone, Debug, Serialize, Deserialize)]
pub struct ApiNlriCase {
    pub seed: NlriCase,
    /// family handed to net_from_api: None = the seed's own
    pub other_family: Option<u8>,
    /// arms the daemon does not convert / no arm
    pub other_arm: Option<u8>,
    pub muts: Vec<Mutation>,
    /// instead of the seed: an IpAddressPrefix an operator may type - any address (host bits set or not) with
    /// any prefix length from 0 to one beyond the address width: (v6, address bits, length)
    #[serde(default)]
    pub typed_prefix: Option<TypedPrefix>,
}

#[derive(Clone, Debug, Serialize, Deserialize)]
pub struct TypedPrefix {
    pub v6: bool,
    /// address bits (IPv4: the low 32 bits of `lo`)
    pub hi: u64,
    pub lo: u64,
    pub len: u8,
}

fn api_nlri_arm(x: &api::Nlri) -> &'static str {
    use api::nlri::Nlri as N;
    match &x.nlri {
        None => "none",
        Some(N::Prefix(_)) => "prefix",
        Some(N::LabeledPrefix(_)) => "labeled-prefix",
        Some(N::Encapsulation(_)) => "encapsulation",
        Some(N::Vpls(_)) => "vpls",
        Some(N::EvpnEthernetAd(_)) => "evpn-ead",
        Some(N::EvpnMacadv(_)) => "evpn-macadv",
        Some(N::EvpnMulticast(_)) => "evpn-multicast",
        Some(N::EvpnEthernetSegment(_)) => "evpn-es",
        Some(N::EvpnIpPrefix(_)) => "evpn-ip-prefix",
        Some(N::EvpnIPmsi(_)) => "evpn-ipmsi",
        Some(N::LabeledVpnIpPrefix(_)) => "vpn-prefix",
        Some(N::RouteTargetMembership(_)) => "rtc",
        Some(N::FlowSpec(_)) => "flowspec",
        Some(N::VpnFlowSpec(_)) => "vpn-flowspec",
        Some(N::Opaque(_)) => "opaque",
        Some(N::LsAddrPrefix(_)) => "ls",
        Some(N::SrPolicy(_)) => "sr-policy",
        Some(N::MupInterworkSegmentDiscovery(_)) => "mup-isd",
        Some(N::MupDirectSegmentDiscovery(_)) => "mup-dsd",
        Some(N::MupType1SessionTransformed(_)) => "mup-t1",
        Some(N::MupType2SessionTransformed(_)) => "mup-t2",
    }
}

pub fn check_api_nlri(c: &ApiNlriCase) -> CheckResult {
    let seed_family = fam_of(c.seed.fam);
    let seed = match c.other_arm {
        Some(k) => match k % 5 {
            0 => api::Nlri { nlri: Some(api::nlri::Nlri::Encapsulation(Default::default())) },
            1 => api::Nlri { nlri: Some(api::nlri::Nlri::Vpls(Default::default())) },
            2 => api::Nlri { nlri: Some(api::nlri::Nlri::EvpnIPmsi(Default::default())) },
            3 => api::Nlri { nlri: Some(api::nlri::Nlri::Opaque(Default::default())) },
            _ => api::Nlri { nlri: None },
        },
        None => match catch(|| convert::nlri_to_api(&c.seed.nlri.build())) {
            Ok(x) => x,
            Err(_) => return Ok(CaseInfo::trivial().class("no-seed")),
        },
    };
    let (seed, seed_family) = match &c.typed_prefix {
        Some(t) => {
            let addr = if t.v6 { std::net::IpAddr::V6(std::net::Ipv6Addr::from(((t.hi as u128) << 64) | t.lo as u128)) } else { std::net::IpAddr::V4(std::net::Ipv4Addr::from(t.lo as u32)) };
            (api::Nlri { nlri: Some(api::nlri::Nlri::Prefix(api::IpAddressPrefix { prefix_len: t.len as u32, prefix: addr.to_string() })) }, if t.v6 { Family::IPV6 } else { Family::IPV4 })
        }
        None => (seed, seed_family),
    };
    let family = c.other_family.map(fam_of).unwrap_or(seed_family);
    let bytes = seed.encode_to_vec();
    let mutated = pb::mutate(&bytes, &c.muts);
    let changed = mutated != bytes || family != seed_family;
    let Ok(x) = api::Nlri::decode(&mutated[..]) else { return Ok(CaseInfo::trivial().class("not-protobuf")) };
    let arm = api_nlri_arm(&x);
    let fam = family_name(family);
    let res = catch(|| convert::net_from_api(x.clone(), family)).map_err(|p| p.into_failure("net_from_api").with("arm", arm).with("family", fam))?;
    let n = match res {
        Err(_) => return Ok(CaseInfo::nt(changed).class("rejected")),
        Ok(n) => n,
    };
    let kind = nlri_kind(&n);
    let wit = |f: Failure| f.with("arm", arm).with("family", fam).with("nlri", kind);
    let mut info = CaseInfo::nt(changed).class("accepted").class(arm);

    // wire validity in the family the path will be stored and advertised under
    match decoded_nlri(family, &n) {
        Err(f) => {
            let why = if f.kind == "panic" { format!("{}-panic:{}", f.witness.get("target").and_then(|v| v.as_str()).unwrap_or(""), f.witness.get("loc").and_then(|v| v.as_str()).unwrap_or("").rsplit('/').next().unwrap_or("")) } else { "peer-rejects".to_string() };
            return Err(wit(Failure::new("api-nlri-invalid", format!("net_from_api({x:?}, {family:?}) accepts {n:?}, which is not valid on the wire: {}", f.msg)).with("why", why)));
        }
        Ok(None) => info.classes.push("encoder-refused-or-family-not-carried"),
        Ok(Some(got)) => {
            if got.len() != 1 || got[0] != n {
                return Err(wit(Failure::new("api-nlri-invalid", format!("net_from_api({x:?}, {family:?}) accepts {n:?}; a peer decodes the advertised NLRI as {got:?}")).with("why", if got.len() == 1 && nlri_kind(&got[0]) == kind { "peer-sees-other-value" } else { "peer-sees-other-kind" })));
            }
            info.classes.push("wire-checked");
        }
    }
    // listed and re-added: same value
    let shown = catch(|| convert::nlri_to_api(&n)).map_err(|p| wit(p.into_failure("nlri_to_api")))?;
    match catch(|| convert::net_from_api(shown.clone(), family)).map_err(|p| wit(p.into_failure("net_from_api")))? {
        Ok(b) if b == n => {}
        Ok(b) => {
            let again = catch(|| convert::nlri_to_api(&b)).map_err(|p| wit(p.into_failure("nlri_to_api")))?;
            let stable = again == shown;
            return Err(wit(Failure::new("api-nlri-unstable", format!("{n:?} (accepted from the API) is listed as {shown:?}, which converts to the different value {b:?}")).with("display_stable", stable)));
        }
        Err(e) => return Err(wit(Failure::new("api-nlri-unstable", format!("{n:?} (accepted from the API) is listed as {shown:?}, which the API refuses: {e:?}")).with("display_stable", false))),
    }
    // consumers
    consumers(family, &n, natural_nexthop(family), &Arc::new(base_attrs()), &wit)?;
    Ok(info)
}

// ---------------------------------------------------------------------------
// AddPath / DeletePath / ListPath through the daemon's real gRPC handlers
// ---------------------------------------------------------------------------

#[derive(Clone, Debug, Serialize, Deserialize)]
pub struct PathCase {
    pub nlri: NlriCase,
    pub attrs: AttrCase,
    /// 0 = NEXT_HOP attribute, 1 = MP_REACH next hop, 2 = none
    pub nh_form: u8,
    pub nh_v6: bool,
    pub identifier: u32,
    pub muts: Vec<Mutation>,
    /// replace the request's family by this (afi, safi) after the mutations
    #[serde(default)]
    pub family_override: Option<(i32, i32)>,
    /// shift the request's (afi, safi) by (k * 65536, j * 256): values outside the wire range, above or
    /// below it, whose low bits spell the family the NLRI belongs to
    #[serde(default)]
    pub family_alias: Option<(i8, i8)>,
}

fn path_of(c: &PathCase) -> Option<(Family, api::Path)> {
    let family = fam_of(c.nlri.fam);
    let n = decoded_nlri(family, &c.nlri.nlri.build()).ok()??;
    if n.len() != 1 {
        return None;
    }
    let mut spec = c.attrs.attrs.clone();
    spec.ext_communities.extend(c.attrs.ext.iter().map(|(t, s, v)| ext_u64(*t, *s, *v)));
    // operators do not send these; local_path drops them
    spec.originator_id = None;
    spec.cluster_list = vec![];
    let decoded = decoded_attrs(spec.build()).ok()??;
    let mut pattrs: Vec<api::Attribute> = decoded.iter().map(convert::attr_to_api).collect();
    let nh = if c.nh_v6 { "2001:db8::7".to_string() } else { "192.0.2.7".to_string() };
    match c.nh_form % 3 {
        0 => pattrs.push(api::Attribute { attr: Some(api::attribute::Attr::NextHop(api::NextHopAttribute { next_hop: nh })) }),
        1 => pattrs.push(api::Attribute { attr: Some(api::attribute::Attr::MpReach(api::MpReachNlriAttribute { family: Some(convert::family_to_api(family)), next_hops: vec![nh], nlris: vec![] })) }),
        _ => {}
    }
    Some((family, api::Path { nlri: Some(convert::nlri_to_api(&n[0])), pattrs, family: Some(convert::family_to_api(family)), identifier: c.identifier, ..Default::default() }))
}

fn attr_key(a: &api::Attribute) -> String {
    format!("{a:?}")
}

pub fn check_api_path(c: &PathCase) -> CheckResult {
    let Some((seed_family, seed)) = path_of(c) else { return Ok(CaseInfo::trivial().class("no-seed")) };
    let bytes = seed.encode_to_vec();
    let mutated = pb::mutate(&bytes, &c.muts);
    let changed = mutated != bytes;
    let Ok(mut path) = api::Path::decode(&mutated[..]) else { return Ok(CaseInfo::trivial().class("not-protobuf")) };
    if let Some((afi, safi)) = c.family_override {
        path.family = Some(api::Family { afi, safi });
    }
    if let (Some((k, j)), Some(f)) = (c.family_alias, path.family.as_mut()) {
        f.afi = f.afi.wrapping_add(k as i32 * 65536);
        f.safi = f.safi.wrapping_add(j as i32 * 256);
    }
    let changed = changed || c.family_override.is_some() || c.family_alias.is_some();
    let rt = tokio::runtime::Builder::new_current_thread().enable_all().build().map_err(|e| Failure::new("harness", e.to_string()))?;
    let rig = rt.block_on(async { crate::event::verif::ApiRig::new() });
    let family_api = path.family.unwrap_or(api::Family { afi: 1, safi: 1 });
    let family = convert::family_from_api(&family_api);
    let fam = family_name(family);
    let wit = |f: Failure| f.with("family", fam).with("mutated", changed);
    let uuid = match catch(|| rt.block_on(rig.add_path(path.clone()))).map_err(|p| wit(p.into_failure("AddPath")))? {
        Err(_) => return Ok(CaseInfo::nt(changed).class("rejected")),
        Ok(u) => u,
    };
    let mut info = CaseInfo::nt(true).class("accepted");
    // what the converters make of the request (they are judged by the other sub-checks)
    let Some(n_api) = path.nlri.clone() else { return Err(wit(Failure::new("api-path", "AddPath accepted a path without NLRI"))) };
    let Ok(net) = convert::net_from_api(n_api, family) else { return Err(wit(Failure::new("api-path", "AddPath accepted an NLRI that net_from_api refuses"))) };
    let mut want: Vec<packet::Attribute> = Vec::new();
    for a in &path.pattrs {
        match convert::attr_from_api(a.clone()) {
            Err(_) => return Err(wit(Failure::new("api-path", format!("AddPath accepted the attribute {a:?}, which attr_from_api refuses")))),
            Ok(x) => {
                if !matches!(x.code(), packet::Attribute::NEXTHOP | packet::Attribute::MP_REACH | packet::Attribute::MP_UNREACH | packet::Attribute::ORIGINATOR_ID | packet::Attribute::CLUSTER_LIST) {
                    want.push(x);
                }
            }
        }
    }
    if !want.iter().any(|a| a.code() == packet::Attribute::ORIGIN) {
        want.push(packet::Attribute::new_with_value(packet::Attribute::ORIGIN, 0).unwrap());
    }
    if !want.iter().any(|a| a.code() == packet::Attribute::AS_PATH) {
        want.push(packet::Attribute::empty_as_path());
    }
    let mut want_keys: Vec<String> = want.iter().map(|a| attr_key(&convert::attr_to_api(a))).collect();
    want_keys.sort();
    let want_nlri = convert::nlri_to_api(&net);

    let listed = catch(|| rt.block_on(rig.list(family_api))).map_err(|p| wit(p.into_failure("ListPath")))?.map_err(|e| wit(Failure::new("api-path", format!("ListPath fails after a successful AddPath: {e:?}"))))?;
    let mine: Vec<&api::Path> = listed.iter().flat_map(|d| d.paths.iter()).filter(|p| p.nlri.as_ref() == Some(&want_nlri)).collect();
    let total: usize = listed.iter().map(|d| d.paths.len()).sum();
    if total != 1 || mine.len() != 1 {
        return Err(wit(Failure::new("api-path", format!("after one AddPath of {:?} the {family:?} table lists {total} path(s), {} of them for that NLRI; listed: {:?}", path.nlri, mine.len(), listed.iter().map(|d| d.prefix.clone()).collect::<Vec<_>>())).with("what", "count")));
    }
    let got = mine[0];
    let mut got_keys: Vec<String> = got.pattrs.iter().map(attr_key).collect();
    got_keys.sort();
    if got_keys != want_keys {
        let miss: Vec<_> = want_keys.iter().filter(|k| !got_keys.contains(k)).take(2).collect();
        let extra: Vec<_> = got_keys.iter().filter(|k| !want_keys.contains(k)).take(2).collect();
        return Err(wit(Failure::new("api-path", format!("the listed path differs from what was added: submitted but not listed {miss:?}; listed but not submitted {extra:?}")).with("what", "attributes")));
    }
    if got.identifier != path.identifier {
        return Err(wit(Failure::new("api-path", format!("path identifier {} added, {} listed", path.identifier, got.identifier)).with("what", "identifier")));
    }
    if got.family != Some(family_api) {
        return Err(wit(Failure::new("api-path", format!("family {:?} added, {:?} listed", family_api, got.family)).with("what", "family")));
    }
    // delete by uuid: gone
    catch(|| rt.block_on(rig.delete_path(uuid.clone()))).map_err(|p| wit(p.into_failure("DeletePath")))?.map_err(|e| wit(Failure::new("api-path", format!("DeletePath of the uuid returned by AddPath fails: {e:?}")).with("what", "delete")))?;
    let after = catch(|| rt.block_on(rig.list(family_api))).map_err(|p| wit(p.into_failure("ListPath")))?.map_err(|e| wit(Failure::new("api-path", format!("ListPath fails: {e:?}"))))?;
    if after.iter().any(|d| !d.paths.is_empty()) {
        return Err(wit(Failure::new("api-path", "the path is still listed after DeletePath").with("what", "delete")));
    }
    let _ = seed_family;
    info.classes.push(if changed { "mutated-and-accepted" } else { "as-generated" });
    Ok(info)
}

/// ListPath shows the next hop of a path (GoBGP lists it as NEXT_HOP / MP_REACH_NLRI)
pub fn check_listing_nexthop(v6: &bool) -> CheckResult {
    let c = PathCase {
        nlri: NlriCase { fam: if *v6 { 1 } else { 0 }, nlri: if *v6 { NlriSpec::V6 { addr: u128v(0x2001_0db8_0001u128 << 80), len: 48 } } else { NlriSpec::V4 { addr: 0x0a010000, len: 16 } } },
        attrs: AttrCase { attrs: AttrSpec { origin: Some(0), as_path: Some(vec![]), ..AttrSpec::default() }, ext: vec![], rich: vec![] },
        nh_form: if *v6 { 1 } else { 0 },
        nh_v6: *v6,
        identifier: 0,
        muts: vec![],
        family_override: None,
        family_alias: None,
    };
    let Some((_, path)) = path_of(&c) else { return Err(Failure::new("harness", "no seed")) };
    let rt = tokio::runtime::Builder::new_current_thread().enable_all().build().map_err(|e| Failure::new("harness", e.to_string()))?;
    let rig = rt.block_on(async { crate::event::verif::ApiRig::new() });
    let fam = path.family.unwrap();
    rt.block_on(rig.add_path(path)).map_err(|e| Failure::new("api-path", format!("AddPath of a plain path fails: {e:?}")))?;
    let listed = rt.block_on(rig.list(fam)).map_err(|e| Failure::new("api-path", format!("{e:?}")))?;
    let shows = listed.iter().flat_map(|d| d.paths.iter()).flat_map(|p| p.pattrs.iter()).any(|a| matches!(a.attr, Some(api::attribute::Attr::NextHop(_)) | Some(api::attribute::Attr::MpReach(_))));
    if !shows {
        return Err(Failure::new("listing-omits-nexthop", format!("a path added with next hop {} is listed without any next hop (neither NEXT_HOP nor MP_REACH_NLRI among {:?})", if *v6 { "2001:db8::7" } else { "192.0.2.7" }, listed.iter().flat_map(|d| d.paths.iter()).map(|p| p.pattrs.len()).collect::<Vec<_>>())).with("v6", *v6));
    }
    Ok(CaseInfo::nt(true))
}

pub fn arb_path_case() -> impl Strategy<Value = PathCase> {
    let fam_override = proptest::option::weighted(0.08, (prop_oneof![Just(1i32), Just(2), Just(25), Just(65537), Just(65538), Just(-1), Just(0)], prop_oneof![Just(1i32), Just(2), Just(128), Just(257), Just(258), Just(384), Just(-1), Just(0)]));
    (arb_nlri_case(), arb_attr_case(), 0u8..3, any::<bool>(), prop_oneof![3 => Just(0u32), 1 => any::<u32>()], pb::arb_mutations(3), fam_override, proptest::option::weighted(0.06, (-2i8..3, -2i8..3))).prop_map(|(nlri, mut attrs, nh_form, nh_v6, identifier, muts, family_override, family_alias)| {
        attrs.rich.clear();
        let family_alias = family_alias.filter(|a| *a != (0, 0));
        PathCase { nlri, attrs, nh_form, nh_v6, identifier, muts, family_override, family_alias }
    })
}

pub fn arb_api_attr_case() -> impl Strategy<Value = ApiAttrCase> {
    (arb_aseed(), pb::arb_mutations(4)).prop_map(|(seed, muts)| ApiAttrCase { seed, muts })
}

fn arb_nlri_case() -> impl Strategy<Value = NlriCase> {
    (0u8..19).prop_flat_map(|fam| arb_nlri(fam_of(fam)).prop_map(move |nlri| NlriCase { fam, nlri }))
}

pub fn arb_api_nlri_case() -> impl Strategy<Value = ApiNlriCase> {
    let typed = (any::<bool>(), prop_oneof![1 => Just(0u64), 3 => any::<u64>()], prop_oneof![1 => Just(0u64), 1 => Just(0x0a01_0203u64), 3 => any::<u64>()], prop_oneof![3 => Just(0u8), 1 => Just(1u8), 1 => Just(8u8), 1 => Just(31u8), 1 => Just(32u8), 1 => Just(33u8), 1 => Just(64u8), 1 => Just(127u8), 1 => Just(128u8), 1 => Just(129u8), 3 => 0u8..130]).prop_map(|(v6, hi, lo, len)| TypedPrefix { v6, hi, lo, len });
    (arb_nlri_case(), proptest::option::weighted(0.15, 0u8..19), proptest::option::weighted(0.03, 0u8..5), pb::arb_mutations(4), proptest::option::weighted(0.08, typed)).prop_map(|(seed, other_family, other_arm, mut muts, typed_prefix)| {
        if typed_prefix.is_some() {
            // what was typed goes in as typed
            muts.truncate(1);
        }
        ApiNlriCase { seed, other_family, other_arm, muts, typed_prefix }
    })
}

const FAM_SUBS: [&str; 19] = [
    "nlri-rt.ipv4", "nlri-rt.ipv6", "nlri-rt.ipv4-mc", "nlri-rt.ipv6-mc", "nlri-rt.ipv4-labeled", "nlri-rt.ipv6-labeled", "nlri-rt.ls", "nlri-rt.ipv4-mup", "nlri-rt.ipv6-mup", "nlri-rt.vpnv4", "nlri-rt.vpnv6", "nlri-rt.flowspec4", "nlri-rt.flowspec6",
    "nlri-rt.flowspec-vpn4", "nlri-rt.flowspec-vpn6", "nlri-rt.srpolicy4", "nlri-rt.srpolicy6", "nlri-rt.evpn", "nlri-rt.rtc",
];

pub fn run(r: &Run) {
    r.set_rule(RULE);
    r.assume("round trips range over values the repository's decoder produces from the repository's encoder's output for generated specs; recognised attributes carry their canonical flags (the API has no flags field for them), unknown attributes carry any optional flags");
    r.assume("NEXTHOP, MP_REACH and MP_UNREACH values returned by attr_from_api are consumed by GrpcService::local_path and never stored; they are judged by the add/list sub-check only");
    for (i, sub) in FAM_SUBS.iter().enumerate() {
        let fam = i as u8;
        r.prop(sub, r.tier.pick(3_000, 100_000), move || arb_nlri(fam_of(fam)).prop_map(move |nlri| NlriCase { fam, nlri }), check_nlri_rt);
    }
    r.prop("attr-rt", r.tier.pick(30_000, 1_000_000), arb_attr_case, check_attr_rt);
    r.prop("api-attr", r.tier.pick(60_000, 2_000_000), arb_api_attr_case, check_api_attr);
    r.prop("api-nlri", r.tier.pick(60_000, 2_000_000), arb_api_nlri_case, check_api_nlri);
    r.prop("api-path", r.tier.pick(20_000, 600_000), arb_path_case, check_api_path);
    r.fixed("listing-shows-nexthop", &[false, true], check_listing_nexthop);
}

pub fn replay(sub: &str, case: &Value) -> Result<CheckResult, String> {
    if sub.starts_with("nlri-rt") {
        let c: NlriCase = decode_case(case)?;
        return Ok(check_nlri_rt(&c));
    }
    match sub {
        "attr-rt" => Ok(check_attr_rt(&decode_case(case)?)),
        "api-attr" => Ok(check_api_attr(&decode_case(case)?)),
        "api-nlri" => Ok(check_api_nlri(&decode_case(case)?)),
        "api-path" => Ok(check_api_path(&decode_case(case)?)),
        "listing-shows-nexthop" => Ok(check_listing_nexthop(&decode_case(case)?)),
        _ => Err(format!("unknown sub-check {sub}")),
    }
}
