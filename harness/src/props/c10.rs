//! C10 — graceful-restart helper: stale routes live only while a timer or EOR is pending.
//!
//! Histories of session establishments (generated GR / LLGR / N-bit negotiation), drops
//! with every disconnect reason, connection attempts that end before Established,
//! announcements, End-of-RIB markers and time passing (tokio paused clock) are driven
//! through the daemon's own per-peer context: GrState, apply_disconnect, the restart and
//! LLGR timer tasks and the TableManager stale/purge calls (GrRig in the event hook
//! module). Invariants over the RIB and the timer slots are checked after every step.

use crate::common::*;
use crate::event::verif::{GrRig, SessionGr, adj_in};
use crate::fsm::SessionDownReason;
use crate::table_manager::TableManager;
use proptest::prelude::*;
use rustybgp_packet as packet;
use rustybgp_packet::bgp::{self, Family, Nexthop, PathNlri};
use rustybgp_table as table;
use serde::{Deserialize, Serialize};
use serde_json::Value;
use std::collections::BTreeSet;
use std::net::{IpAddr, Ipv4Addr};
use std::sync::Arc;
use std::time::Duration;

pub const RULE: &str = "cases = 1..16 steps for one peer over a 2-shard TableManager and a paused clock: session established (families out of IPv4 / IPv6 / EVPN, GR family subset, restart time, N-bit, LLGR family subset and stale time), \
connection that ends before Established, session down (TCP close, I/O error, received Cease, received hard reset, sent Cease, hold timer, admin shutdown, FSM error, sent UPDATE error), announce (optionally with NO_LLGR), End-of-RIB per family, time advance. \
Invariants after every step: while the session is down, the RIB holds routes of the peer in family f only if the restart timer is armed and f was kept by an eligible drop, or an LLGR timer is armed for f; after a drop that is not eligible for helper mode (hard reset, admin shutdown, FSM error, sent non-Cease error; Cease / hold timer without N-bit) no route of the peer remains; \
while LLGR timers run and the restart timer does not, no NO_LLGR route remains; while the session is up every route announced on it is present and not stale, and a stale route exists in family f only while that session negotiated GR for f and its End-of-RIB has not arrived. \
non-trivial := a drop eligible for helper mode followed by a reconnect (successful or not) or a timer expiry; distinct := distinct serialized case";

const FAMS: [Family; 3] = [Family::IPV4, Family::IPV6, Family::L2VPN_EVPN];
const PEER: Ipv4Addr = Ipv4Addr::new(10, 0, 0, 2);

#[derive(Clone, Debug, Serialize, Deserialize, PartialEq)]
pub struct SessSpec {
    pub fams: u8,
    pub gr: bool,
    pub gr_fams: u8,
    pub restart: u16,
    pub nbit: bool,
    pub llgr_fams: u8,
    pub llgr_time: u16,
}

#[derive(Clone, Debug, Serialize, Deserialize, PartialEq)]
pub enum Op {
    Up(SessSpec),
    FailedConnect,
    Down(u8),
    Announce { fam: u8, prefix: u8, no_llgr: bool },
    Eor(u8),
    Advance(u16),
}

#[derive(Clone, Debug, Serialize, Deserialize)]
pub struct Case {
    pub ops: Vec<Op>,
}

fn fams_of(mask: u8) -> Vec<Family> {
    FAMS.iter().enumerate().filter(|(i, _)| mask & (1 << i) != 0).map(|(_, f)| *f).collect()
}

fn nlri(f: Family, p: u8) -> packet::Nlri {
    match f {
        Family::IPV4 => crate::cgen::v4(10, 20 + p, 0, 0, 16),
        Family::IPV6 => packet::Nlri::V6(bgp::Ipv6Net { addr: std::net::Ipv6Addr::from(((0x2001_0db8u128) << 96) | ((p as u128 + 1) << 64)), mask: 64 }),
        _ => crate::cgen::nlri::NlriSpec::EvpnType3 { rd: crate::cgen::nlri::RdSpec::TwoOctet(1, 1), etag: p as u32, v6: false, ip: 0x0a000001 }.build(),
    }
}

fn reason_of(r: u8) -> (Option<SessionDownReason>, &'static str) {
    let n = |x: packet::Notification| bgp::Message::Notification(x);
    match r % 9 {
        0 => (None, "tcp-close"),
        1 => (Some(SessionDownReason::IoError), "io-error"),
        2 => (Some(SessionDownReason::RemoteNotification(n(packet::Notification::CeaseAdminShutdown))), "received-cease"),
        3 => (Some(SessionDownReason::RemoteNotification(n(packet::Notification::CeaseHardReset))), "received-hard-reset"),
        4 => (Some(SessionDownReason::LocalNotification(n(packet::Notification::CeaseMaxPrefixReached))), "sent-cease"),
        5 => (Some(SessionDownReason::HoldTimerExpired), "hold-timer"),
        6 => (Some(SessionDownReason::AdminShutdown), "admin-shutdown"),
        7 => (Some(SessionDownReason::FsmError), "fsm-error"),
        _ => (Some(SessionDownReason::LocalNotification(n(packet::Notification::UpdateMalformedAttributeList))), "sent-update-error"),
    }
}

/// may this disconnect enter GR helper mode (statement + RFC 4724 / 8538)
fn gr_eligible(r: u8, nbit: bool) -> bool {
    match r % 9 {
        0 | 1 => true,
        2 | 4 | 5 => nbit,
        _ => false,
    }
}

struct Live {
    spec: SessSpec,
    sources: Vec<Arc<table::Source>>,
    announced: BTreeSet<(usize, u8)>,
    eor: BTreeSet<usize>,
}

pub fn check(c: &Case) -> CheckResult {
    let rt = tokio::runtime::Builder::new_current_thread().enable_time().start_paused(true).build().map_err(|e| Failure::new("harness", e.to_string()))?;
    rt.block_on(run_case(c))
}

async fn settle() {
    for _ in 0..40 {
        tokio::task::yield_now().await;
    }
}

async fn run_case(c: &Case) -> CheckResult {
    let tables = Arc::new(TableManager::new(2));
    let addr = IpAddr::V4(PEER);
    let rig = GrRig::new(addr);
    let mut live: Option<Live> = None;
    // families kept by the last eligible drop (restart timer covers them) / by LLGR
    let mut kept_gr: Vec<Family> = Vec::new();
    let mut kept_llgr: Vec<Family> = Vec::new();
    let mut no_llgr_marked: BTreeSet<String> = BTreeSet::new();
    let mut last_down: Option<(&'static str, bool)> = None;
    let mut info = CaseInfo::trivial();
    let mut eligible_drop_seen = false;

    for (i, op) in c.ops.iter().enumerate() {
        let mut what = "";
        match op {
            Op::Up(spec) => {
                if live.is_some() || spec.fams & 7 == 0 {
                    continue;
                }
                what = "established";
                let fams = fams_of(spec.fams);
                let gr_f: Vec<Family> = if spec.gr { fams_of(spec.gr_fams & spec.fams) } else { vec![] };
                let sources = FAMS.iter().map(|_| Arc::new(table::Source::new(addr, IpAddr::V4(Ipv4Addr::new(10, 0, 0, 1)), 65100, 65000, Ipv4Addr::new(2, 2, 2, 2), table::PeerRole::Ebgp))).collect();
                let _ = fams;
                catch_async(rig.session_established_wrap(&tables, gr_f)).await.map_err(|p| p.into_failure("GrSessionEstablished"))?;
                live = Some(Live { spec: spec.clone(), sources, announced: BTreeSet::new(), eor: BTreeSet::new() });
                if eligible_drop_seen {
                    info.nontrivial = true;
                    info.classes.push("reconnect-after-helper-mode");
                }
                last_down = None;
            }
            Op::FailedConnect => {
                if live.is_some() {
                    continue;
                }
                what = "failed-connect";
                let s = SessionGr { families: vec![], gr: None, llgr: None };
                rig.session_down(&tables, false, &s, Some(SessionDownReason::IoError)).await;
                if eligible_drop_seen {
                    info.nontrivial = true;
                    info.classes.push("failed-reconnect-after-helper-mode");
                }
            }
            Op::Down(r) => {
                let Some(l) = live.take() else { continue };
                let (reason, name) = reason_of(*r);
                what = name;
                let fams = fams_of(l.spec.fams);
                let gr_f = fams_of(l.spec.gr_fams & l.spec.fams);
                let llgr_f = fams_of(l.spec.llgr_fams & l.spec.fams);
                let gr = if l.spec.gr && !gr_f.is_empty() { Some((gr_f.clone(), Duration::from_secs(l.spec.restart as u64), l.spec.nbit)) } else { None };
                let llgr = if !llgr_f.is_empty() { Some(llgr_f.iter().map(|f| (*f, Duration::from_secs(l.spec.llgr_time as u64))).collect()) } else { None };
                let eligible = gr.is_some() && gr_eligible(*r, l.spec.nbit);
                let s = SessionGr { families: fams, gr, llgr };
                rig.session_down(&tables, true, &s, reason).await;
                kept_gr = if eligible { gr_f } else { vec![] };
                // LLGR follows GR's eligibility; without GR it applies to connection loss only
                kept_llgr = if eligible || (s.gr.is_none() && matches!(r % 9, 0 | 1)) || (s.gr.is_some() && !eligible && matches!(r % 9, 0 | 1)) { llgr_f.clone() } else { vec![] };
                if eligible {
                    eligible_drop_seen = true;
                    info.classes.push("eligible-drop");
                }
                last_down = Some((name, eligible || (s.llgr.is_some() && matches!(r % 9, 0 | 1))));
            }
            Op::Announce { fam, prefix, no_llgr } => {
                let Some(l) = live.as_mut() else { continue };
                let fi = *fam as usize % 3;
                if l.spec.fams & (1 << fi) == 0 {
                    continue;
                }
                what = "announce";
                let mut spec = crate::cgen::AttrSpec { origin: Some(0), as_path: Some(vec![crate::cgen::Seg { t: 2, n: 1, base: 65100, asns: vec![] }]), ..Default::default() };
                if *no_llgr {
                    spec.communities = vec![0xffff_0007];
                }
                let n = nlri(FAMS[fi], *prefix % 4);
                if *no_llgr {
                    no_llgr_marked.insert(format!("{n:?}"));
                } else {
                    no_llgr_marked.remove(&format!("{n:?}"));
                }
                let _ = tables.insert_route(l.sources[fi].clone(), FAMS[fi], PathNlri { path_id: 0, nlri: n }, Some(Nexthop::V4(Ipv4Addr::new(192, 0, 2, 1))), Arc::new(spec.build()), None, 1);
                l.announced.insert((fi, *prefix % 4));
            }
            Op::Eor(f) => {
                let Some(l) = live.as_mut() else { continue };
                let fi = *f as usize % 3;
                if l.spec.fams & (1 << fi) == 0 {
                    continue;
                }
                what = "end-of-rib";
                rig.eor(&tables, FAMS[fi]);
                l.eor.insert(fi);
            }
            Op::Advance(secs) => {
                what = "time-passes";
                tokio::time::advance(Duration::from_secs(*secs as u64)).await;
                if live.is_none() && eligible_drop_seen {
                    info.nontrivial = true;
                }
            }
        }
        settle().await;

        // ---- invariants -----------------------------------------------------------
        let rows = adj_in(&tables, addr, &FAMS);
        let (gr_armed, llgr_armed, restarting) = rig.timers();
        let wit = |f: Failure| f.with("after", what).with("down_reason", last_down.map(|d| d.0).unwrap_or("-")).with("restart_timer_armed", gr_armed).with("llgr_timers_armed", !llgr_armed.is_empty()).with("is_peer_restarting", restarting);
        match &live {
            None => {
                for f in FAMS {
                    let n = rows.iter().filter(|r| r.0 == f).count();
                    if n == 0 {
                        continue;
                    }
                    // an LLGR family waits for the restart timer first when GR was kept as well
                    let covered = (gr_armed && (kept_gr.contains(&f) || kept_llgr.contains(&f))) || llgr_armed.contains(&f);
                    if !covered {
                        return Err(wit(Failure::new("routes-without-timer", format!("step #{i} ({op:?}): the session is down, the RIB still holds {n} route(s) of the peer in {f:?}, but neither the restart timer (armed: {gr_armed}, covering {kept_gr:?}) nor an LLGR timer for the family (armed for {llgr_armed:?}) is pending: nothing will ever remove them")).with("family_kept_by_gr", kept_gr.contains(&f))));
                    }
                }
                if let Some((name, may_keep)) = last_down
                    && !may_keep
                    && !rows.is_empty()
                {
                    return Err(wit(Failure::new("helper-mode-entered", format!("step #{i}: after a '{name}' disconnect, which never enters helper mode, the RIB still holds {} route(s) of the peer", rows.len()))));
                }
                if !gr_armed && !llgr_armed.is_empty() {
                    if let Some(r) = rows.iter().find(|r| no_llgr_marked.contains(&r.1) && llgr_armed.contains(&r.0)) {
                        return Err(wit(Failure::new("no-llgr-kept", format!("step #{i}: the LLGR period is running and {} (announced with NO_LLGR) is still in the RIB", r.1))));
                    }
                }
            }
            Some(l) => {
                for (fi, p) in &l.announced {
                    let key = format!("{:?}", nlri(FAMS[*fi], *p));
                    match rows.iter().find(|r| r.0 == FAMS[*fi] && r.1 == key) {
                        None => return Err(wit(Failure::new("fresh-route-purged", format!("step #{i} ({op:?}): {key}, announced on the current session, is no longer in the RIB")))),
                        Some(r) if r.2 => return Err(wit(Failure::new("fresh-route-purged", format!("step #{i} ({op:?}): {key}, announced on the current session, is marked stale")))),
                        _ => {}
                    }
                }
                for r in rows.iter().filter(|r| r.2) {
                    let fi = FAMS.iter().position(|f| *f == r.0).unwrap();
                    let awaiting = l.spec.gr && l.spec.gr_fams & l.spec.fams & (1 << fi) != 0 && !l.eor.contains(&fi);
                    if !awaiting {
                        return Err(wit(Failure::new("stale-while-up", format!("step #{i} ({op:?}): the session is up, {} in {:?} is still stale, but no End-of-RIB is awaited for that family (GR negotiated for it on this session: {}, End-of-RIB received: {})", r.1, r.0, l.spec.gr && l.spec.gr_fams & l.spec.fams & (1 << fi) != 0, l.eor.contains(&fi)))));
                    }
                }
            }
        }
    }
    Ok(info)
}

// small adapters (the rig's establish step is synchronous)
trait RigExt {
    fn session_established_wrap<'a>(&'a self, tables: &'a Arc<TableManager>, gr: Vec<Family>) -> std::pin::Pin<Box<dyn std::future::Future<Output = ()> + 'a>>;
}
impl RigExt for GrRig {
    fn session_established_wrap<'a>(&'a self, tables: &'a Arc<TableManager>, gr: Vec<Family>) -> std::pin::Pin<Box<dyn std::future::Future<Output = ()> + 'a>> {
        Box::pin(async move { self.session_established(tables, gr) })
    }
}

async fn catch_async<F: std::future::Future<Output = ()>>(f: F) -> Result<(), Panicked> {
    f.await;
    Ok(())
}

fn arb_spec() -> impl Strategy<Value = SessSpec> {
    (1u8..8, prop::bool::weighted(0.8), 0u8..8, prop_oneof![Just(5u16), Just(30), Just(120)], any::<bool>(), prop_oneof![3 => Just(0u8), 2 => 0u8..8], prop_oneof![Just(10u16), Just(60), Just(600)]).prop_map(|(fams, gr, gr_fams, restart, nbit, llgr_fams, llgr_time)| SessSpec { fams, gr, gr_fams, restart, nbit, llgr_fams, llgr_time })
}

pub fn arb_case(max: usize) -> impl Strategy<Value = Case> {
    let op = prop_oneof![
        4 => arb_spec().prop_map(Op::Up),
        2 => Just(Op::FailedConnect),
        4 => (0u8..9).prop_map(Op::Down),
        5 => (0u8..3, 0u8..4, prop::bool::weighted(0.2)).prop_map(|(fam, prefix, no_llgr)| Op::Announce { fam, prefix, no_llgr }),
        2 => (0u8..3).prop_map(Op::Eor),
        3 => prop_oneof![Just(1u16), Just(4), Just(6), Just(31), Just(59), Just(61), Just(125), Just(700)].prop_map(Op::Advance),
    ];
    (arb_spec(), proptest::collection::vec(op, 1..max)).prop_map(|(first, mut ops)| {
        ops.insert(0, Op::Up(first));
        Case { ops }
    })
}

pub fn run(r: &Run) {
    r.set_rule(RULE);
    r.assume("the tail of PeerSession::run (families to drop / to mark stale, which negotiated GR/LLGR parameters survive the disconnect reason) and the helper side of process_effects are repeated statement by statement in the event hook module; apply_disconnect, GrState, the timer tasks and the TableManager calls are the daemon's own; time is tokio's paused clock");
    r.assume("a received non-Cease NOTIFICATION is not generated: RFC 8538 lets it enter helper mode with the N-bit while the statement says non-Cease errors never do");
    r.prop("gr-histories", r.tier.pick(150_000, 3_000_000), || arb_case(r.tier.pick(16, 32)), check);
}

pub fn replay(_sub: &str, case: &Value) -> Result<CheckResult, String> {
    Ok(check(&decode_case(case)?))
}
